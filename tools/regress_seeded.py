#!/usr/bin/env python3
"""tools/regress_seeded.py [nparallel]: run every kept seeded change against the check recorded as detecting it (scratch
worktrees, /repo untouched) and list those that are no longer detected.  Neutralised ones and the recorded non-detection are
expected to stay green."""
import os, sys, json, subprocess
from concurrent.futures import ThreadPoolExecutor
S = "/verif/seeded"
jobs = []
for d in sorted(os.listdir(S)):
    p = os.path.join(S, d, "patch.diff"); m = os.path.join(S, d, "meta.json")
    if not (os.path.exists(p) and os.path.exists(m)) or d.startswith("benign"):
        continue
    meta = json.load(open(m)); db = meta.get("detected_by", [])
    if isinstance(db, dict): db = [db]
    chk = db[-1]["check"] if db else meta.get("property")
    if d.endswith("neutralised") or meta.get("stale"):
        continue          # kept for the record only: written against code that later fix commits replaced
    expect = not (d.endswith("neutralised") or (db and "NOT DETECTED" in db[-1].get("result", "")))
    jobs.append((d, p, chk, expect))
def work(j):
    d, p, chk, expect = j
    r = subprocess.run(["/verif/tools/try_mutant_wt.sh", p, chk], stdout=subprocess.PIPE, stderr=subprocess.STDOUT, text=True)
    rc = r.returncode
    return d, chk, expect, rc, r.stdout.strip().splitlines()[-2:] 
n = int(sys.argv[1]) if len(sys.argv) > 1 else 3
bad = 0
with ThreadPoolExecutor(max_workers=n) as ex:
    for d, chk, expect, rc, tail in ex.map(work, jobs):
        ok = (rc == 1) if expect else (rc == 0)
        print("%s %-22s %s rc=%s %s" % ("ok  " if ok else "LOST", d, chk, rc, "" if ok else " | ".join(tail)[:200]), flush=True)
        bad += not ok
print("seeded changes: %d, unexpected outcomes: %d" % (len(jobs), bad))
