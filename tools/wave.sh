#!/bin/bash
# tools/wave.sh <wave dir> <id> : confirm both changes of one property and run the property's quick check against each (parallel)
W=$1; ID=$2
for m in m1 m2; do
  ( /verif/tools/confirm_mutant.sh $W/out-$ID/$m > $W/out-$ID/$m.confirm 2>&1; /verif/tools/try_mutant_wt.sh $W/out-$ID/$m/patch.diff $ID > $W/out-$ID/$m.check 2>&1 ) &
done; wait
for m in m1 m2; do echo "== $ID $m"; grep CONFIRM $W/out-$ID/$m.confirm; tail -4 $W/out-$ID/$m.check; done
