#!/bin/bash
# tools/try_mutant.sh <patch.diff> <check id> [tier]  : apply to /repo, run the check, always revert
set -u
P=$1; ID=$2; TIER=${3:-quick}
cd /repo || exit 3
if ! git diff --quiet; then echo "repo dirty"; exit 3; fi
git apply "$P" || { echo "patch does not apply"; exit 3; }
cd /verif && VERIF_TMP=${VERIF_TMP:-} bin/check "$ID" --tier "$TIER" > /tmp/zv/mut-$ID.log 2>&1; rc=$?
git -C /repo checkout -- .
grep -E "^(VIOLATION|BROKEN|KNOWN)" /tmp/zv/mut-$ID.log | head -5
tail -1 /tmp/zv/mut-$ID.log
echo "rc=$rc"
exit $rc
