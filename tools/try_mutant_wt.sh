#!/bin/bash
# tools/try_mutant_wt.sh <patch.diff> <check id> [tier] : run one check against a scratch worktree of /repo with the
# patch applied (own build root and evidence dir, /repo itself untouched), then remove the worktree.
set -u
P=$(readlink -f "$1"); ID=$2; TIER=${3:-quick}
W=$(mktemp -d /tmp/mwt-XXXXXX)
git -C /repo worktree add --detach -q "$W/r" HEAD || exit 3
if ! git -C "$W/r" apply "$P"; then echo "patch does not apply"; git -C /repo worktree remove --force "$W/r"; rm -rf "$W"; exit 3; fi
mkdir -p /tmp/zv
( cd /verif && VERIF_REPO="$W/r" VERIF_BUILD="$W/build" VERIF_EVID="$W/evid" timeout 3000 bin/check "$ID" --tier "$TIER" > /tmp/zv/mutwt-$ID-$$.log 2>&1 ); rc=$?
grep -E "^(VIOLATION|BROKEN|KNOWN)" /tmp/zv/mutwt-$ID-$$.log | head -4
grep -A1 -E "^VIOLATION" /tmp/zv/mutwt-$ID-$$.log | grep -v "^VIOLATION\|^--" | head -3
tail -1 /tmp/zv/mutwt-$ID-$$.log
git -C /repo worktree remove --force "$W/r"; rm -rf "$W"
echo "rc=$rc log=/tmp/zv/mutwt-$ID-$$.log"
exit $rc
