#!/bin/bash
# tools/try_wave.sh <dir with out-Cxx/m1,m2> [ids...] : run each available patch against its property's check
W=$1; shift
IDS=${@:-C01 C02 C03 C04 C05 C06 C07 C08 C09 C10 C11 C12 C13 C14 C15 C16 C17 C18 C19 C20}
for id in $IDS; do for m in m1 m2; do
  P=$W/out-$id/$m/patch.diff
  [ -f "$P" ] || continue
  if ! git -C /repo apply --check "$P" 2>/dev/null; then echo "$id $m: patch does not apply"; continue; fi
  r=$(/verif/tools/try_mutant.sh "$P" $id 2>&1 | tail -1)
  echo "$id $m: $r"
done; done
