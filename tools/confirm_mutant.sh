#!/bin/bash
# tools/confirm_mutant.sh <dir with patch.diff run.sh> : confirm in a scratch worktree that the change compiles, passes the
# repository's suite, and that the demonstration fails with it and passes without it. Prints one CONFIRM line.
set -u
D=$(readlink -f "$1")
W=$(mktemp -d /tmp/cwt-XXXXXX)
git -C /repo worktree add --detach -q "$W/r" HEAD || exit 3
cd "$W/r"
L=$W/log
( meson setup _b . >$L.setup 2>&1 && ninja -C _b >$L.ninja0 2>&1 ) || { echo "CONFIRM $D: pristine build failed"; }
timeout 900 bash "$D/run.sh" "$W/r" >$L.demo0 2>&1; d0=$?
git apply "$D/patch.diff" || { echo "CONFIRM $D: patch does not apply"; cd /; git -C /repo worktree remove --force "$W/r"; rm -rf "$W"; exit 3; }
ninja -C _b >$L.ninja1 2>&1; b1=$?
warn=$(grep -c "warning:" $L.ninja1)
meson test -C _b >$L.test1 2>&1; t1=$?
fails=$(grep -E "^Fail:" $L.test1 | awk '{print $2}')
timeout 900 bash "$D/run.sh" "$W/r" >$L.demo1 2>&1; d1=$?
echo "CONFIRM $D: demo_pristine_rc=$d0 build_rc=$b1 new_warnings=$warn suite_rc=$t1 suite_fail=$fails demo_mutated_rc=$d1 => $([ $d0 = 0 ] && [ $b1 = 0 ] && [ $t1 = 0 ] && [ $d1 != 0 ] && echo OK || echo REJECT)"
tail -3 $L.demo1 | sed 's/^/    /'
cd /; git -C /repo worktree remove --force "$W/r"; rm -rf "$W"
