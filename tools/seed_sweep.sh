#!/bin/bash
# tools/seed_sweep.sh <seed>...: every quick check on the unchanged tree under other seeds (own evidence dir); any VIOLATION or BROKEN is a defect of the machinery
for sd in "$@"; do
  for c in 01 02 03 04 05 06 07 08 09 10 11 12 13 14 15 16 17 18 19 20; do
    VERIF_SEED=$sd VERIF_EVID=/tmp/seedev-$sd timeout 3000 /verif/bin/check C$c --tier quick > /tmp/zv/seed-$sd-C$c.log 2>&1; rc=$?
    echo "seed=$sd C$c rc=$rc $(grep -c -E '^(VIOLATION|BROKEN)' /tmp/zv/seed-$sd-C$c.log) $(tail -1 /tmp/zv/seed-$sd-C$c.log | cut -c1-110)"
  done
done
