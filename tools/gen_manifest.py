#!/usr/bin/env python3
"""Regenerates MANIFEST.json from the table below (one entry per property that has a check)."""
import json, os
V = os.path.dirname(os.path.dirname(os.path.abspath(__file__)))
props = [json.loads(l) for l in open(os.path.join(V, "properties.jsonl"))]

CHECKS = {
 "C20": dict(
   category="model_checking", design_ref="DESIGN.md section 6, C20",
   technique="TLC model checking of an implementation-shaped TLA+ model against the CompInt contract + TLC trace validation of guard-page replays of the real codec",
   text="TLC exhausts CompIntImpl (the decoder loop transcribed with its cursor, count and limit; values as base-128 digit vectors) over all buffers of <= 4 bytes from 10 byte classes, every offset/limit and both destination types, checking NoReadPastLimit, ExactOrReject, CursorRule and termination against the CompInt contract. The same contract then judges the real code: every string of the enumerated family (all 1-byte strings, class-alphabet strings of length 2-3, lengths 4..11 with every class in the last three positions, each at several offset/limit pairs, flush against a PROT_NONE page) is decoded by the real compint_to_size/compint_to_int, and every value of the encode family is encoded and decoded back; the recorded ndjson trace is accepted only if TLC can replay it through Trace_CompInt.",
   note="Trusted: TLC, the CompInt contract text, the guard page (a read past the limit faults), the driver's conversion of 64-bit values to base-128 digits. Not decided: strings outside the enumerated family (length-3 strings outside the class alphabet in quick tier)."),
 "C07": dict(
   category="model_checking", design_ref="DESIGN.md section 6, C07",
   technique="TLC-generated histories of the Pin contract replayed on the real library + TLC trace validation",
   text="TLC enumerates every history of the Pin contract (up to three option calls in any order with every combination of matching/non-matching type, digest-string facts and length, followed by lead-only validation, lead read and header read) and checks AcceptedImpliesEqual on it; each history is concretised on files of all four overall checksum types (plus a file whose header body no longer matches its checksum) and executed through the public API, together with the sweep of all 256 byte values at four position classes of the digest string. The recorded trace, with the digest-string facts (exact length, hex-only, equal by value) computed independently, is accepted only if TLC can replay it through Trace_Pin: accept iff equal, digest-string rule, validate_lead consumes nothing.",
   note="Trusted: TLC, Pin.tla, the reference writer/parser (verif/ref.py) that produces the files and their stored values. Not decided: option sequences longer than three calls before the lead is read."),
 "C10": dict(
   category="model_checking", design_ref="DESIGN.md section 6, C10",
   technique="TLC model checking of range.c transcribed into TLA+ against the Range contract + TLC trace validation of real zck_get_missing_range/zck_get_range_char results",
   text="TLC exhausts RangeImpl (range_add with its three cases, range_merge_combined, the limit test, the range index, and the renderer with a tiny buffer, x1.5 growth and snprintf truncation) on every table of up to 5 chunks with sizes {0,1,2}, every validity vector, limits {-1,0,1,2,3} and every item-length vector, against the Range contract (ascending non-adjacent ranges, union exactly a prefix of the missing chunks, count bound, range index, string = list). The contract then judges the real code: real files get validity vectors poked in (all vectors of small files; a 6000-chunk table with patterns chosen so that items end exactly at the 32768/49152-byte buffer capacities), and every (ranges, count, range index, rendered string parsed back) is validated by TLC through Trace_Range. One open finding (zero-length missing chunk -> inverted range) is a named deviation whose prediction is the transcription of the pinned code.",
   note="Trusted: TLC, Range.tla, the reference parser for chunk tables, a strict Python parser of the rendered string, the witness (containing range per chunk) being checked not trusted. Not decided: tables beyond ~6000 chunks; limits other than the listed ones."),
 "C06": dict(
   category="model_checking", design_ref="DESIGN.md section 6, C06",
   technique="TLC check of the checksum-coverage arithmetic + exhaustive byte substitution on the real open paths, judged by TLC trace validation with the reference codec's sealed fact",
   text="TLC checks on HeaderCover that the bytes fed to the header checksum plus the stored digest field are exactly all header bytes for every integer width and digest size. Then for 12 sample files (all overall/chunk hash types, dictionary, uncompressed-source flag, optional elements, a detached header, headers whose stored checksum begins with 0x00) EVERY header position x all 255 other byte values is opened by the real library, both through zck_init_read and through the pinned path (type and stored checksum pinned, read_lead + read_header), plus insertions/deletions with the length field adjusted and the identifier toggle; Trace_Header accepts the recorded verdicts only if every accepted mutation leaves the header sealed according to the independent reference codec.",
   note="Trusted: TLC, Header.tla, hashlib, the reference parser. Assumes no second preimage. Exhaustive over positions and values of the sample files, not over all files."),
 "C13": dict(
   category="model_checking", design_ref="DESIGN.md section 6, C13",
   technique="reference-writer header family opened and dumped by the real library and zck_read_header; TLC trace validation against the Header contract (Open/Dump)",
   text="The reference writer emits the bounded family of headers: all overall/chunk hash types x flags x optional elements x 1..4 entries, detached headers, stored/uncompressed sizes at 2^7k, 2^31, 2^32, 2^63, 2^64-1, pairs whose running sum approaches or exceeds 2^63/2^64, count mismatches and empty indexes, over-long / non-canonical / overflowing / unterminated encodings in every integer field, out-of-range values of the int-typed fields, length fields pointing at and over the end, optional-element counts and sizes against the end. Each is opened by the real library; every getter and a chunk iteration are dumped, and zck_read_header -c is run on the accepted ones. TLC accepts the trace through Trace_Header only if an opened header is well-formed, sealed, supported and representable (Open) and every reported value - flags, types, lengths, digests, count, per-chunk number/digests/sizes/start - equals the reference parse as decimal strings (Dump); a negative return of a signed getter counts as an error indication.",
   note="Trusted: TLC, Header.tla, the reference parser/writer (verif/ref.py), the text scraping of zck_read_header output. Bounded family, not all headers."),
 "C03": dict(
   category="model_checking", design_ref="DESIGN.md section 6, C03 and section 9",
   technique="TLC trace validation (Header contract: no action for Crash/Hang/sanitizer report, parsed cursors inside the buffer) of API-call histories and tool runs on sealed adversarial inputs under ASan/UBSan",
   text="Inputs: the reference writer's header family (every field at its boundary values, every length field pointing at/over the end, re-sealed so that parsing proceeds past the checksum gate) with no body, a zero body and a random body; valid files of every flavour with structure-aware re-sealed mutations (sizes, digests, flags, compression type, count, chunk swaps, body damage, detached forms), raw mutations, special files (dictionary with the zstd dictionary magic) and degenerate inputs. Each is offered, under ASan+UBSan with a watchdog, to a history of about 40 public calls (open, dump, reads, the three validators, chunk data/stored data, missing range + rendering, copy as source and as target, a download callback) in fixed and shuffled order, and to unzck, zck_read_header, zck_gen_zdict and zck_delta_size. The recorded trace is accepted by TLC only if every call returned: Trace_Header has no action for Crash, Hang or a sanitizer report, and requires lead+preface+index+signature sizes of an opened header to lie inside the header buffer. A rejection is re-run alone with a 90 s budget before it is reported.",
   note="Memory errors as such are observed by ASan/UBSan/signals, not by the specification (DESIGN.md section 9); the TLA+ contract decides 'every call returns' and the cursor discipline. Allocation-failure paths and inputs far from the family are not explored."),
 "C02": dict(
   category="model_checking", design_ref="DESIGN.md section 6, C02",
   technique="TLC trace validation of read-to-end executions on mutated files against the Reader contract (facts from the independent reference decoder)",
   text="Valid files of every flavour (none/zstd, dictionary, all hash types, uncompressed-source flag, multi-block chunks, special frames) are mutated raw (bit flips, substitutions, insertions, deletions, truncations, body-targeted damage) and structure-aware with the header re-sealed (sizes, digests, flags, compression type, count, chunk swaps with and without index/whole-data checksum updates, either identifier, detached forms); each mutant is read to the end with a seeded buffer-size sequence (1 byte to 1 MiB) through the library and through unzck. The independent reference decoder supplies the facts (valid, reference content, per-read 'equals the reference interval'); TLC accepts a trace through Trace_Reader only if 'open, all reads to end of stream and close succeeded' implies 'file valid and exactly its content delivered' (RClose / RToolExit).",
   note="Trusted: TLC, Reader.tla, the reference decoder (verif/ref.py, hashlib, libzstd). Digests treated as collision free. A stricter reference can never raise an alarm by itself because only the implication is demanded. Mutation space is sampled in quick tier; thorough adds every single-bit flip of every body byte and every truncation length of two files."),
 "C14": dict(
   category="model_checking", design_ref="DESIGN.md section 6, C14",
   technique="exhaustive request sequences replayed on the real library; TLC trace validation against the Reader contract (RGetChunk)",
   text="On valid files (zstd and uncompressed, with and without dictionary, an incompressible file whose stored size exceeds the data size, a file with multi-block chunks) every sequence of data / stored-data requests over all chunks including the dictionary up to length 2 (quick: plus 120 sampled of length 3 per file; thorough: all of length 3) and seeded sequences of 8-40 requests is executed; TLC accepts the trace only if every request returned the chunk's declared size and exactly its slice of the writer's input (resp. its stored bytes), independent of the history.",
   note="Trusted: TLC, Reader.tla, the reference writer. Partial-size requests are not judged."),
 "C15": dict(
   category="model_checking", design_ref="DESIGN.md section 6, C15",
   technique="bit-flip enumeration over zstd chunk bodies + damage-after-validation histories; TLC trace validation against the Reader contract (RRead: verified before released)",
   text="For four small zstd files (with/without dictionary, with/without the uncompressed-source flag) single-bit flips of body bytes (thorough: every bit of every body byte; those that still decompress are counted) are read with buffer sizes 1, 7, chunk/2, chunk-1, chunk, chunk+1 and 100000, the bad chunk being first, middle or last; plus histories in which the intact file is validated or read first and then damaged through another descriptor. Returned bytes are attributed to chunks through the index; TLC accepts a trace only if no successful read returns a byte of a chunk whose stored bytes do not match its index checksum, in that read or any later one.",
   note="Trusted: TLC, Reader.tla, hashlib verdicts per chunk, attribution of stream offsets to chunks by the declared sizes."),
 "C09": dict(
   category="model_checking", design_ref="DESIGN.md section 6, C09",
   technique="enumerated on-disk states x validation-call orders on the real library; TLC trace validation against the Reader contract (RScan, RValidateData, RUnmodified, baseline equality)",
   text="Targets derived from valid files (none/zstd, dictionary, uncompressed-source flag, chunks of repeated 32 KiB blocks and multi-block chunks): every combination of per-chunk region states (correct, zeroed, garbage, one bit flipped) for small files, every chunk-boundary / interior / block-edge truncation (thorough: every length), over-long files, a re-sealed wrong whole-data checksum with all chunks right, detached headers with good and damaged dictionary. On each, validate-all / validate-data / find-valid are called in 12 orders (including after a read to the end on the same context), followed by a read to the end. TLC accepts the trace only if every chunk is marked valid exactly when the reference codec's digest of the bytes present matches (only the dictionary for a detached header; all failed when only the whole-data checksum is wrong), the overall verdicts are exact, the file's SHA-256 is unchanged, and the read outcome (bytes delivered, match, verdict) equals that of an execution without validations.",
   note="Trusted: TLC, Reader.tla, hashlib digests over the bytes present. Obligations on a call are waived (except 'no false success') when the context was already in an error state from an earlier failed call."),
}

def entry(pid, c):
    return {"property_id": pid,
            "quick_cmd": "bin/check %s --tier quick" % pid,
            "thorough_cmd": "bin/check %s --tier thorough" % pid,
            "evidence_file": "/verif/evidence/%s.json" % pid,
            "replay_cmd_template": "bin/check %s --replay {path}" % pid,
            "engine": "tlc",
            "level_claimed": {"category": c["category"], "text": c["text"], "design_ref": c["design_ref"]},
            "level_note": c["note"], "technique": c["technique"]}

m = {"version": 1,
     "setup_cmd": "make -s -j16 -C /verif/harness VARIANT=plain && make -s -j16 -C /verif/harness VARIANT=asan",
     "hooks": {"guard": "ZCK_VERIF",
               "enable": "no source hooks exist: the harness compiles /repo's working-tree sources itself (harness/Makefile, -DZCK_VERIF is passed but nothing in /repo tests it) and observes through the public API, zck_private.h, a link-time --wrap I/O shim and guard pages",
               "baseline_off_cmd": "meson test -C /repo/_build",
               "source_commits": [], "add_only": True},
     "engines": [{"name": "tlc", "path": "/verif/spec", "serves_properties": sorted(CHECKS),
                  "kind_free_text": "TLA+ specifications (contracts, implementation-shaped models, trace specifications) checked with TLC 1.8; traces come from harness/zckdrive (real library code) with facts added by the independent reference codec verif/ref.py"}],
     "checks": [entry(p["id"], CHECKS[p["id"]]) for p in props if p["id"] in CHECKS],
     "not_applicable": [{"property_id": p["id"], "reason": "check not built yet (work in progress; DESIGN.md section 6 describes the planned TLA+ model and binding)"} for p in props if p["id"] not in CHECKS],
     "notes": "Exit codes of bin/check: 0 held, 1 VIOLATION line printed, 2 BROKEN (machinery failure). Known findings live in /verif/known_findings.json."}
json.dump(m, open(os.path.join(V, "MANIFEST.json"), "w"), indent=1)
print("checks:", len(m["checks"]), "n/a:", len(m["not_applicable"]))
