#!/usr/bin/env python3
"""tools/keep_mutant.py <agent out dir> <seeded name> <check id> <result text> [adapted patch]"""
import sys, os, json, shutil
src, name, check, result = sys.argv[1:5]
adapted = sys.argv[5] if len(sys.argv) > 5 else None
d = os.path.join("/verif/seeded", name)
os.makedirs(d, exist_ok=True)
for f in os.listdir(src):
    if os.path.isfile(os.path.join(src, f)):
        shutil.copy(os.path.join(src, f), os.path.join(d, f))
m = json.load(open(os.path.join(d, "meta.json")))
if adapted:
    shutil.move(os.path.join(d, "patch.diff"), os.path.join(d, "patch.orig-pre-fix.diff"))
    shutil.copy(adapted, os.path.join(d, "patch.diff"))
    m["adapted"] = "patch.orig-pre-fix.diff was written against the pinned commit; patch.diff re-expresses the same slip on the tree after the fix: commits"
m.setdefault("detected_by", [])
if isinstance(m["detected_by"], dict):
    m["detected_by"] = [m["detected_by"]]
m["detected_by"].append({"check": check, "result": result, "how": "tools/try_mutant.sh seeded/%s/patch.diff %s" % (name, check)})
json.dump(m, open(os.path.join(d, "meta.json"), "w"), indent=1)
print("kept", d)
