#!/bin/bash
# tools/benign_run.sh <patch.diff> <label> [ids...]: run the given quick checks (default all) against a scratch worktree with a
# behaviour-preserving patch applied; prints one line per check.  Any VIOLATION here is a false alarm.
P=$(readlink -f "$1"); L=$2; shift 2
IDS=${@:-C01 C02 C03 C04 C05 C06 C07 C08 C09 C10 C11 C12 C13 C14 C15 C16 C17 C18 C19 C20}
W=$(mktemp -d /tmp/bwt-XXXXXX)
git -C /repo worktree add --detach -q "$W/r" HEAD || exit 3
if ! git -C "$W/r" apply "$P"; then echo "$L: patch does not apply"; git -C /repo worktree remove --force "$W/r"; rm -rf "$W"; exit 3; fi
mkdir -p /tmp/zv/ben
for id in $IDS; do
  ( cd /verif && VERIF_REPO="$W/r" VERIF_BUILD="$W/build" VERIF_EVID="$W/evid" timeout 3000 bin/check $id --tier quick > /tmp/zv/ben/$L-$id.log 2>&1 ); rc=$?
  echo "$L $id rc=$rc $(grep -c '^VIOLATION' /tmp/zv/ben/$L-$id.log) $(tail -1 /tmp/zv/ben/$L-$id.log | cut -c1-120)"
done
git -C /repo worktree remove --force "$W/r"; rm -rf "$W"
