#!/bin/bash
# tools/coverage.sh [tier] [ids...] : run the checks against a gcc --coverage build of /repo's sources
# (separate build root .build-cov) and report which lines/branches of the repository no check reaches.
# A blind spot of the checks is a place where a property-breaking change would go unnoticed.
TIER=${1:-quick}; shift
IDS=${@:-C01 C02 C03 C04 C05 C06 C07 C08 C09 C10 C11 C12 C13 C14 C15 C16 C17 C18 C19 C20}
cd /verif || exit 2
rm -rf .build-cov; mkdir -p /tmp/zv
for id in $IDS; do
  VERIF_COV=1 timeout 3000 bin/check $id --tier $TIER > /tmp/zv/cov-$id.log 2>&1
  echo "$id rc=$? $(tail -1 /tmp/zv/cov-$id.log)"
done
python3 tools/covreport.py > /tmp/zv/coverage.txt
head -40 /tmp/zv/coverage.txt
