#!/usr/bin/env python3
"""Merge gcov data of all variants under .build-cov and list unreached lines per source file."""
import os, subprocess, json, gzip, collections, sys
ROOT = "/verif/.build-cov"
hits = collections.defaultdict(lambda: collections.defaultdict(int))   # file -> line -> count
br = collections.defaultdict(lambda: collections.defaultdict(list))
for variant in sorted(os.listdir(ROOT)):
    od = os.path.join(ROOT, variant, "obj")
    for dp, dn, fn in os.walk(od):
        for f in fn:
            if not f.endswith(".gcno"): continue
            p = subprocess.run(["gcov", "-b", "--json-format", "--stdout", os.path.join(dp, f)], stdout=subprocess.PIPE, stderr=subprocess.DEVNULL, cwd=dp)
            try: d = json.loads(p.stdout)
            except ValueError: continue
            for fi in d.get("files", []):
                name = fi["file"]
                if not name.startswith("/repo/src"): continue
                for ln in fi["lines"]:
                    hits[name][ln["line_number"]] += ln["count"]
                    if ln.get("branches"):
                        cur = br[name][ln["line_number"]]
                        bl = [b["count"] for b in ln["branches"]]
                        if len(cur) != len(bl): br[name][ln["line_number"]] = bl if not cur else cur
                        else: br[name][ln["line_number"]] = [a + b for a, b in zip(cur, bl)]
tot = cov = 0
rows = []
for name in sorted(hits):
    ls = hits[name]; t = len(ls); c = sum(1 for v in ls.values() if v)
    tot += t; cov += c
    rows.append((name, c, t))
print("TOTAL lines %d/%d = %.1f%%" % (cov, tot, 100.0 * cov / max(1, tot)))
for name, c, t in rows:
    print("%-50s %4d/%4d %.0f%%" % (name.replace("/repo/", ""), c, t, 100.0 * c / max(1, t)))
print()
for name in sorted(hits):
    src = open(name, errors="replace").read().splitlines()
    miss = sorted(l for l, v in hits[name].items() if not v)
    if miss:
        print("== %s: unreached lines" % name.replace("/repo/", ""))
        for l in miss:
            print("  %5d: %s" % (l, src[l - 1].rstrip()[:140] if l <= len(src) else ""))
    pb = sorted(l for l, b in br[name].items() if hits[name].get(l) and any(x == 0 for x in b))
    if pb:
        print("== %s: lines with a branch direction never taken" % name.replace("/repo/", ""))
        for l in pb:
            print("  %5d [%s]: %s" % (l, ",".join("0" if x == 0 else "+" for x in br[name][l]), src[l - 1].strip()[:120] if l <= len(src) else ""))
