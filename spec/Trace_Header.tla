---------------------------- MODULE Trace_Header ----------------------------
(* Trace validation against the Header contract (C03, C06, C13).              *)
EXTENDS Header, TLC, Json, IOUtils

TraceLog == ndJsonDeserialize(IOEnv.TRACE)
VARIABLE l
tvars == <<hvars, l>>
E == TraceLog[l]
IsEvent(op) == l <= Len(TraceLog) /\ TraceLog[l].op = op /\ l' = l + 1

TReset  == IsEvent("reset") /\ phase' = "closed" /\ facts' = NoFacts
TOpen   == IsEvent("open") /\ (IF E.plain THEN OpenPlain(E.f, E.ret) ELSE Open(E.f, E.ret))
                           /\ (E.ret = 1 => Cursors(E.cur))
TDump   == IsEvent("dump") /\ Dump(E.rep, E.par)
TSubst  == IsEvent("hdrmut") /\ Substitution(E.accepted, E.sealedVals) /\ UNCHANGED hvars
\* any other call on the context: it returned (C03) - nothing more is demanded here
TCall   == IsEvent("call") /\ UNCHANGED hvars
\* the two identifiers are interchangeable (C06): a sealed header opens under either
TToggle == IsEvent("toggle") /\ (E.f.ok /\ E.f.sealed /\ E.f.supported /\ E.f.fits => E.ret = 1) /\ UNCHANGED hvars

Init == HInit /\ l = 1
Next == TReset \/ TOpen \/ TDump \/ TSubst \/ TCall \/ TToggle
Spec == Init /\ [][Next]_tvars

Accepted == /\ PrintT(<<"MATCHED", TLCGet("stats").diameter - 1, Len(TraceLog)>>)
            /\ TLCGet("stats").diameter - 1 = Len(TraceLog)
=============================================================================
