SPECIFICATION Spec
INVARIANT AcceptedImpliesEqual
POSTCONDITION Accepted
CHECK_DEADLOCK FALSE
