SPECIFICATION Spec
CONSTANT Known = {}
POSTCONDITION Accepted
CHECK_DEADLOCK FALSE
