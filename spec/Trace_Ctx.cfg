SPECIFICATION Spec
CONSTANT Strict = FALSE
POSTCONDITION Accepted
CHECK_DEADLOCK FALSE
