SPECIFICATION TSpec
CONSTANTS
 NT = 3
 NS = 2
 MaxLen = 3
 B = 2
 MaxBad = 9
 ShortReads = FALSE
 Variant = "code"
INVARIANTS ValidImpliesDisk Confinement FailedIsZero MustReuse Conforms Promised
CHECK_DEADLOCK FALSE
