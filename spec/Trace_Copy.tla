----------------------------- MODULE Trace_Copy -----------------------------
(* Conformance of the real zck_copy_chunks with CopyImpl (C08).  Every line  *)
(* of the ndjson file is one execution of the real call on files built for    *)
(* one member of CopyImpl's family (one cell = 16 KiB), with what it left     *)
(* behind: the validity vector, per target chunk whether its extent now holds *)
(* the wanted bytes / zeros / something else, and whether the bytes outside   *)
(* the extents of the chunks being filled are unchanged.  TLC runs the model  *)
(* from exactly those initial states; CopyImpl's invariants are checked on    *)
(* the same run.                                                              *)
EXTENDS CopyImpl, Json, IOUtils
Cases == ndJsonDeserialize(IOEnv.TRACE)
VARIABLE c
tvars == <<vars, c>>
TInit == /\ c \in 1..Len(Cases)
         /\ tlens = Cases[c].tlens /\ sid = Cases[c].sid /\ slens = Cases[c].slens
         /\ sdisk = Cases[c].sdisk /\ vinit = Cases[c].vinit
         /\ Run0
TNext == Next /\ UNCHANGED c
TSpec == TInit /\ [][TNext]_tvars
Class(i) == IF OnDiskGood(i) THEN "good" ELSE IF OnDiskZero(i) THEN "zero" ELSE "other"
Outside == \A p \in DOMAIN tdisk : (\A i \in attempted : ~(TStart(i) < p /\ p <= TStart(i) + tlens[i])) => tdisk[p] = InitDisk[p]
Match == LET o == Cases[c] IN
         /\ Len(o.vec) = NT /\ \A i \in 1..NT : o.vec[i] = valid[i]
         /\ \A i \in 1..NT : tlens[i] > 0 => o.cls[i] = Class(i)
         /\ o.outside = Outside
Conforms == pc = "done" => (Match \/ PrintT(<<"MISMATCH", c>>))
\* What C08 promises, evaluated on the OBSERVED outcome alone: a real copy that differs from the model (say, one that tries a
\* second source entry with the same checksum) is specification drift, a violation only if one of these sentences fails
ObservedOk == LET o == Cases[c] IN
    /\ \A i \in 1..NT : (o.vec[i] = 1 /\ tlens[i] > 0) => o.cls[i] = "good"              \* valid only if the bytes now there hash to the checksum
    /\ \A i \in 1..NT : (o.vec[i] = 0 - 1 /\ tlens[i] > 0) => o.cls[i] = "zero"          \* failed: zero-filled
    /\ \A i \in 1..NT : vinit[i] = 1 => o.vec[i] = 1                                      \* what was valid stays
    /\ \A i \in 1..NT : (vinit[i] = 0 /\ o.vec[i] = 1) => Lookup(i) # 0                   \* used only when the source declares that checksum
    /\ \A i \in 1..NT : (vinit[i] = 0 /\ SourceHas(i)) => o.vec[i] = 1                    \* a chunk the source really holds is reused
    /\ o.outside                                                                          \* nothing outside the extents being filled changed
Promised == pc = "done" => (ObservedOk \/ PrintT(<<"PROPVIOL", c>>))
=============================================================================
