----------------------------- MODULE Trace_Copy -----------------------------
(* Conformance of the real zck_copy_chunks with CopyImpl (C08).  Every line  *)
(* of the ndjson file is one execution of the real call on files built for    *)
(* one member of CopyImpl's family (one cell = 16 KiB), with what it left     *)
(* behind: the validity vector, per target chunk whether its extent now holds *)
(* the wanted bytes / zeros / something else, and whether the bytes outside   *)
(* the extents of the chunks being filled are unchanged.  TLC runs the model  *)
(* from exactly those initial states; CopyImpl's invariants are checked on    *)
(* the same run.                                                              *)
EXTENDS CopyImpl, Json, IOUtils
Cases == ndJsonDeserialize(IOEnv.TRACE)
VARIABLE c
tvars == <<vars, c>>
TInit == /\ c \in 1..Len(Cases)
         /\ tlens = Cases[c].tlens /\ sid = Cases[c].sid /\ slens = Cases[c].slens
         /\ sdisk = Cases[c].sdisk /\ vinit = Cases[c].vinit
         /\ Run0
TNext == Next /\ UNCHANGED c
TSpec == TInit /\ [][TNext]_tvars
Class(i) == IF OnDiskGood(i) THEN "good" ELSE IF OnDiskZero(i) THEN "zero" ELSE "other"
Outside == \A p \in DOMAIN tdisk : (\A i \in attempted : ~(TStart(i) < p /\ p <= TStart(i) + tlens[i])) => tdisk[p] = InitDisk[p]
Match == LET o == Cases[c] IN
         /\ Len(o.vec) = NT /\ \A i \in 1..NT : o.vec[i] = valid[i]
         /\ \A i \in 1..NT : tlens[i] > 0 => o.cls[i] = Class(i)
         /\ o.outside = Outside
Conforms == pc = "done" => (Match \/ PrintT(<<"MISMATCH", c>>))
=============================================================================
