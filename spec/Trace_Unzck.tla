---------------------------- MODULE Trace_Unzck ----------------------------
(* Conformance of the real unzck with UnzckTool: every line of the ndjson     *)
(* file is one run of the real tool in a directory prepared as one initial    *)
(* state of the model, with the exit status and the directory afterwards      *)
(* (every name classified as the model classifies contents).  TLC runs the    *)
(* model from those states and prints a MISMATCH line where they differ.      *)
EXTENDS UnzckTool, Json, IOUtils
Cases == ndJsonDeserialize(IOEnv.TRACE)
VARIABLE c
tvars == <<vars, c>>
TInit == /\ c \in 1..Len(Cases)
         /\ input = Cases[c].input /\ mode = Cases[c].mode /\ what = Cases[c].what
         /\ fs = [n \in Names |-> Cases[c].before[n]]
         /\ pc = "open" /\ outName = "" /\ created = FALSE /\ exit = "running" /\ fs0 = fs
TNext == Next /\ UNCHANGED c
TSpec == TInit /\ [][TNext]_tvars
Match == /\ Cases[c].exit = exit
         /\ \A n \in Names : Cases[c].after[n] = fs[n]
Conforms == pc = "done" => (Match \/ PrintT(<<"MISMATCH", c>>))
=============================================================================
