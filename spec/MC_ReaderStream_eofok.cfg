SPECIFICATION Spec
CONSTANTS
  N = 3
  Size = 3
  MaxRead = 4
  Unit = FALSE
  Variant = "eofok"
  MaxCalls = 4
  AllocFail = FALSE
  Trunc = {9, 7, 4}
INVARIANTS NoReleaseBeforeVerify HistoryIndependence SequentialPrefix NoSilentTruncation
PROPERTY EveryCallReturns
CHECK_DEADLOCK FALSE
