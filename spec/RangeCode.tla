----------------------------- MODULE RangeCode -----------------------------
(* The algorithm of src/lib/dl/range.c as pure operators (no constants), so   *)
(* that both the exploration model RangeImpl and the trace specification      *)
(* (for the named deviation) can use the very same transcription.             *)
EXTENDS Naturals, Sequences, SequencesExt, FiniteSets
RC == INSTANCE Range

\* ---- range_merge_combined
RECURSIVE Merge(_, _, _)
Merge(items, count, p) ==
    IF p > Len(items) THEN [items |-> items, count |-> count]
    ELSE IF p < Len(items) /\ items[p].e + 1 >= items[p + 1].s
         THEN LET ne == IF items[p].e < items[p + 1].e THEN items[p + 1].e ELSE items[p].e
                  it2 == [j \in 1..(Len(items) - 1) |->
                            IF j < p THEN items[j] ELSE IF j = p THEN [s |-> items[p].s, e |-> ne] ELSE items[j + 1]]
              IN Merge(it2, count - 1, p)
         ELSE Merge(items, count, p + 1)

\* ---- range_add (start/end already include the header length)
RangeAdd(info, s, e) ==
    LET items == info.items
        ge == { p \in 1..Len(items) : items[p].s >= s }
        pos == IF ge = {} THEN 0 ELSE CHOOSE p \in ge : \A q \in ge : p <= q
        ins == IF pos = 0 THEN Append(items, [s |-> s, e |-> e])
               ELSE IF s < items[pos].s THEN InsertAt(items, pos, [s |-> s, e |-> e])
               ELSE [items EXCEPT ![pos].e = IF e > items[pos].e THEN e ELSE items[pos].e]
        mg == Merge(ins, info.count + 1, 1)
    IN [items |-> mg.items, count |-> mg.count,
        indexed |-> ~(pos # 0 /\ s = items[pos].s)]   \* only range_insert_new adds the range-index entry

\* ---- zck_get_missing_range: T table, vv validity, lim limit
RECURSIVE Scan(_, _, _, _, _, _)
Scan(T, vv, lim, i, acc, Hdr) ==
    IF i > Len(T) THEN acc
    ELSE IF vv[i] # 0 THEN Scan(T, vv, lim, i + 1, acc, Hdr)
    ELSE LET s == Hdr + T[i].start
             a == RangeAdd([items |-> acc.items, count |-> acc.count], s, s + T[i].clen - 1)
             acc2 == [items |-> a.items, count |-> a.count,
                      X |-> IF a.indexed
                            THEN Append(acc.X, [src |-> i - 1, clen |-> T[i].clen,
                                                start |-> RC!SumSeq([j \in 1..Len(acc.X) |-> acc.X[j].clen])])
                            ELSE acc.X]
         IN IF lim >= 0 /\ acc2.count >= lim THEN acc2 ELSE Scan(T, vv, lim, i + 1, acc2, Hdr)

Witness(T, X, R, Hdr) == [j \in 1..Len(X) |->
      LET c == X[j].src + 1
          cand == { r \in 1..Len(R) : R[r].s <= Hdr + T[c].start /\ Hdr + T[c].start + T[c].clen - 1 <= R[r].e } IN
      IF T[c].clen = 0 \/ cand = {} THEN 0 ELSE CHOOSE r \in cand : TRUE]


MissingRange(T, vv, lim, Hdr) == Scan(T, vv, lim, 1, [items |-> <<>>, count |-> 0, X |-> <<>>], Hdr)
=============================================================================
