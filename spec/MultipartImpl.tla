---------------------------- MODULE MultipartImpl ----------------------------
(* Implementation-shaped model of src/lib/dl/multipart.c:multipart_extract    *)
(* (carry-over buffer, header_start, the scan for the blank line that needs   *)
(* one byte beyond it, the part-header pattern, mp.state / mp.length) feeding *)
(* src/lib/dl/dl.c:dl_write_range (range index, dl_chunk_data,                *)
(* write_in_chunk, tgt_check, verification at chunk end, zero-fill).          *)
(*                                                                            *)
(* The response body is a sequence of cells:                                  *)
(*   <<"r">> <<"n">>  CR LF      <<"D">> a dash      <<"B">> the boundary     *)
(*   <<"h">> other part-header text    <<"L", k>> a content-range line that   *)
(*   announces k payload cells        <<"E">> the closing "--"                *)
(*   <<"p", c, i, ok>> payload cell i of chunk c (ok = FALSE: corrupted)      *)
(* The transport delivers it in fragments of ANY sizes (every partition is    *)
(* explored).  C05: the final target state does not depend on the partition;  *)
(* good payload => placed and valid; bad payload => zero-filled, failed and   *)
(* an error returned; nothing else is touched.                                *)
EXTENDS Naturals, Sequences, SequencesExt, FiniteSets, TLC
CONSTANTS Resp,          \* the response body (sequence of cells)
          Req,           \* requested chunks in order: sequence of [c |-> chunk, len |-> cells]
          Variant

VARIABLES pos,                          \* cells delivered so far
          mbuf, mstate, mlen,           \* mp.buffer, mp.state, mp.length
          dlData, wic, tgt, cur,        \* dl_chunk_data, write_in_chunk, tgt_check (0 = none), range index cursor
          acc,                          \* cells written into the chunk being filled
          disk, valid, err, touchedOutside
vars == <<pos, mbuf, mstate, mlen, dlData, wic, tgt, cur, acc, disk, valid, err, touchedOutside>>

Chunks == { Req[k].c : k \in 1..Len(Req) }
ReqStart(k) == LET F[j \in 0..Len(Req)] == IF j = 0 THEN 0 ELSE F[j - 1] + Req[j].len IN F[k - 1]

Init == /\ pos = 0 /\ mbuf = <<>> /\ mstate = 0 /\ mlen = 0
        /\ dlData = 0 /\ wic = 0 /\ tgt = 0 /\ cur = 1 /\ acc = <<>>
        /\ disk = [c \in Chunks |-> "old"] /\ valid = [c \in Chunks |-> 0] /\ err = FALSE /\ touchedOutside = FALSE

IsP(x) == x[1] = "p"
\* ---- dl_write_range on a run of payload cells; returns the new dl state (record) ; fails (ok = FALSE) when a
\* finished chunk does not verify
RECURSIVE WriteRange(_, _)
WriteRange(st, cells) ==
    IF ~st.ok THEN st
    ELSE LET take == IF st.wic < Len(cells) THEN st.wic ELSE Len(cells)
             s1 == [st EXCEPT !.acc = st.acc \o SubSeq(cells, 1, take), !.wic = st.wic - take, !.dlData = st.dlData + take]
             rest == SubSeq(cells, take + 1, Len(cells))
         IN IF s1.wic > 0 THEN s1                                    \* chunk not finished yet
            ELSE \* wic = 0: verify a finished chunk, then look for the chunk that starts at dlData
              LET s2 == IF s1.tgt = 0 THEN s1
                        ELSE IF \A i \in 1..Len(s1.acc) : s1.acc[i][4] /\ s1.acc[i][2] = s1.tgt /\ s1.acc[i][3] = i
                             THEN [s1 EXCEPT !.disk[s1.tgt] = "good", !.valid[s1.tgt] = 1, !.tgt = 0, !.acc = <<>>]
                             ELSE [s1 EXCEPT !.disk[s1.tgt] = "zero", !.valid[s1.tgt] = 0 - 1, !.ok = FALSE, !.acc = <<>>]
                  nxt == { k \in s2.cur..Len(Req) : ReqStart(k) = s2.dlData /\ s2.valid[Req[k].c] # 1 }
              IN IF ~s2.ok THEN s2
                 ELSE IF nxt = {} THEN (IF rest = <<>> THEN s2 ELSE [s2 EXCEPT !.ok = FALSE])   \* data with nowhere to go: returns 0
                 ELSE LET k == CHOOSE k \in nxt : \A j \in nxt : k <= j
                          s3 == [s2 EXCEPT !.tgt = Req[k].c, !.wic = Req[k].len, !.cur = k + 1]
                      IN IF rest = <<>> THEN s3 ELSE WriteRange(s3, rest)

\* ---- the part-header pattern on the text between header_start and the blank line
\* "\r?\n?--B\r\n.*content-range ... s-e": dashes, boundary, CRLF, then an L cell somewhere later
MatchPart(txt) == \E a \in 1..Len(txt) : a + 4 <= Len(txt) /\ txt[a] = <<"D">> /\ txt[a + 1] = <<"D">> /\ txt[a + 2] = <<"B">>
                                         /\ txt[a + 3] = <<"r">> /\ txt[a + 4] = <<"n">>
                                         /\ \E b \in (a + 5)..Len(txt) : txt[b][1] = "L"
LenOf(txt) == LET b == CHOOSE b \in 1..Len(txt) : txt[b][1] = "L" IN txt[b][2]

\* ---- multipart_extract on one fragment
RECURSIVE Extract(_, _, _, _, _)
\* buf = carried-over bytes ++ fragment, i = scan position (0-based), hs = header_start, ms = [state, len], dl = dl state
Extract(buf, i, hs, ms, dl) ==
    IF ~dl.ok THEN [mbuf |-> <<>>, ms |-> ms, dl |-> dl]
    ELSE IF ms.state = 1
    THEN IF i >= Len(buf) THEN [mbuf |-> <<>>, ms |-> ms, dl |-> dl]
         ELSE LET avail == Len(buf) - i
                  size == IF ms.len <= avail THEN ms.len ELSE avail
                  ms2 == IF ms.len <= avail THEN [state |-> 0, len |-> 0] ELSE [state |-> 1, len |-> ms.len - size]
                  hs2 == IF ms.len <= avail /\ Variant # "stale_header_start" THEN i + size ELSE hs    \* (the seeded slip C05-m1 as a variant)
                  dl2 == WriteRange(dl, SubSeq(buf, i + 1, i + size))
              IN Extract(buf, i + size, hs2, ms2, dl2)
    ELSE IF i >= Len(buf)
    THEN [mbuf |-> SubSeq(buf, hs + 1, Len(buf)), ms |-> ms, dl |-> dl]                 \* save the unparsed tail
    ELSE \* look for CR LF CR LF with at least one byte after it (j + 4 >= end gives up)
         LET cand == { j \in i..(Len(buf) - 5) : buf[j + 1] = <<"r">> /\ buf[j + 2] = <<"n">> /\ buf[j + 3] = <<"r">> /\ buf[j + 4] = <<"n">> }
         IN IF cand = {} THEN [mbuf |-> SubSeq(buf, hs + 1, Len(buf)), ms |-> ms, dl |-> dl]
            ELSE LET j == CHOOSE j \in cand : \A q \in cand : j <= q
                     txt == SubSeq(buf, i + 1, j + 3)
                 IN IF MatchPart(txt)
                    THEN Extract(buf, j + 4, hs, [state |-> 1, len |-> LenOf(txt)], dl)
                    ELSE [mbuf |-> <<>>, ms |-> ms, dl |-> dl]                          \* no range found: the rest is dropped ("goto end")

DlState == [ok |-> TRUE, dlData |-> dlData, wic |-> wic, tgt |-> tgt, cur |-> cur, acc |-> acc, disk |-> disk, valid |-> valid]

Deliver == /\ pos < Len(Resp) /\ ~err
           /\ \E n \in 1..(Len(Resp) - pos) :
                LET frag == SubSeq(Resp, pos + 1, pos + n)
                    r == Extract(mbuf \o frag, 0, 0, [state |-> mstate, len |-> mlen], DlState)
                IN /\ pos' = pos + n
                   /\ mbuf' = r.mbuf /\ mstate' = r.ms.state /\ mlen' = r.ms.len
                   /\ dlData' = r.dl.dlData /\ wic' = r.dl.wic /\ tgt' = r.dl.tgt /\ cur' = r.dl.cur /\ acc' = r.dl.acc
                   /\ disk' = r.dl.disk /\ valid' = r.dl.valid /\ err' = ~r.dl.ok
                   /\ UNCHANGED touchedOutside
Next == Deliver \/ ((pos = Len(Resp) \/ err) /\ UNCHANGED vars)
Spec == Init /\ [][Next]_vars

\* ---- C05
PayloadOk(c) == \A i \in 1..Len(Resp) : (IsP(Resp[i]) /\ Resp[i][2] = c) => Resp[i][4]
FirstBad == LET bad == { k \in 1..Len(Req) : ~PayloadOk(Req[k].c) } IN IF bad = {} THEN 0 ELSE CHOOSE k \in bad : \A j \in bad : k <= j
\* whatever the partition: when the transfer is over, the state is the one determined by the response alone
FinalState ==
    (pos = Len(Resp) \/ err) =>
       IF FirstBad = 0
       THEN ~err /\ \A k \in 1..Len(Req) : disk[Req[k].c] = "good" /\ valid[Req[k].c] = 1
       ELSE /\ err
            /\ \A k \in 1..(FirstBad - 1) : disk[Req[k].c] = "good" /\ valid[Req[k].c] = 1
            /\ disk[Req[FirstBad].c] = "zero" /\ valid[Req[FirstBad].c] = 0 - 1
            /\ \A k \in (FirstBad + 1)..Len(Req) : disk[Req[k].c] = "old" /\ valid[Req[k].c] = 0
ValidImpliesGood == \A c \in Chunks : valid[c] = 1 => disk[c] = "good"
Confinement == ~touchedOutside
=============================================================================
