SPECIFICATION Spec
CONSTANTS
 NC = 3
 MaxLen = 3
 B = 2
 MaxBad = 1
 Variant = "stale"
 Patterns = {"same", "distinct"}
INVARIANTS ExactClassification DataVerdict Restored

CHECK_DEADLOCK FALSE
