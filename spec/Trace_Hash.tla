------------------------------ MODULE Trace_Hash ------------------------------
EXTENDS HashIface, IOUtils
TraceLog == ndJsonDeserialize(IOEnv.TRACE)
VARIABLE l
tvars == <<hvars, l>>
E == TraceLog[l]
IsEvent(op) == l <= Len(TraceLog) /\ TraceLog[l].op = op /\ l' = l + 1
TDigest == IsEvent("digest") /\ HDigest(E.backend, E.t, E.msg, E.hex, E.std, E.dsize)
TCross  == IsEvent("crossfile") /\ HCrossFile(E.sameBytes, E.otherValidates, E.otherReadsSame)
Init == HInit /\ l = 1
Next == TDigest \/ TCross
Spec == Init /\ [][Next]_tvars
Accepted == /\ PrintT(<<"MATCHED", TLCGet("stats").diameter - 1, Len(TraceLog)>>)
            /\ TLCGet("stats").diameter - 1 = Len(TraceLog)
=============================================================================
