SPECIFICATION Spec
CONSTANTS
  MaxN = 5
  Sizes = {0, 1, 2}
  Limits = {99, 0, 1, 2, 3}
  Hdr = 10
  Cap = 8
  ItemLens = {3, 4, 5}
  Variant = "fixed"
  Known = {"C10-zero-length-inverted"}
INVARIANTS RequestIsGood StringIsList
CHECK_DEADLOCK FALSE
