----------------------------- MODULE MC_HashCases -----------------------------
(* Enumerates the cases of C18's quantifier: digest type x message length     *)
(* class around the block and padding boundaries of that algorithm x          *)
(* segmentation into at most three update calls with cuts at the classic      *)
(* off-by-one positions.  Each state is one case; it is printed as JSON and   *)
(* concretised by the check.                                                  *)
EXTENDS HashIface
VARIABLES t, len, cuts, done
vars == <<t, len, cuts, done, seen>>

Lens(tt) == LET bs == BlockSize(tt)
                pad == IF bs = 64 THEN 9 ELSE 17        \* 0x80 byte + length field
            IN { k * bs + d : k \in 0..3, d \in {0, 1, bs - pad - 1, bs - pad, bs - pad + 1, bs - 1} } \cup {0, 1, 2}
CutPoints(tt, n) == { c \in {1, BlockSize(tt) - 1, BlockSize(tt), BlockSize(tt) + 1, n - 1, n \div 2} : c > 0 /\ c < n }

Init == /\ t \in Types /\ len \in Lens(t) /\ done = FALSE /\ seen = {}
        /\ cuts \in { s \in SUBSET CutPoints(t, len) : Cardinality(s) <= 2 }
Next == done' = TRUE /\ UNCHANGED <<t, len, cuts, seen>>
Spec == Init /\ [][Next]_vars
Emit == ~done => PrintT(<<"CASE", ToJson([t |-> t, len |-> len, cuts |-> cuts])>>)
=============================================================================
