----------------------------- MODULE Trace_Range -----------------------------
(* Trace validation for C10.  "table" installs a chunk table (from the        *)
(* reference parse of the file), "missing_range" is one call of               *)
(* zck_get_missing_range on a poked validity vector with everything it        *)
(* returned, "range_char" the rendered string parsed back by the reference    *)
(* codec.                                                                     *)
EXTENDS Naturals, Sequences, SequencesExt, TLC, Json, IOUtils
RC == INSTANCE Range
Code == INSTANCE RangeCode
CONSTANT Known

TraceLog == ndJsonDeserialize(IOEnv.TRACE)
VARIABLES l, T, H, lastR
vars == <<l, T, H, lastR>>
E == TraceLog[l]
IsEvent(op) == l <= Len(TraceLog) /\ TraceLog[l].op = op /\ l' = l + 1

Init == l = 1 /\ T = <<>> /\ H = 0 /\ lastR = <<>>

TTable == IsEvent("table") /\ T' = E.T /\ H' = E.H /\ lastR' = <<>>

Holds(e) == RC!Good(T, H, e.v, e.m, e.R, e.cnt, e.X, e.W)

TMissing == /\ IsEvent("missing_range") /\ Holds(E)
            /\ lastR' = E.R /\ UNCHANGED <<T, H>>

\* Named deviation (known finding C10-zero-length-inverted): a missing chunk with stored size 0
\* is turned into the inverted range [s, s-1].  Accepted only when the contract does not explain
\* the event, a zero-length chunk is marked missing, and the result is exactly what the
\* transcription of the pinned range.c computes.
TDevZeroLen ==
    /\ "C10-zero-length-inverted" \in Known
    /\ IsEvent("missing_range") /\ ~Holds(E)
    /\ \E i \in 1..Len(T) : T[i].clen = 0 /\ E.v[i] = 0
    /\ LET r == Code!MissingRange(T, E.v, E.m, H) IN
          r.items = E.R /\ r.count = E.cnt /\ r.X = E.X
    /\ PrintT(<<"DEVIATION", "C10-zero-length-inverted", l>>)
    /\ lastR' = E.R /\ UNCHANGED <<T, H>>

TRangeChar == /\ IsEvent("range_char")
              /\ \/ RC!Rendered(lastR, E.parseOk, E.S)
                 \/ /\ "C10-zero-length-inverted" \in Known     \* an inverted range s-(s-1) is rendered verbatim
                    /\ \E j \in 1..Len(lastR) : lastR[j].e < lastR[j].s
                    /\ E.S = lastR
              /\ UNCHANGED <<T, H, lastR>>

Next == TTable \/ TMissing \/ TDevZeroLen \/ TRangeChar
Spec == Init /\ [][Next]_vars

Accepted == /\ PrintT(<<"MATCHED", TLCGet("stats").diameter - 1, Len(TraceLog)>>)
            /\ TLCGet("stats").diameter - 1 = Len(TraceLog)
=============================================================================
