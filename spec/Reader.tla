------------------------------- MODULE Reader -------------------------------
(* Contract of the reading side of libzck (C02, C09, C14, C15).               *)
(*                                                                            *)
(* The byte string being read is described by facts from the reference codec: *)
(*   f.valid     header sealed and well formed, every chunk's stored bytes    *)
(*               match its index checksum and decode to its declared size,    *)
(*               whole-data checksum matches                                  *)
(*   f.total     length of the reference content (0 if it does not decode)    *)
(*   f.unit      chunks are decoded as a unit (zstd)                          *)
(*   f.cok       per chunk: stored bytes present and matching the checksum    *)
(*   f.dataok    whole-data checksum matches (TRUE if the file has none)      *)
(*   f.detached  detached header                                              *)
(* Facts about returned bytes ("equal to this interval of the reference       *)
(* content", "touches these chunks") are computed by the reference codec and  *)
(* attached to the events; the contract never sees raw data.                  *)
EXTENDS Naturals, Sequences

VARIABLES f, phase, delivered, allok, matches, eos, closed, base
rvars == <<f, phase, delivered, allok, matches, eos, closed, base>>

NoFile == [valid |-> FALSE, total |-> 0, unit |-> FALSE, cok |-> <<>>, dataok |-> FALSE, detached |-> FALSE]
NoBase == [delivered |-> 0, ok |-> FALSE, matches |-> FALSE]
RInit == f = NoFile /\ phase = "closed" /\ delivered = 0 /\ allok = TRUE /\ matches = TRUE /\ eos = FALSE
         /\ closed = 0 /\ base = NoBase

ROpen(ff, ret) ==
    /\ f' = ff /\ phase' = IF ret = 1 THEN "open" ELSE "failed"
    /\ delivered' = 0 /\ allok' = (ret = 1) /\ matches' = TRUE /\ eos' = FALSE
    /\ closed' = 0 /\ UNCHANGED base

\* The end of the stream is reached when a read returns 0, or when the reader has been given as many bytes as the index
\* declares (f.declared: a reader that knows the data length asks for exactly that much and then closes - no read of its
\* ever returns 0, and the close is the library's last chance to refuse)
Declared == IF "declared" \in DOMAIN f THEN f.declared ELSE 0
\* ret bytes were returned; eq = they equal the reference content at [delivered, delivered+ret);
\* bad = some byte of them belongs to a chunk whose stored bytes do not match its checksum
RRead(n, ret, eq, bad) ==
    /\ phase \in {"open", "failed"}          \* after a failed open nothing is promised about later calls ...
    /\ phase = "failed" => ret <= 0           \* ... except that no data comes out
    /\ ret <= n
    /\ (ret > 0 /\ f.unit) => ~bad                      \* C15: verified before released
    /\ delivered' = IF ret > 0 THEN delivered + ret ELSE delivered
    /\ matches' = (matches /\ (ret > 0 => eq))
    /\ allok' = (allok /\ ret >= 0)
    /\ eos' = (eos \/ ret = 0 \/ (Declared > 0 /\ (IF ret > 0 THEN delivered + ret ELSE delivered) >= Declared))
    /\ UNCHANGED <<f, phase, closed, base>>

\* C02: open, every read to the end of the stream and close all succeeded
\*      => the file is valid and exactly its content was delivered
RClose(ret) ==
    /\ phase \in {"open", "failed"}
    /\ (ret = 1 /\ allok /\ eos) => (f.valid /\ matches /\ delivered = f.total)
    /\ phase' = "closed" /\ closed' = ret /\ UNCHANGED <<f, delivered, allok, matches, eos, base>>

\* The process ended inside a call (allocation-failure families only: zchunk's policy for some refused allocations is
\* exit(), uthash's uthash_fatal).  Nothing was reported as success, nothing is promised.
RAbort == phase' = "closed" /\ closed' = 0 /\ UNCHANGED <<f, delivered, allok, matches, eos, base>>

\* the same obligation for a tool that read the whole stream and exited with success
RToolExit(status, outEq) == (status = 0) => (f.valid /\ outEq)

\* C14: the data (or the stored bytes) of chunk k, whatever was requested before;
\* want = declared size, eq = bytes equal the reference's
RGetChunk(isValidFile, want, ret, eq) ==
    /\ phase = "open"
    /\ isValidFile => (ret = want /\ eq)
    /\ UNCHANGED rvars

\* the same request while the kernel delivers the input in short pieces (every read(2) returns at most a few bytes, as a
\* pipe, a network file system or a signal makes it): the request may fail or come back short, but what it returns is
\* the beginning of the right bytes and a full-size answer is the right one - never other bytes with success
RGetChunkCapped(want, ret, prefixOk) ==
    /\ phase = "open"
    /\ ret > 0 => (prefixOk /\ ret <= want)
    /\ UNCHANGED rvars

\* C09: the validity scan classifies exactly.  vec = per-chunk marks after the call
\* (1 valid, -1 failed, 0 untouched), ret = 1 all good / -1 some bad / 0 error
Expected(i) == IF f.cok[i] THEN 1 ELSE 0 - 1
AllChunksOk == \A i \in 1..Len(f.cok) : f.cok[i]
\* es = error state of the context before the call: a context left in an error state by an earlier failed
\* call may refuse (ret = 0); it must still not report a verdict the bytes do not support
RScan(ret, vec, es) ==
    /\ phase = "open"
    /\ Len(vec) = Len(f.cok)
    /\ IF es # 0 THEN ret = 1 => (AllChunksOk /\ f.dataok)
       ELSE IF f.detached
       THEN /\ vec[1] = Expected(1)                                   \* only the dictionary is scanned
            /\ \A i \in 2..Len(vec) : vec[i] = 0
            /\ ret = vec[1]
       ELSE IF AllChunksOk /\ ~f.dataok
            THEN /\ \A i \in 1..Len(vec) : vec[i] = 0 - 1             \* data checksum bad: nothing is trusted
                 /\ ret = 0 - 1
            ELSE /\ \A i \in 1..Len(vec) : vec[i] = Expected(i)
                 /\ ret = (IF AllChunksOk THEN 1 ELSE 0 - 1)
    /\ UNCHANGED rvars

\* C12: a call that reads the lead or the header (zck_read_lead, zck_validate_lead, zck_read_header) during which a read
\* or seek on the input failed has not read what it reports on: it must not report success
RLeadCall(ret, failed) ==
    /\ failed => ret # 1
    /\ UNCHANGED rvars

\* whole-data validation alone
RValidateData(ret, es) ==
    /\ phase = "open"
    /\ ret = 1 => f.dataok
    /\ (es = 0 /\ AllChunksOk /\ f.dataok /\ ~f.detached) => ret = 1
    /\ UNCHANGED rvars

\* C09: a full read started after any sequence of validations returns the same content and verdict as a
\* read without them.  "setbaseline" remembers the outcome of the execution that just ended (the one
\* without validations); "samebaseline" compares the outcome of the current one with it.
Outcome == [delivered |-> delivered, ok |-> (allok /\ closed = 1), matches |-> matches]
RSetBaseline == base' = Outcome /\ UNCHANGED <<f, phase, delivered, allok, matches, eos, closed>>
RSameAsBaseline == Outcome = base /\ UNCHANGED rvars

\* C09: validations never modify the file
RUnmodified(same) == same /\ UNCHANGED rvars
=============================================================================
