-------------------------------- MODULE Delta --------------------------------
(* Contract of the delta-update machinery (C04, C05, C08, C11, C17).          *)
(*                                                                            *)
(* A target is being brought to the new file B.  n = number of chunks of B.   *)
(* After every step the reference codec looks at the bytes on disk and        *)
(* reports, per chunk c of B:                                                 *)
(*    disk[c]  the target's bytes at c's extent equal B's                     *)
(*    zero[c]  they are all zero                                              *)
(* and `outside` = every byte outside the extents being filled in that step   *)
(* (header, other chunks) is unchanged w.r.t. the snapshot before the step.   *)
(* `valid` is the library's marking (1 valid, 0 missing, -1 failed).          *)
(* Vectors are sequences indexed 1..n (chunk 0 of the file is index 1).       *)
EXTENDS Naturals, Sequences, FiniteSets

VARIABLES n, valid, disk, afterScan, requested, usableSeen, phase, base
dvars == <<n, valid, disk, afterScan, requested, usableSeen, phase, base>>

DInit == n = 0 /\ valid = <<>> /\ disk = <<>> /\ afterScan = <<>> /\ requested = {} /\ usableSeen = {}
         /\ phase = "start" /\ base = [file |-> "", valid |-> <<>>]

Idx == 1..n
SetOf(seq) == { seq[i] : i \in 1..Len(seq) }

\* a fresh context on the (possibly partially written) target: header of B fetched and parsed
DStart(nn, d) == /\ n' = nn /\ disk' = d /\ valid' = [i \in 1..nn |-> 0] /\ afterScan' = <<>>
                 /\ requested' = {} /\ usableSeen' = {} /\ phase' = "header" /\ UNCHANGED base

\* C09/C11: the validity scan marks exactly the chunks whose bytes are on disk; a partially written
\* chunk is never trusted.  sized[c] = chunk c has stored bytes (an empty dictionary entry is always valid)
DScan(vec, d, sized) ==
    /\ phase = "header" /\ Len(vec) = n
    /\ \A c \in Idx : (vec[c] = 1) <=> (d[c] \/ ~sized[c])
    /\ \A c \in Idx : vec[c] # 1 => vec[c] = 0 - 1
    /\ valid' = vec /\ disk' = d /\ afterScan' = vec /\ phase' = "scanned"
    /\ UNCHANGED <<n, requested, usableSeen, base>>

\* a stocktake in the middle of the update (zckdl does one at every start; a client may repeat it between requests): the same
\* exact classification, whatever the download handle and the context did before
DRescan(vec, d, sized) ==
    /\ phase = "scanned" /\ Len(vec) = n
    /\ \A c \in Idx : (vec[c] = 1) <=> (d[c] \/ ~sized[c])
    /\ \A c \in Idx : vec[c] # 1 => vec[c] = 0 - 1
    /\ valid' = vec /\ disk' = d
    /\ UNCHANGED <<n, requested, usableSeen, base, afterScan, phase>>

\* C12: a scan during which an I/O call failed: it may report an error, but must not trust absent bytes
DScanFaulty(vec, d, sized) ==
    /\ phase = "header" /\ Len(vec) = n
    /\ \A c \in Idx : vec[c] = 1 => (d[c] \/ ~sized[c])
    /\ valid' = vec /\ disk' = d /\ afterScan' = vec /\ phase' = "scanned"
    /\ UNCHANGED <<n, requested, usableSeen, base>>

\* C08: copying from a local source.  matchable[c] = the source index has a chunk with the same checksum,
\* stored size and size; usable[c] = matchable and the source's bytes for it really hash to that checksum
DCopy(vec, d, z, matchable, usable, srcSame, outside) ==
    /\ phase = "scanned" /\ Len(vec) = n
    /\ \A c \in Idx :
         /\ vec[c] = 1 => d[c]                                   \* valid only if the bytes now there are B's
         /\ valid[c] = 1 => vec[c] = 1                           \* already valid chunks stay
         /\ (valid[c] # 1 /\ ~matchable[c]) => vec[c] = valid[c] \* used only when checksum and both sizes match
         /\ (valid[c] # 1 /\ usable[c]) => vec[c] = 1
         /\ (valid[c] # 1 /\ matchable[c] /\ ~usable[c]) =>                       \* a bad source chunk: failed and zero-filled,
               ((vec[c] = 0 - 1 /\ z[c]) \/ vec[c] = valid[c])                       \* or still missing - never valid
    /\ srcSame /\ outside                                         \* source untouched; nothing else in the target touched
    /\ valid' = vec /\ disk' = d
    /\ usableSeen' = usableSeen \cup { c \in Idx : valid[c] # 1 /\ usable[c] }
    /\ UNCHANGED <<n, afterScan, requested, phase, base>>

\* C12: a copy during which an I/O call failed or was short: whatever happened, a chunk is marked valid only
\* if its bytes were completely written, and the source is untouched
DCopyFaulty(vec, d, srcSame) ==
    /\ phase = "scanned" /\ Len(vec) = n
    /\ \A c \in Idx : vec[c] = 1 => d[c]
    /\ srcSame
    /\ valid' = vec /\ disk' = d /\ UNCHANGED <<n, afterScan, requested, usableSeen, phase, base>>

\* C08: matching by checksum only (no bytes are copied): a target chunk is paired only with a source chunk whose
\* (stored or uncompressed) checksum and length are equal.  pairOk[c] = such a source chunk exists
DFindMatch(vec, pairOk) ==
    /\ Len(vec) = n
    /\ \A c \in Idx : (valid[c] # 0 => vec[c] = valid[c]) /\ (valid[c] = 0 /\ vec[c] # 0 => (vec[c] = 1 /\ pairOk[c]))
    /\ valid' = vec /\ UNCHANGED <<n, disk, afterScan, requested, usableSeen, phase, base>>

DResetFailed(vec) == /\ \A c \in Idx : vec[c] = (IF valid[c] = 0 - 1 THEN 0 ELSE valid[c])
                     /\ valid' = vec /\ UNCHANGED <<n, disk, afterScan, requested, usableSeen, phase, base>>

\* C04/C05/C11/C17: one request/response round.  X = requested chunks in order (1-based), payloadOk[k] = the
\* bytes the server sent for X[k] hash to its checksum; complete = the whole response was delivered and every
\* callback accepted it; anyErr = some callback signalled an error
DRound(X, vec, d, z, payloadOk, wellFormed, complete, anyErr, outside, limit, nranges) ==
    /\ phase = "scanned" /\ Len(vec) = n
    /\ (limit >= 0 => nranges <= (IF limit > 1 THEN limit ELSE 1))          \* never more ranges than the server allows
    /\ \A k \in 1..Len(X) : X[k] \in Idx /\ valid[X[k]] = 0 /\ ~disk[X[k]]      \* only what is missing; nothing present is fetched again
    /\ \A j, k \in 1..Len(X) : j < k => X[j] < X[k]
    /\ outside                                                                   \* confinement
    /\ \A c \in Idx : c \notin SetOf(X) => vec[c] = valid[c]
    /\ \A c \in Idx : vec[c] = 1 => d[c] \/ valid[c] = 1                         \* valid => verified bytes on disk
    /\ wellFormed =>
         LET bad == { k \in 1..Len(X) : ~payloadOk[k] } IN
         IF bad = {} THEN /\ complete /\ ~anyErr                                   \* a well-formed response with good payloads is accepted to the end
                          /\ \A k \in 1..Len(X) : vec[X[k]] = 1 /\ d[X[k]]
         ELSE LET fb == CHOOSE k \in bad : \A j \in bad : k <= j IN
              /\ \A k \in 1..(fb - 1) : vec[X[k]] = 1 /\ d[X[k]]
              /\ vec[X[fb]] = 0 - 1 /\ z[X[fb]] /\ anyErr                          \* zero-filled, failed, reported
    /\ valid' = vec /\ disk' = d
    /\ requested' = requested \cup SetOf(X)
    /\ UNCHANGED <<n, afterScan, usableSeen, phase, base>>

\* C12: a round during which a write, read or seek on the target was made to fail with an errno: some callback must have
\* signalled it to the transport (returned fewer bytes than it was given) - "all bytes stored" would be a success not achieved
DRoundFault(firedErr, anyErr) == (firedErr => anyErr) /\ UNCHANGED dvars

\* C05: fragmentation independence - the final file and markings of a round fed in any partition equal those
\* of the same round fed in one call.  "setbase" remembers (file digest, marking); "samebase" compares.
DSetBase(fd) == base' = [file |-> fd, valid |-> valid] /\ UNCHANGED <<n, valid, disk, afterScan, requested, usableSeen, phase>>
DSameBase(fd) == base = [file |-> fd, valid |-> valid] /\ UNCHANGED dvars

\* C04: the update ends with a target identical to B that passes whole-data validation, and the chunks
\* requested over all rounds are exactly those that were neither valid after the scan nor usable from A
\* must = nothing stood in the way (a server that answers every request correctly, no damaged payload, no injected
\* fault): the procedure then has to END with every chunk valid, a successful whole-data validation and B on disk
\* bValid = the file the server holds is itself valid; if only its whole-data checksum is wrong (every chunk matches
\* its index entry) the update can fill in every chunk, and the final validation is what has to refuse the result
DFinish(valRet, eqB, sized, must, bValid) ==
    /\ phase = "scanned"
    /\ ~bValid => valRet # 1
    /\ (must /\ bValid) => ((\A c \in Idx : valid[c] = 1) /\ valRet = 1 /\ eqB)
    /\ ((\A c \in Idx : valid[c] = 1) /\ bValid) => (valRet = 1 /\ eqB)
    /\ (\A c \in Idx : valid[c] = 1) =>
          requested = { c \in Idx : afterScan[c] # 1 /\ c \notin usableSeen /\ sized[c] }
    /\ phase' = "done" /\ UNCHANGED <<n, valid, disk, afterScan, requested, usableSeen, base>>

\* C04/C11 through the shipped downloader (a black box): what it requested from the server and what it left.
\* X = chunks whose extents were requested (body ranges must be unions of whole chunk extents), d = disk facts
\* before the run, usable = available from the local source.  full = the server ignores Range altogether and
\* answers every request with the whole file: then only the result counts (what is transferred is the server's choice).
\* must = nothing stands in the way of this run (a well-behaved server, possibly with a limit on ranges per request, no
\* injected fault, not killed): C04/C11 then promise that it terminates successfully with B, whatever the target held
DToolRun(status, eqB, X, wholeChunks, d, usable, sized, full, must, bValid) ==
    /\ status = 0 => (eqB /\ bValid)                                      \* success => identical to B, and B validated
    /\ (must /\ bValid) => (status = 0 /\ eqB)
    /\ ~full =>
        /\ wholeChunks
        /\ \A k \in 1..Len(X) : ~d[X[k]] /\ ~usable[X[k]]                      \* nothing present or locally available is fetched
        /\ status = 0 => \A c \in 1..Len(d) : (~d[c] /\ ~usable[c] /\ sized[c]) => c \in SetOf(X)
    /\ UNCHANGED dvars

\* C11: the process dies; only the disk survives
DCrash == phase' = "start" /\ UNCHANGED <<n, valid, disk, afterScan, requested, usableSeen, base>>
=============================================================================
