----------------------------- MODULE UnzckTool -----------------------------
(* Implementation-shaped model of what src/unzck.c does to the files of its  *)
(* working directory (outside the listed properties except where C01/C02/C12  *)
(* speak of "a tool that exits with success").  The directory holds the input *)
(* under the name given on the command line and possibly a bystander file     *)
(* whose name is the input's name without ".zck".  unzck derives its output   *)
(* name from the input name (".zck" stripped when present; ".zdict" / ".zhr"  *)
(* appended for --dict / --header), opens it with O_TRUNC unless --stdout,    *)
(* reads the input, and on any failure unlinks the derived name.              *)
(*                                                                            *)
(* SuccessMeansOutput is what the listed properties rely on and holds for     *)
(* the code.  InputUntouched and OnlyOwnOutput do not: an input whose name    *)
(* does not end in ".zck" is truncated by the tool's own O_TRUNC and then     *)
(* removed, and with --stdout a failed run removes a file it never created.   *)
(* Variant "guarded" (refuse an output name equal to the input name; unlink   *)
(* only a file the run created) satisfies all three.                          *)
EXTENDS Naturals, Sequences, TLC
CONSTANTS Variant

Names == {"a.zck", "a", "a.zdict", "a.zhr", "a.zck.zdict", "a.zck.zhr"}
Absent == "absent"
VARIABLES fs,        \* name -> contents: "absent" | "zck:good" | "zck:bad" | "other" | "empty" | "content" | "dict" | "hdr"
          input,     \* the name on the command line
          mode,      \* "file" | "stdout"
          what,      \* "data" | "dict" | "header"
          pc, outName, created, exit, fs0
vars == <<fs, input, mode, what, pc, outName, created, exit, fs0>>

Strip(n) == IF n = "a.zck" THEN "a" ELSE n
Derived(n, w) == IF w = "dict" THEN (IF n = "a.zck" THEN "a.zdict" ELSE "a.zck.zdict")      \* (only two input names are modelled)
                 ELSE IF w = "header" THEN (IF n = "a.zck" THEN "a.zhr" ELSE "a.zck.zhr")
                 ELSE Strip(n)
\* for an input called "a" the derived names are "a.zdict" / "a.zhr"; keep the table small
OutOf(n, w) == IF n = "a" /\ w = "dict" THEN "a.zdict" ELSE IF n = "a" /\ w = "header" THEN "a.zhr" ELSE Derived(n, w)

Init == /\ input \in {"a.zck", "a"}
        /\ mode \in {"file", "stdout"} /\ what \in {"data", "dict", "header"}
        /\ fs \in [Names -> {Absent, "zck:good", "zck:bad", "other"}]
        /\ fs[input] \in {"zck:good", "zck:bad"}
        /\ \A n \in Names \ {input, "a"} : fs[n] = Absent
        /\ (input = "a.zck" => fs["a"] \in {Absent, "other"})
        /\ pc = "open" /\ outName = "" /\ created = FALSE /\ exit = "running" /\ fs0 = fs

Open == /\ pc = "open"
        /\ outName' = OutOf(input, what)
        /\ IF mode = "stdout" THEN fs' = fs /\ created' = FALSE /\ pc' = "read" /\ UNCHANGED exit
           ELSE IF Variant = "guarded" /\ OutOf(input, what) = input
                THEN fs' = fs /\ created' = FALSE /\ pc' = "done" /\ exit' = "fail"
                ELSE fs' = [fs EXCEPT ![OutOf(input, what)] = "empty"] /\ created' = TRUE /\ pc' = "read" /\ UNCHANGED exit
        /\ UNCHANGED <<input, mode, what, fs0>>

Product == IF what = "dict" THEN "dict" ELSE IF what = "header" THEN "hdr" ELSE "content"
\* zck_init_read and the extraction: succeeds exactly on an input that (still) is a valid zchunk file
Read == /\ pc = "read"
        /\ IF fs[input] = "zck:good"
           THEN /\ fs' = IF mode = "file" THEN [fs EXCEPT ![outName] = Product] ELSE fs
                /\ exit' = "ok" /\ pc' = "done"
           ELSE /\ exit' = "fail" /\ pc' = "done"
                /\ fs' = IF Variant = "guarded" /\ ~created THEN fs ELSE [fs EXCEPT ![outName] = Absent]      \* unlink(out_name)
        /\ UNCHANGED <<input, mode, what, outName, created, fs0>>

Next == Open \/ Read \/ (pc = "done" /\ UNCHANGED vars)
Spec == Init /\ [][Next]_vars /\ WF_vars(Open \/ Read)

\* what C01 / C02 / C12 rely on: exit 0 means the complete, correct output (and for --stdout nothing in the directory changed)
SuccessMeansOutput == (pc = "done" /\ exit = "ok") =>
    /\ mode = "file" => fs[outName] = Product
    /\ \A n \in Names : (n # outName \/ mode = "stdout") => fs[n] = fs0[n]
\* beyond the listed properties
InputUntouched == pc = "done" => fs[input] = fs0[input]
OnlyOwnOutput  == pc = "done" => \A n \in Names : (n # outName \/ mode = "stdout") => fs[n] = fs0[n]
Terminates == <>(pc = "done")
=============================================================================
