SPECIFICATION Spec
POSTCONDITION Accepted
CHECK_DEADLOCK FALSE
