SPECIFICATION Spec
CONSTANTS
  NC = 4
  Local = {2, 3}
  Limit = 2
  MaxCrash = 2
  ScanTrustsPartial = FALSE
INVARIANTS PartialNeverValid DoneMeansB NoRefetch Exactness
PROPERTY Converges
CHECK_DEADLOCK FALSE
