------------------------------ MODULE HashIface ------------------------------
(* Contract of the checksum interface (C18).  A digest is a function of       *)
(* (type, message) only - not of the backend that computed it nor of how the  *)
(* message was split into update calls - and equals the standard algorithm    *)
(* (Std: SHA-1, SHA-256, SHA-512; SHA-512/128 = first 16 bytes of SHA-512).   *)
(* Std is interpreted by an independent implementation (Python hashlib): the  *)
(* trace carries its value next to the library's.  TLC additionally           *)
(* enumerates the (type, length class, segmentation) cases to replay.         *)
EXTENDS Naturals, Sequences, FiniteSets, TLC, Json

Types == 0..3
DigestSize(t) == CASE t = 0 -> 20 [] t = 1 -> 32 [] t = 2 -> 64 [] t = 3 -> 16
BlockSize(t)  == IF t \in {0, 1} THEN 64 ELSE 128

VARIABLES seen          \* (backend, type, message id) -> digest, as a set of records
hvars == <<seen>>
HInit == seen = {}

\* one finished digest computation
HDigest(backend, t, msg, hex, std, dsize) ==
    /\ t \in Types
    /\ dsize = DigestSize(t)
    /\ hex = std                                               \* equals the standard algorithm
    /\ \A r \in seen : (r.t = t /\ r.msg = msg) => r.hex = hex \* same for every backend and segmentation
    /\ seen' = seen \cup {[backend |-> backend, t |-> t, msg |-> msg, hex |-> hex]}

\* files written by one build: byte-identical under the other, and valid / readable under the other
HCrossFile(sameBytes, otherValidates, otherReadsSame) == sameBytes /\ otherValidates /\ otherReadsSame /\ UNCHANGED hvars
=============================================================================
