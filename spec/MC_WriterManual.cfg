SPECIFICATION Spec
CONSTANTS
  Alphabet = {"a", "b"}
  MaxLen = 6
  W = 2
  CutSet <- MCCutSet
  AutoMin = 2
  AutoMax = 4
  ChunkMin = 2
  ChunkMax = 3
  Manual = TRUE
  Variant = "fixed"
INVARIANTS Tiling NothingInvented ManualMax
PROPERTY EveryCallReturns
CHECK_DEADLOCK FALSE
