------------------------------ MODULE Trace_Pin ------------------------------
(* Trace validation for C07: each recorded call on the real library, with the *)
(* facts the reference codec computed for its arguments, must be a step of    *)
(* the Pin contract.  "reset" starts a new context on a new file.             *)
EXTENDS Pin, TLC, Json, IOUtils

TraceLog == ndJsonDeserialize(IOEnv.TRACE)
VARIABLE l
tvars == <<pinvars, l>>

IsEvent(op) == l <= Len(TraceLog) /\ TraceLog[l].op = op /\ l' = l + 1
E == TraceLog[l]
F == IF "fault" \in DOMAIN E THEN E.fault ELSE FALSE      \* an environment fault hit this call (allocation-failure sweeps)

TReset      == IsEvent("reset") /\ prepT' = None /\ prepD' = None /\ prepL' = None /\ es' = 0
                                /\ phase' = "fresh" /\ atStart' = TRUE
TSetType    == IsEvent("settype")       /\ SetTypeX(E.t, E.ret, E.es, F)
TSetDigest  == IsEvent("setdigest")     /\ SetDigestX(E.rightlen, E.allhex, E.eq, E.ret, E.es, F)
TSetLen     == IsEvent("setlen")        /\ SetLenX(E.l, E.ret, E.es, F)
TValidate   == IsEvent("validate_lead") /\ ValidateLeadX(E.leadOk, E.ret, E.es, E.pos, F)
TReadLead   == IsEvent("read_lead")     /\ ReadLeadX(E.leadOk, E.ret, E.es, F)
TReadHeader == IsEvent("read_header")   /\ ReadHeaderX(E.sealed, E.wf, E.ret, E.es, F)
TRewind     == IsEvent("rewind")        /\ Rewind(E.es)
TReinit     == IsEvent("reinit")        /\ Reinit(E.ret, E.es)
TSwap       == IsEvent("swap")          /\ Swap

Init == PinInit /\ l = 1
Next == TReset \/ TSetType \/ TSetDigest \/ TSetLen \/ TValidate \/ TReadLead \/ TReadHeader \/ TRewind \/ TReinit \/ TSwap
Spec == Init /\ [][Next]_tvars

Accepted == /\ PrintT(<<"MATCHED", TLCGet("stats").diameter - 1, Len(TraceLog)>>)
            /\ TLCGet("stats").diameter - 1 = Len(TraceLog)
=============================================================================
