------------------------------ MODULE Trace_Pin ------------------------------
(* Trace validation for C07: each recorded call on the real library, with the *)
(* facts the reference codec computed for its arguments, must be a step of    *)
(* the Pin contract.  "reset" starts a new context on a new file.             *)
EXTENDS Pin, TLC, Json, IOUtils

TraceLog == ndJsonDeserialize(IOEnv.TRACE)
VARIABLE l
tvars == <<pinvars, l>>

IsEvent(op) == l <= Len(TraceLog) /\ TraceLog[l].op = op /\ l' = l + 1
E == TraceLog[l]

TReset      == IsEvent("reset") /\ prepT' = None /\ prepD' = None /\ prepL' = None /\ es' = 0
                                /\ phase' = "fresh" /\ atStart' = TRUE
TSetType    == IsEvent("settype")       /\ SetType(E.t, E.ret, E.es)
TSetDigest  == IsEvent("setdigest")     /\ SetDigest(E.rightlen, E.allhex, E.eq, E.ret, E.es)
TSetLen     == IsEvent("setlen")        /\ SetLen(E.l, E.ret, E.es)
TValidate   == IsEvent("validate_lead") /\ ValidateLead(E.leadOk, E.ret, E.es, E.pos)
TReadLead   == IsEvent("read_lead")     /\ ReadLead(E.leadOk, E.ret, E.es)
TReadHeader == IsEvent("read_header")   /\ ReadHeader(E.sealed, E.wf, E.ret, E.es)
TRewind     == IsEvent("rewind")        /\ Rewind(E.es)
TReinit     == IsEvent("reinit")        /\ Reinit(E.ret, E.es)

Init == PinInit /\ l = 1
Next == TReset \/ TSetType \/ TSetDigest \/ TSetLen \/ TValidate \/ TReadLead \/ TReadHeader \/ TRewind \/ TReinit
Spec == Init /\ [][Next]_tvars

Accepted == /\ PrintT(<<"MATCHED", TLCGet("stats").diameter - 1, Len(TraceLog)>>)
            /\ TLCGet("stats").diameter - 1 = Len(TraceLog)
=============================================================================
