----------------------------- MODULE Trace_Threads -----------------------------
EXTENDS ThreadsContract, TLC, Json, IOUtils
TraceLog == ndJsonDeserialize(IOEnv.TRACE)
VARIABLE l
E == TraceLog[l]
IsEvent(op) == l <= Len(TraceLog) /\ TraceLog[l].op = op /\ l' = l + 1
TFoot == IsEvent("footprint") /\ Footprint(E.staticIoBufs, E.globalsWritten, E.allowed, E.foreignCloses, E.raced)
TSame == IsEvent("scenario")  /\ SameAsSerial(E.serial, E.concurrent)
TInit == l = 1
TNext == TFoot \/ TSame
TSpec == TInit /\ [][TNext]_l
Accepted == /\ PrintT(<<"MATCHED", TLCGet("stats").diameter - 1, Len(TraceLog)>>)
            /\ TLCGet("stats").diameter - 1 = Len(TraceLog)
=============================================================================
