----------------------------- MODULE Trace_Threads -----------------------------
EXTENDS ThreadsContract, TLC, Json, IOUtils
TraceLog == ndJsonDeserialize(IOEnv.TRACE)
VARIABLE l
E == TraceLog[l]
IsEvent(op) == l <= Len(TraceLog) /\ TraceLog[l].op = op /\ l' = l + 1
TFoot == IsEvent("footprint") /\ Footprint(E.staticIoBufs, E.globalsWritten, E.allowed, E.foreignCloses, E.raced, E.umaskCalls)
\* open finding C19-umask-around-mkstemp: get_tmp_fd swaps the process-wide file mode creation mask to 0177 around mkstemp and
\* back.  Enabled only if the finding is listed, only when the contract does not explain the footprint, only for exactly that
\* pattern (two umask calls per mkstemp call, the mask inside mkstemp being 0177 = 127), everything else as the contract demands
TKnownUmask == /\ IsEvent("footprint") /\ E.umaskListed
               /\ ~Footprint(E.staticIoBufs, E.globalsWritten, E.allowed, E.foreignCloses, E.raced, E.umaskCalls)
               /\ E.umaskCalls > 0 /\ E.umaskCalls = 2 * E.mkstempCalls /\ E.umaskInMkstemp = 127
               /\ Footprint(E.staticIoBufs, E.globalsWritten, E.allowed, E.foreignCloses, E.raced, 0)
               /\ PrintT(<<"DEVIATION", "C19-umask-around-mkstemp">>)
TSame == IsEvent("scenario")  /\ SameAsSerial(E.serial, E.concurrent)
TInit == l = 1
\* the one open finding of C19 (known_findings.json, C19-unknown-name-buffer): a race on the static name buffer for unknown
\* type ids.  Enabled only if the finding is listed (E.listed is taken from the file by the check), only for that location
TKnownRace == IsEvent("KnownRace") /\ E.listed /\ E.location = "global 'unknown'" /\ PrintT(<<"DEVIATION", "C19-unknown-name-buffer">>)
TNext == TFoot \/ TSame \/ TKnownRace \/ TKnownUmask
TSpec == TInit /\ [][TNext]_l
Accepted == /\ PrintT(<<"MATCHED", TLCGet("stats").diameter - 1, Len(TraceLog)>>)
            /\ TLCGet("stats").diameter - 1 = Len(TraceLog)
=============================================================================
