------------------------------ MODULE CopyImpl ------------------------------
(* Implementation-shaped model of local chunk reuse (C08): zck_copy_chunks,  *)
(* write_and_verify_chunk and zero_chunk of src/lib/dl/dl.c.                  *)
(*                                                                            *)
(* One cell is half a BUF_SIZE block (B = 2).  The target's index has NT      *)
(* chunks of tlens[k] cells; chunk k's wanted content is the cells <<"c",k,i>>.*)
(* The source's index has NS entries; entry j declares the checksum of target *)
(* chunk sid[j] (or of something the target does not have: Foreign) and has   *)
(* the same sizes when it declares a target chunk's checksum.  What the       *)
(* source FILE holds is sdisk: per position "g" (the bytes its index          *)
(* promises) or "x" (other bytes), cut anywhere.  The target file holds old   *)
(* bytes except in the extents of the chunks that are already valid.  A       *)
(* checksum is the sequence of cells fed to it.  The copy buffer keeps its    *)
(* previous contents where a read does not overwrite them, and read_data's    *)
(* result is only tested for 0 (as in the code): a short read is not noticed. *)
(* With ShortReads the kernel may return any positive count below the request *)
(* although the file goes on (a pipe, a network file system, a signal).       *)
(*                                                                            *)
(* Variants: "code"; "zerosrc" (a failed chunk is zeroed at the SOURCE        *)
(* entry's offset: seeded C08-m2, C08-w2m1, C08-w4m1); "tgtfixed" (the target *)
(* position is set again before every block but never advanced: C08-w7m2);    *)
(* "srcfixed" (the same for the source: C04-w7m2); "roundup" (the zero-fill   *)
(* writes whole blocks: C05-m2); "gotrb" (hashes and advances by the bytes    *)
(* actually read but writes the requested size: C12-w7m1).                    *)
EXTENDS Naturals, Sequences, FiniteSets, TLC
CONSTANTS NT, NS, MaxLen, B, MaxBad, ShortReads, Variant

Foreign == 99
Sum(s) == LET RECURSIVE S(_) S(k) == IF k = 0 THEN 0 ELSE s[k] + S(k - 1) IN S(Len(s))
Min(a, b) == IF a < b THEN a ELSE b

VARIABLES tlens, sid, slens, sdisk, vinit,      \* the family (never change)
          tdisk,      \* the target file, cell by cell (long enough for an overrun)
          valid, k, pc, f, toRead, spos, tpos, buf, chash, attempted
fam == <<tlens, sid, slens, sdisk, vinit>>
vars == <<fam, tdisk, valid, k, pc, f, toRead, spos, tpos, buf, chash, attempted>>

TStart(i) == Sum(SubSeq(tlens, 1, i - 1))
SStart(j) == Sum(SubSeq(slens, 1, j - 1))
TTotal == Sum(tlens)
STotal == Sum(slens)
Want(i) == [c \in 1..tlens[i] |-> <<"c", i, c>>]
Old(p) == <<"o", p, 0>>
Zero == <<"z", 0, 0>>
\* what the source file holds at position p (1-based), p inside entry j at cell c
EntryOf(p) == CHOOSE j \in 1..NS : SStart(j) < p /\ p <= SStart(j) + slens[j]
SCell(p) == LET j == EntryOf(p) c == p - SStart(j) IN
            IF sdisk[p] = "g" THEN <<"c", sid[j], c>> ELSE <<"x", p, 0>>

Family ==
    /\ tlens \in [1..NT -> 0..MaxLen]
    /\ sid \in [1..NS -> (1..NT) \cup {Foreign}]
    /\ slens \in [1..NS -> 0..MaxLen]
    /\ \A j \in 1..NS : sid[j] # Foreign => slens[j] = tlens[sid[j]]      \* same checksum: same sizes
    /\ \E n \in 0..STotal : sdisk \in [1..n -> {"g", "x"}]
    /\ Cardinality({p \in 1..Len(sdisk) : sdisk[p] = "x"}) <= MaxBad
    /\ vinit \in [1..NT -> {0, 1}]
    /\ \A i \in 1..NT : tlens[i] = 0 => vinit[i] = 1                       \* the scan marks a chunk without stored bytes valid

InitDisk == [p \in 1..(TTotal + 2 * B + MaxLen) |->
               IF \E i \in 1..NT : vinit[i] = 1 /\ TStart(i) < p /\ p <= TStart(i) + tlens[i]
               THEN LET i == CHOOSE i \in 1..NT : vinit[i] = 1 /\ TStart(i) < p /\ p <= TStart(i) + tlens[i] IN <<"c", i, p - TStart(i)>>
               ELSE Old(p)]

Run0 == /\ tdisk = InitDisk /\ valid = vinit /\ k = 1 /\ pc = "next" /\ f = 0 /\ toRead = 0
        /\ spos = 0 /\ tpos = 0 /\ buf = [c \in 1..B |-> Zero] /\ chash = <<>> /\ attempted = {}
Init == Family /\ Run0

Lookup(i) == IF \E j \in 1..NS : sid[j] = i THEN CHOOSE j \in 1..NS : sid[j] = i /\ \A j2 \in 1..(j - 1) : sid[j2] # i ELSE 0

\* while(tgt_idx): skip valid chunks, look the checksum up in the source, compare the sizes
NextChunk ==
    /\ pc = "next"
    /\ IF k > NT THEN pc' = "done" /\ UNCHANGED <<k, f, toRead, spos, tpos, chash, attempted>>
       ELSE IF valid[k] = 1 \/ Lookup(k) = 0
            THEN k' = k + 1 /\ UNCHANGED <<pc, f, toRead, spos, tpos, chash, attempted>>
            ELSE /\ f' = Lookup(k) /\ toRead' = slens[Lookup(k)]
                 /\ spos' = SStart(Lookup(k)) /\ tpos' = TStart(k)            \* the two seeks
                 /\ chash' = <<>> /\ attempted' = attempted \cup {k} /\ pc' = "blk" /\ UNCHANGED k
    /\ UNCHANGED <<fam, tdisk, valid, buf>>

\* one turn of the copy loop: read_data, hash_update, write_data
Blk ==
    /\ pc = "blk"
    /\ IF toRead = 0 THEN pc' = "verdict" /\ UNCHANGED <<k, toRead, spos, tpos, buf, chash, tdisk>>
       ELSE LET rb == Min(B, toRead)
                sp == IF Variant = "srcfixed" THEN SStart(f) ELSE spos
                tp == IF Variant = "tgtfixed" THEN TStart(k) ELSE tpos
                there == IF Len(sdisk) > sp THEN Len(sdisk) - sp ELSE 0 IN
            \E got \in (IF ShortReads /\ there > 1 THEN 1..Min(rb, there) ELSE {Min(rb, there)}) :
              LET nbuf == [c \in 1..B |-> IF c <= got THEN SCell(sp + c) ELSE buf[c]]
                  used == IF Variant = "gotrb" THEN got ELSE rb IN
              IF got = 0
              THEN pc' = "next" /\ k' = k + 1 /\ UNCHANGED <<toRead, spos, tpos, buf, chash, tdisk>>      \* return false: the chunk stays as it was marked
              ELSE /\ buf' = nbuf
                   /\ chash' = chash \o SubSeq(nbuf, 1, used)
                   /\ tdisk' = [p \in DOMAIN tdisk |-> IF tp < p /\ p <= tp + rb THEN nbuf[p - tp] ELSE tdisk[p]]
                   /\ spos' = sp + got /\ tpos' = tp + rb /\ toRead' = toRead - used
                   /\ UNCHANGED <<pc, k>>
    /\ UNCHANGED <<fam, valid, f, attempted>>

\* compare the checksum of what was copied with the SOURCE entry's; zero the extent when it differs
Verdict ==
    /\ pc = "verdict"
    /\ IF sid[f] # Foreign /\ chash = Want(sid[f])
       THEN valid' = [valid EXCEPT ![k] = 1] /\ UNCHANGED tdisk
       ELSE LET at == IF Variant = "zerosrc" THEN SStart(f) ELSE TStart(k)
                n  == IF Variant = "roundup" THEN ((tlens[k] + B - 1) \div B) * B ELSE tlens[k] IN
            /\ tdisk' = [p \in DOMAIN tdisk |-> IF at < p /\ p <= at + n THEN Zero ELSE tdisk[p]]
            /\ valid' = [valid EXCEPT ![k] = 0 - 1]
    /\ pc' = "next" /\ k' = k + 1
    /\ UNCHANGED <<fam, f, toRead, spos, tpos, buf, chash, attempted>>

Step == NextChunk \/ Blk \/ Verdict
Next == Step \/ (pc = "done" /\ UNCHANGED vars)
Spec == Init /\ [][Next]_vars /\ WF_vars(Step)

-----------------------------------------------------------------------------
OnDiskGood(i) == \A c \in 1..tlens[i] : tdisk[TStart(i) + c] = <<"c", i, c>>
OnDiskZero(i) == \A c \in 1..tlens[i] : tdisk[TStart(i) + c] = Zero
\* the source really holds chunk i: an entry declares its checksum and the file has the promised bytes there
SourceHas(i) == /\ Lookup(i) # 0
                /\ LET j == Lookup(i) IN /\ SStart(j) + slens[j] <= Len(sdisk)
                                         /\ \A c \in 1..slens[j] : sdisk[SStart(j) + c] = "g"
\* C08: a chunk is marked valid only if the bytes now stored at its offset hash to the target's checksum
ValidImpliesDisk == \A i \in 1..NT : valid[i] = 1 => OnDiskGood(i)
\* C08: all target bytes outside the extents of the chunks being filled are left unchanged
Confinement == pc = "done" =>
    \A p \in DOMAIN tdisk : (\A i \in attempted : ~(TStart(i) < p /\ p <= TStart(i) + tlens[i])) => tdisk[p] = InitDisk[p]
\* a chunk the copy gave up on is zero-filled (failed) or untouched (still missing), never half written and unmarked
FailedIsZero == pc = "done" => \A i \in 1..NT : valid[i] = 0 - 1 => OnDiskZero(i)
\* with a kernel that delivers whole reads, a chunk the source really holds is reused
MustReuse == (pc = "done" /\ ~ShortReads) => \A i \in 1..NT : (vinit[i] = 0 /\ SourceHas(i)) => valid[i] = 1
Terminates == <>(pc = "done")
=============================================================================
