-------------------------- MODULE MC_DeltaSession --------------------------
(* Generator: update sessions on ONE target context and ONE download handle.  *)
(* A session is a sequence of at most MaxSteps disturbed steps - a response    *)
(* of some kind followed by something the client does before the next request  *)
(* - after which well-formed responses follow until nothing is missing.  The   *)
(* Delta contract judges every event of the replayed session (DRound: verify-  *)
(* or-zero, confinement, only missing chunks requested; DRescan; DCopy;        *)
(* DFinish: the update must complete with B).                                  *)
(*   responses  good     well formed, payloads intact                          *)
(*              cfirst   the first payload byte of the response damaged        *)
(*              clast    a byte of the last part damaged                       *)
(*              stopmid  the transfer stops inside a chunk                     *)
(*              stopend  the transfer stops exactly at the end of a chunk      *)
(*   between    none / scan (validity scan) / copy (the local source again) /  *)
(*              clear (zck_clear_error)                                        *)
EXTENDS Naturals, Sequences, TLC, Json
CONSTANTS MaxSteps, Responses, Between
VARIABLE hist
Init == hist = <<>>
Next == /\ Len(hist) < MaxSteps
        /\ \E r \in Responses, b \in Between : hist' = Append(hist, [resp |-> r, then |-> b])
Spec == Init /\ [][Next]_hist
\* a session made of undisturbed steps only is the plain procedure (checked elsewhere)
Disturbed == \E i \in 1..Len(hist) : hist[i].resp # "good" \/ hist[i].then # "none"
Emit == (Len(hist) >= 1 /\ Disturbed) => PrintT(<<"BEH", ToJson(hist)>>)
=============================================================================
