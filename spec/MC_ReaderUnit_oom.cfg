SPECIFICATION Spec
CONSTANTS
  N = 3
  Size = 3
  MaxRead = 4
  Unit = TRUE
  Variant = "fixed"
  MaxCalls = 3
  AllocFail = TRUE
  Trunc = {9}
INVARIANTS NoReleaseBeforeVerify SequentialPrefix NoSilentTruncation
PROPERTY EveryCallReturns
CHECK_DEADLOCK FALSE
