---------------------------- MODULE Trace_Session ----------------------------
EXTENDS Session, TLC, Json, IOUtils
TraceLog == ndJsonDeserialize(IOEnv.TRACE)
VARIABLE l
tvars == <<svars, l>>
E == TraceLog[l]
IsEvent(op) == l <= Len(TraceLog) /\ TraceLog[l].op = op /\ l' = l + 1

TOpen  == IsEvent("sopen")  /\ SOpen(E.total, E.unit, E.ret)
TRead  == IsEvent("sread")  /\ SRead(E.n, E.ret, E.eq, E.es)
TScan  == IsEvent("sscan")  /\ SScan(E.ret, E.es)
TChunk == IsEvent("schunk") /\ SChunk(E.want, E.ret, E.eq, E.es)
TClear == IsEvent("sclear") /\ SClear(E.es)
TClose == IsEvent("sclose") /\ SClose

Init == SInit /\ l = 1
Next == TOpen \/ TRead \/ TScan \/ TChunk \/ TClear \/ TClose
Spec == Init /\ [][Next]_tvars
Accepted == /\ PrintT(<<"MATCHED", TLCGet("stats").diameter - 1, Len(TraceLog)>>)
            /\ TLCGet("stats").diameter - 1 = Len(TraceLog)
=============================================================================
