SPECIFICATION Spec
CONSTANTS
  MaxSteps = 2
  Responses = {"good", "cfirst", "clast", "stopmid", "stopend"}
  Between = {"none", "scan", "copy", "clear"}
INVARIANT Emit
CHECK_DEADLOCK FALSE
