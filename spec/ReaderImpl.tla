----------------------------- MODULE ReaderImpl -----------------------------
(* Implementation-shaped model of the reading side of src/lib/comp/comp.c:    *)
(* comp_read's loop (decompressed buffer, compressed buffer, chunk end with   *)
(* checksum verification, end-of-data flag), zck_read, zck_get_chunk_data     *)
(* with exactly the resets the C code performs, and zck_close.                *)
(*                                                                            *)
(* The file is abstract: N data chunks of Size cells each (stored size =      *)
(* size, one cell per stored byte), each with a status:                       *)
(*   "ok"    stored bytes match the index checksum                            *)
(*   "flip"  stored bytes were altered but still decode (to other content)    *)
(*   "undec" stored bytes were altered and no longer decode                   *)
(* Unit = TRUE models zstd (a chunk is decoded as a unit at its end),         *)
(* Unit = FALSE models no compression (bytes stream through).                 *)
(* The file may be shorter than its index promises (flen cells present out of *)
(* N*Size): a truncated file, or a re-sealed index claiming more stored bytes *)
(* than exist.                                                                *)
(* Variant "orig" is the pinned commit: `!comp_end_dchunk()` treats -1 as     *)
(* success, the chunk is decoded before it is verified, and random access     *)
(* does not reset data_eof / data_loc.  Variant "eofok" is the code after the *)
(* first round of fixes, in which a short read still meant "end of the data"  *)
(* (finished_rd / finished_dc): TLC exhibits the silent truncation.  Variant  *)
(* "fixed" is the repaired code: the end of the file inside a chunk is an     *)
(* error.                                                                     *)
(* AllocFail = TRUE lets the environment refuse any allocation the code makes *)
(* (comp_read's scratch buffer at the start of a call; comp_add_to_dc /       *)
(* comp_add_to_data / the unit decoder inside the loop).  Variant "oom0" is   *)
(* the code before the repair of comp_read's `return false` (= 0, "end of the *)
(* stream") on a refused scratch buffer: TLC exhibits a stream that ends      *)
(* early with success.  In "fixed" a refused allocation fails the call.       *)
EXTENDS Naturals, Sequences, FiniteSets, TLC
CONSTANTS N, Size, MaxRead, Unit, Variant, MaxCalls, Trunc, AllocFail

VARIABLES status,                  \* per chunk
          idx, loc, data, dc, eof, \* comp.data_idx (0 = NULL, N+1 = past the last), data_loc, compressed / decompressed buffers, data_eof
          off,                     \* file offset in cells (0 .. N*Size)
          hashBad,                 \* the running chunk checksum has seen the bytes of a non-ok chunk / is stale
          pc, want, got, frd, fdc, \* the call in progress
          out, rets, calls, lastReq,
          flen,                    \* cells really present in the file
          clean, eosLen            \* ghost: only successful sequential reads so far; cells delivered when the end of the stream was first reported
vars == <<status, idx, loc, data, dc, eof, off, hashBad, pc, want, got, frd, fdc, out, rets, calls, lastReq, flen, clean, eosLen>>

Chunks == 1..N
Cell(c, k) == <<c, k>>
Content(c) == [k \in 1..Size |-> Cell(c, k)]
ChunkOf(o) == (o \div Size) + 1                       \* chunk holding file offset o (0-based)

Init == /\ status \in [Chunks -> {"ok", "flip", "undec"}]
        /\ idx = 0 /\ loc = 0 /\ data = <<>> /\ dc = <<>> /\ eof = FALSE /\ off = 0 /\ hashBad = FALSE
        /\ pc = "idle" /\ want = 0 /\ got = <<>> /\ frd = FALSE /\ fdc = FALSE
        /\ out = <<>> /\ rets = <<>> /\ calls = 0 /\ lastReq = 0
        /\ flen \in Trunc /\ clean = TRUE /\ eosLen = 0 - 1

\* ---- the public calls
StartRead == /\ pc = "idle" /\ calls < MaxCalls
             /\ \E n \in 1..MaxRead : want' = n
             /\ pc' = "loop" /\ got' = <<>> /\ frd' = FALSE /\ fdc' = FALSE /\ calls' = calls + 1 /\ lastReq' = 0
             /\ UNCHANGED <<status, idx, loc, data, dc, eof, off, hashBad, out, rets, flen, clean, eosLen>>

\* comp_read's scratch buffer is refused before the loop is entered
StartReadOom == /\ AllocFail /\ pc = "idle" /\ calls < MaxCalls
                /\ want' = 1 /\ got' = <<>> /\ frd' = FALSE /\ fdc' = FALSE /\ calls' = calls + 1 /\ lastReq' = 0
                /\ pc' = "idle" /\ LET r == IF Variant = "oom0" THEN 0 ELSE 0 - 1 IN
                     /\ rets' = Append(rets, [ret |-> r, req |-> 0, cells |-> <<>>])
                     /\ clean' = (clean /\ r >= 0)
                     /\ eosLen' = IF clean /\ r = 0 /\ eosLen = 0 - 1 THEN Len(out) ELSE eosLen
                /\ UNCHANGED <<status, idx, loc, data, dc, eof, off, hashBad, out, flen>>

\* zck_get_chunk_data(i): reset and position, then comp_read(size of the chunk)
StartGet == /\ pc = "idle" /\ calls < MaxCalls
            /\ \E i \in Chunks :
                 /\ idx' = i /\ off' = (i - 1) * Size /\ data' = <<>> /\ dc' = <<>>
                 /\ want' = Size /\ lastReq' = i
                 /\ IF Variant # "orig" THEN loc' = 0 /\ eof' = FALSE /\ hashBad' = FALSE
                    ELSE loc' = (IF data = <<>> THEN loc ELSE 0) /\ UNCHANGED <<eof, hashBad>>
            /\ pc' = "loop" /\ got' = <<>> /\ frd' = FALSE /\ fdc' = FALSE /\ calls' = calls + 1
            /\ clean' = FALSE /\ UNCHANGED <<status, out, rets, flen, eosLen>>

Finish(r) == /\ pc' = "idle" /\ rets' = Append(rets, [ret |-> r, req |-> lastReq, cells |-> IF r >= 0 THEN got ELSE <<>>])
             /\ out' = IF r >= 0 THEN out \o got ELSE out
             /\ clean' = (clean /\ r >= 0)
             /\ eosLen' = IF clean /\ r = 0 /\ lastReq = 0 /\ eosLen = 0 - 1 THEN Len(out) ELSE eosLen

\* ---- one iteration of comp_read's while(dc < dst_size) loop
Loop ==
  /\ pc = "loop"
  /\ IF Len(got) = want THEN Finish(Len(got)) /\ UNCHANGED <<status, idx, loc, data, dc, eof, off, hashBad, want, got, frd, fdc, calls, lastReq, flen>>
     ELSE IF dc # <<>> THEN          \* take from the decompressed buffer
          LET k == IF Len(dc) < want - Len(got) THEN Len(dc) ELSE want - Len(got) IN
          /\ got' = got \o SubSeq(dc, 1, k) /\ dc' = SubSeq(dc, k + 1, Len(dc))
          /\ UNCHANGED <<status, idx, loc, data, eof, off, hashBad, pc, want, frd, fdc, out, rets, calls, lastReq, flen, clean, eosLen>>
     ELSE IF fdc \/ eof THEN Finish(Len(got)) /\ UNCHANGED <<status, idx, loc, data, dc, eof, off, hashBad, want, got, frd, fdc, calls, lastReq, flen>>
     ELSE IF ~Unit /\ data # <<>> THEN    \* nocomp decompress(): the compressed buffer moves to the decompressed one
          /\ dc' = data /\ data' = <<>>
          /\ UNCHANGED <<status, idx, loc, eof, off, hashBad, pc, want, got, frd, fdc, out, rets, calls, lastReq, flen, clean, eosLen>>
     ELSE IF idx = 0 THEN                 \* first use: start at the first chunk
          /\ idx' = 1 /\ hashBad' = FALSE
          /\ UNCHANGED <<status, loc, data, dc, eof, off, pc, want, got, frd, fdc, out, rets, calls, lastReq, flen, clean, eosLen>>
     ELSE IF idx > N THEN Finish(Len(got)) /\ UNCHANGED <<status, idx, loc, data, dc, eof, off, hashBad, want, got, frd, fdc, calls, lastReq, flen>>
     ELSE IF loc = Size THEN              \* chunk boundary: comp_end_dchunk
          LET bad == hashBad \/ status[idx] # "ok"
              decoded == [k \in 1..Size |-> IF status[idx] = "ok" THEN Cell(idx, k) ELSE <<idx, k, "BAD">>] IN
          IF Variant # "orig"
          THEN IF bad \/ (Unit /\ status[idx] = "undec")
               THEN /\ Finish(0 - 1) /\ hashBad' = TRUE       \* the checksum is finalised: it stays failing
                    /\ UNCHANGED <<status, idx, loc, data, dc, eof, off, want, got, frd, fdc, calls, lastReq, flen>>
               ELSE /\ dc' = (IF Unit THEN decoded ELSE dc) /\ data' = <<>> /\ loc' = 0 /\ idx' = idx + 1
                    /\ eof' = (idx + 1 > N) /\ hashBad' = FALSE
                    /\ UNCHANGED <<status, off, pc, want, got, frd, fdc, out, rets, calls, lastReq, flen, clean, eosLen>>
          ELSE \* orig: decode first, then validate; -1 is not recognised as failure by the caller
               IF Unit /\ status[idx] = "undec"
               THEN /\ Finish(0 - 1) /\ UNCHANGED <<status, idx, loc, data, dc, eof, off, hashBad, want, got, frd, fdc, calls, lastReq, flen>>
               ELSE IF bad
                    THEN /\ dc' = (IF Unit THEN decoded ELSE dc) /\ data' = <<>> /\ hashBad' = TRUE   \* stays on this chunk
                         /\ UNCHANGED <<status, idx, loc, eof, off, pc, want, got, frd, fdc, out, rets, calls, lastReq, flen, clean, eosLen>>
                    ELSE /\ dc' = (IF Unit THEN decoded ELSE dc) /\ data' = <<>> /\ loc' = 0 /\ idx' = idx + 1
                         /\ eof' = (idx + 1 > N) /\ hashBad' = FALSE
                         /\ UNCHANGED <<status, off, pc, want, got, frd, fdc, out, rets, calls, lastReq, flen, clean, eosLen>>
     ELSE IF frd THEN fdc' = TRUE /\ UNCHANGED <<status, idx, loc, data, dc, eof, off, hashBad, pc, want, got, frd, out, rets, calls, lastReq, flen, clean, eosLen>>
     ELSE \* read from the file: at most the rest of the current chunk, at most dst_size
          LET rs == IF want < Size - loc THEN want ELSE Size - loc
              avail == IF flen > off THEN flen - off ELSE 0
              rb == IF rs < avail THEN rs ELSE avail
              cells == [k \in 1..rb |-> IF status[ChunkOf(off + k - 1)] = "ok" THEN Cell(ChunkOf(off + k - 1), ((off + k - 1) % Size) + 1)
                                        ELSE <<ChunkOf(off + k - 1), ((off + k - 1) % Size) + 1, "BAD">>] IN
          IF Variant = "fixed" /\ rb = 0
          THEN \* the file ends inside a chunk the index describes: an error, not the end of the data
               /\ Finish(0 - 1) /\ UNCHANGED <<status, idx, loc, data, dc, eof, off, hashBad, want, got, frd, fdc, calls, lastReq, flen>>
          ELSE /\ data' = data \o cells /\ loc' = loc + rb /\ off' = off + rb
               /\ frd' = (Variant # "fixed" /\ rb < rs)               \* before the fix a short read meant "no more data"
               /\ hashBad' = (hashBad \/ \E k \in 1..rb : ChunkOf(off + k - 1) # idx)      \* bytes of another chunk under this chunk's checksum
               /\ UNCHANGED <<status, idx, dc, eof, pc, want, got, fdc, out, rets, calls, lastReq, flen, clean, eosLen>>

\* a refused allocation inside the loop (moving bytes into the compressed / decompressed buffer, decoding a unit): the call fails
LoopOom == /\ AllocFail /\ pc = "loop" /\ Len(got) < want /\ dc = <<>> /\ ~fdc /\ ~eof /\ idx \in 1..N
           /\ Finish(0 - 1)
           /\ UNCHANGED <<status, idx, loc, data, dc, eof, off, hashBad, want, got, frd, fdc, calls, lastReq, flen>>

Next == StartRead \/ StartReadOom \/ StartGet \/ Loop \/ LoopOom \/ (pc = "idle" /\ calls = MaxCalls /\ UNCHANGED vars)
Spec == Init /\ [][Next]_vars /\ WF_vars(Loop)

\* ---- properties
IsBad(cell) == Len(cell) = 3
\* C15: with unit decoding no successful call releases a cell of a chunk whose stored bytes do not match
NoReleaseBeforeVerify == Unit => \A k \in 1..Len(out) : ~IsBad(out[k])
\* C14: on a valid file a chunk request returns exactly that chunk, whatever came before
AllOk == (\A c \in Chunks : status[c] = "ok") /\ flen = N * Size          \* a valid file: every chunk intact and all of it there
HistoryIndependence == AllOk => \A k \in 1..Len(rets) : rets[k].req # 0 => (rets[k].ret = Size /\ rets[k].cells = Content(rets[k].req))
\* C02 (sequential reads only): what successful reads delivered is a prefix of the content, in order
\* (a call that failed - possible on a valid file only when an allocation was refused - ends the obligation: C02 speaks of
\* executions in which every call succeeded)
SequentialPrefix == (AllOk /\ \A k \in 1..Len(rets) : rets[k].req = 0 /\ rets[k].ret >= 0) =>
                       \A k \in 1..Len(out) : out[k] = Cell(((k - 1) \div Size) + 1, ((k - 1) % Size) + 1)
\* C02: the end of the stream is reported to a sequential reader only after every cell the index promises was delivered
\* (a truncated file, or an index promising more than the file holds, is never read "to the end" with success)
NoSilentTruncation == eosLen # 0 - 1 => eosLen = N * Size
EveryCallReturns == [](pc = "loop" => <>(pc = "idle"))
=============================================================================
