------------------------------- MODULE MC_Pin -------------------------------
(* Generator: every history of at most MaxOps option calls followed by        *)
(* validate/read, with the results the contract determines (error state kept  *)
(* clear by the caller).  Terminal histories are printed as JSON and          *)
(* concretised into scripts for the real library.                             *)
EXTENDS Pin, TLC, Json, FiniteSets
CONSTANT MaxOps
VARIABLES hist, done
mcvars == <<pinvars, hist, done>>

Bools == {TRUE, FALSE}
B(x) == IF x THEN 1 ELSE 0

GSetType == \E t \in {"file", "other"} :
      LET r == B(prepD = None) IN
      /\ SetType(t, r, 0) /\ hist' = Append(hist, [op |-> "settype", t |-> t, ret |-> r])
GSetDigest == \E rl \in Bools, ah \in Bools, eq \in Bools :
      /\ (eq => rl /\ ah)
      /\ LET r == B(prepT # None /\ rl /\ ah) IN
         /\ SetDigest(rl, ah, eq, r, IF r = 1 \/ prepT = None THEN 0 ELSE 2)
         /\ hist' = Append(hist, [op |-> "setdigest", rightlen |-> rl, allhex |-> ah, eq |-> eq, ret |-> r])
GSetLen == \E x \in {"file", "other"} :
      /\ SetLen(x, 1, 0) /\ hist' = Append(hist, [op |-> "setlen", l |-> x, ret |-> 1])
GValidate == LET r == B(Matches) IN
      /\ ValidateLead(TRUE, r, 0, 0) /\ hist' = Append(hist, [op |-> "validate_lead", ret |-> r])
GReadLead == LET r == B(Matches) IN
      /\ ReadLead(TRUE, r, 0) /\ hist' = Append(hist, [op |-> "read_lead", ret |-> r])
GReadHeader == LET r == B(phase = "lead") IN
      /\ ReadHeader(TRUE, TRUE, r, 0) /\ hist' = Append(hist, [op |-> "read_header", ret |-> r])

Opt == (GSetType \/ GSetDigest \/ GSetLen) /\ Len(hist) < MaxOps /\ es = 0 /\ phase = "fresh" /\ atStart /\ done' = FALSE
Fin == \/ (GValidate /\ Len(hist) <= MaxOps /\ es = 0 /\ atStart /\ phase = "fresh" /\ done' = FALSE
              /\ (Len(hist) = 0 \/ hist[Len(hist)].op # "validate_lead"))
       \/ (GReadLead /\ es = 0 /\ atStart /\ phase = "fresh" /\ done' = FALSE)
       \/ (GReadHeader /\ phase = "lead" /\ es = 0 /\ done' = TRUE)

Init == PinInit /\ hist = <<>> /\ done = FALSE
Next == ~done /\ (Opt \/ Fin)
Spec == Init /\ [][Next]_mcvars

\* terminal = header read, or lead rejected, or context dead
Terminal == done \/ es = 2 \/ (~atStart /\ phase = "fresh")
Emit == Terminal => PrintT(<<"BEH", ToJson(hist)>>)
=============================================================================
