SPECIFICATION TSpec
CONSTANTS
 Variant = "code"
INVARIANTS SuccessMeansOutput Conforms
CHECK_DEADLOCK FALSE
