SPECIFICATION Spec
CONSTANTS
  N = 2
  Steps = 2
  SharedScratch = TRUE
INVARIANT SameAsSerialModel
CHECK_DEADLOCK FALSE
