SPECIFICATION Spec
CONSTANTS
  N = 3
  Size = 3
  MaxRead = 4
  Unit = FALSE
  Variant = "fixed"
  MaxCalls = 4
INVARIANTS NoReleaseBeforeVerify HistoryIndependence SequentialPrefix
PROPERTY EveryCallReturns
CHECK_DEADLOCK FALSE
