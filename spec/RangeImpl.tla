----------------------------- MODULE RangeImpl -----------------------------
(* Implementation-shaped model of src/lib/dl/range.c: range_add with its      *)
(* three cases, range_merge_combined, the limit test of                       *)
(* zck_get_missing_range, the range index built by index_new_chunk, and the   *)
(* renderer zck_get_range_char with its buffer (capacity Cap, growth x1.5,    *)
(* snprintf truncation semantics).  TLC evaluates it on every table of up to  *)
(* MaxN chunks with stored sizes in Sizes, every validity vector and every    *)
(* limit in Limits, and compares with the Range contract.                     *)
EXTENDS Naturals, Sequences, SequencesExt, FiniteSets, TLC
CONSTANTS MaxN, Sizes, Limits, Hdr, Cap, ItemLens, Variant, Known

RC == INSTANCE Range
Code == INSTANCE RangeCode

VARIABLES sizes, v, m, pc, res, ritems, rout
vars == <<sizes, v, m, pc, res, ritems, rout>>

Table(sz) == [i \in 1..Len(sz) |-> [clen |-> sz[i], start |-> RC!SumSeq(SubSeq(sz, 1, i - 1))]]

\* ---- zck_get_range_char on items whose rendered lengths ("s-e,") are given; the output is the
\* sequence of characters: item k contributes <<k,1>>..<<k,len-1>> and the comma <<k,0>>
ItemText(k, len) == [c \in 1..len |-> IF c = len THEN <<k, 0>> ELSE <<k, c>>]
RECURSIVE Render(_, _, _, _, _)
Render(lens, k, out, loc, cap) ==
    IF k > Len(lens)
    THEN IF loc = 0 THEN (IF Variant = "fixed" THEN <<>> ELSE << <<"underflow">> >>)
         ELSE SubSeq(out, 1, loc - 1)                          \* output[loc-1] = 0 : drop the final comma
    ELSE LET len == lens[k]
             room == cap - loc
             too == IF Variant = "fixed" THEN len >= room ELSE len > room IN
         IF too THEN Render(lens, k, out, loc, (cap * 3) \div 2)          \* grow and retry the same item
         ELSE \* snprintf wrote min(len, room-1) characters and a NUL
              LET wrote == IF len < room THEN len ELSE room - 1
                  out2 == SubSeq(out, 1, loc) \o SubSeq(ItemText(k, len), 1, wrote) \o
                          (IF wrote < len THEN << <<"NUL">> >> ELSE <<>>)
              IN Render(lens, k + 1, out2, loc + len, cap)
\* a C string ends at the first NUL
CString(s) == LET nul == { i \in 1..Len(s) : s[i] = <<"NUL">> } IN
              IF nul = {} THEN s ELSE SubSeq(s, 1, (CHOOSE i \in nul : \A j \in nul : i <= j) - 1)
Expected(lens) == LET all == FlattenSeq([k \in 1..Len(lens) |-> ItemText(k, lens[k])]) IN
                  IF all = <<>> THEN <<>> ELSE SubSeq(all, 1, Len(all) - 1)

SizeVecs == UNION { [1..n -> Sizes] : n \in 1..MaxN }
LenVecs  == UNION { [1..n -> ItemLens] : n \in 0..4 }

\* the request and the renderer are independent: explore them separately
Init == /\ \/ /\ sizes \in SizeVecs /\ v \in [1..Len(sizes) -> {0, 1}]
              /\ m \in { (IF x = 99 THEN 0 - 1 ELSE x) : x \in Limits }   \* 99 stands for "unlimited" (-1)
              /\ ritems = <<>>
           \/ /\ sizes = <<1>> /\ v = <<0>> /\ m = 0 - 1 /\ ritems \in LenVecs
        /\ pc = "call" /\ res = <<>> /\ rout = <<>>

Call == /\ pc = "call" /\ pc' = "done"
        /\ res' = Code!MissingRange(Table(sizes), v, m, Hdr)
        /\ rout' = CString(Render(ritems, 1, <<>>, 0, Cap))
        /\ UNCHANGED <<sizes, v, m, ritems>>
Next == Call \/ (pc = "done" /\ UNCHANGED vars)
Spec == Init /\ [][Next]_vars

\* Known finding C10-zero-length-inverted: a missing chunk whose stored size is 0 yields the
\* inverted range [s, s-1] (range.c:106).  While it is listed, inputs that mark a zero-length
\* chunk missing are excluded here and handled by the named deviation of Trace_Range.
ZeroLenMissing == \E i \in 1..Len(sizes) : sizes[i] = 0 /\ v[i] = 0
RequestIsGood == (pc = "done" /\ ~("C10-zero-length-inverted" \in Known /\ ZeroLenMissing)) =>
    RC!Good(Table(sizes), Hdr, v, m, res.items, res.count, res.X, Code!Witness(Table(sizes), res.X, res.items, Hdr))
StringIsList == pc = "done" => rout = Expected(ritems)
=============================================================================
