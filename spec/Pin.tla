-------------------------------- MODULE Pin --------------------------------
(* Contract of pinned header validation (C07).                                *)
(*                                                                            *)
(* The caller may pin, before the lead is read, the expected header checksum  *)
(* type, the header checksum (hex string) and the total header length.  The   *)
(* lead is accepted iff every pinned value equals the file's stored value.    *)
(* A digest string is accepted iff it has exactly the right length for the    *)
(* pinned type and consists of hex digits only; it is compared by value.      *)
(*                                                                            *)
(* The actions take the call's *facts* (computed by the reference codec from  *)
(* the arguments and the file's bytes) and the observed result; the same      *)
(* actions are used to generate histories (MC_Pin) and to validate recorded   *)
(* traces of the real library (Trace_Pin).                                    *)
EXTENDS Naturals, Sequences

None == "none"

VARIABLES prepT,    \* None | "file" | "other"       pinned type relative to the file's
          prepD,    \* None | "file" | "other"       pinned digest value relative to the file's
          prepL,    \* None | "file" | "other"
          es,       \* error state of the context before the next call: 0 ok, 1 error, 2 fatal
          phase,    \* "fresh" | "lead" (lead accepted) | "open" (header read)
          atStart   \* stream position is the start of the file
pinvars == <<prepT, prepD, prepL, es, phase, atStart>>

PinInit == prepT = None /\ prepD = None /\ prepL = None /\ es = 0 /\ phase = "fresh" /\ atStart = TRUE

Matches == /\ prepT \in {None, "file"}
           /\ prepD \in {None, "file"}
           /\ prepL \in {None, "file"}

\* t: "file" or "other" (a supported type different from the file's), es2: error state after the call
\* fault: an environment fault (a refused allocation, a failing system call) hit this call: it may fail, but what it reports
\* must still be true - a setter that returns 1 has put its pin in force, an accepted lead carries the pinned values
SetTypeX(t, ret, es2, fault) ==
    /\ phase = "fresh"
    /\ ret = 1 => prepD = None             \* the type must be pinned before the digest
    /\ (~fault /\ es = 0 /\ prepD = None) => ret = 1
    /\ prepT' = IF ret = 1 THEN t ELSE prepT
    /\ es' = es2 /\ UNCHANGED <<prepD, prepL, phase, atStart>>
SetType(t, ret, es2) == SetTypeX(t, ret, es2, FALSE)

\* facts: rightlen = the string has exactly 2*digest_size(pinned type) characters,
\*        allhex   = every character is in 0-9a-fA-F,
\*        eq       = it denotes the file's stored header checksum
SetDigestX(rightlen, allhex, eq, ret, es2, fault) ==
    /\ phase = "fresh"
    /\ ret = 1 => (prepT # None /\ rightlen /\ allhex)
    /\ (~fault /\ es = 0 /\ prepT # None /\ rightlen /\ allhex) => ret = 1
    /\ prepD' = IF ret = 1 THEN (IF eq /\ prepT = "file" THEN "file" ELSE "other") ELSE prepD
    /\ es' = es2 /\ UNCHANGED <<prepT, prepL, phase, atStart>>
SetDigest(rightlen, allhex, eq, ret, es2) == SetDigestX(rightlen, allhex, eq, ret, es2, FALSE)

SetLenX(l, ret, es2, fault) ==
    /\ phase = "fresh"
    /\ (~fault /\ es = 0) => ret = 1
    /\ prepL' = IF ret = 1 THEN l ELSE prepL
    /\ es' = es2 /\ UNCHANGED <<prepT, prepD, phase, atStart>>
SetLen(l, ret, es2) == SetLenX(l, ret, es2, FALSE)

\* lead-only validation: same verdict as reading the lead, consumes nothing, changes nothing
ValidateLeadX(leadOk, ret, es2, posAfter, fault) ==
    /\ phase = "fresh"
    /\ ret = 1 => (leadOk /\ Matches)
    /\ (~fault /\ es = 0 /\ atStart /\ leadOk /\ Matches) => ret = 1
    /\ (~fault /\ es = 0 /\ atStart) => posAfter = 0                      \* does not consume
    /\ atStart' = (posAfter = 0)
    /\ es' = es2 /\ UNCHANGED <<prepT, prepD, prepL, phase>>
ValidateLead(leadOk, ret, es2, posAfter) == ValidateLeadX(leadOk, ret, es2, posAfter, FALSE)

ReadLeadX(leadOk, ret, es2, fault) ==
    /\ phase = "fresh"
    /\ ret = 1 => (leadOk /\ Matches)
    /\ (~fault /\ es = 0 /\ atStart /\ leadOk /\ Matches) => ret = 1
    /\ phase' = IF ret = 1 THEN "lead" ELSE phase
    /\ atStart' = FALSE
    /\ es' = es2 /\ UNCHANGED <<prepT, prepD, prepL>>
ReadLead(leadOk, ret, es2) == ReadLeadX(leadOk, ret, es2, FALSE)

\* sealed = the stored header checksum equals the checksum of the header bytes (C06)
ReadHeaderX(sealed, wellFormed, ret, es2, fault) ==
    /\ ret = 1 => (phase = "lead" /\ sealed /\ wellFormed)
    /\ (~fault /\ es = 0 /\ phase = "lead" /\ sealed /\ wellFormed) => ret = 1
    /\ phase' = IF ret = 1 THEN "open" ELSE phase
    /\ es' = es2 /\ UNCHANGED <<prepT, prepD, prepL, atStart>>
ReadHeader(sealed, wellFormed, ret, es2) == ReadHeaderX(sealed, wellFormed, ret, es2, FALSE)

\* the caller rewinds the descriptor and clears a non-fatal error
Rewind(es2) == /\ atStart' = (phase = "fresh") /\ es' = es2 /\ es2 <= es
               /\ UNCHANGED <<prepT, prepD, prepL, phase>>

\* the caller initialises the same context for reading again (zck_init_adv_read on the same descriptor) before the lead
\* is read: the pins already set stay in force
Reinit(ret, es2) == /\ phase = "fresh" /\ es' = es2
                    /\ IF es = 2 THEN ret = 0 /\ es2 = 2 ELSE ret = 1 /\ es2 <= es      \* (a context in the fatal state refuses every call)
                    /\ UNCHANGED <<prepT, prepD, prepL, phase, atStart>>

\* the bytes behind the descriptor are replaced by another file of the same layout (same checksum type, same lengths,
\* another header checksum) while the context and its pins stay: a pinned digest that was the file's is now another one
Swap == /\ phase = "fresh"
        /\ prepD' = IF prepD = "file" THEN "other" ELSE prepD
        /\ atStart' = TRUE                      \* (the caller rewinds the descriptor)
        /\ UNCHANGED <<prepT, prepL, es, phase>>

\* ---- what the property promises
\* a lead accepted under pinning carries exactly the pinned values
AcceptedImpliesEqual == phase \in {"lead", "open"} => Matches
=============================================================================
