SPECIFICATION Spec
CONSTANTS
  N = 4
  L = 2
  MaxRounds = 4
  Keep = {}
INVARIANTS ValidImpliesGood Confinement NoValidChunkWiped Completes
CHECK_DEADLOCK FALSE
