SPECIFICATION Spec
CONSTANT Strict = TRUE
POSTCONDITION Accepted
CHECK_DEADLOCK FALSE
