---- MODULE MC_ZckTool ----
EXTENDS ZckTool
MCSplits == { <<"a">>, <<"a", "b">>, <<"a", "b", "a">>, <<"a", "a", "b">> }
====
