SPECIFICATION TSpec
CONSTANTS
 NC = 3
 MaxLen = 3
 B = 2
 MaxBad = 9
 Variant = "fixed"
 Patterns = {"same", "distinct"}
INVARIANTS ExactClassification DataVerdict Restored Conforms
CHECK_DEADLOCK FALSE
