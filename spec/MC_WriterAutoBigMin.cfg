SPECIFICATION Spec
CONSTANTS
  Alphabet = {"a", "b"}
  MaxLen = 6
  W = 2
  CutSet <- MCCutSet
  AutoMin = 3
  AutoMax = 2
  ChunkMin = 3
  ChunkMax = 5
  Manual = FALSE
  Variant = "fixed"
INVARIANTS Tiling NothingInvented SegmentationIndependence
PROPERTY EveryCallReturns
CHECK_DEADLOCK FALSE
