----------------------------- MODULE Trace_Delta -----------------------------
EXTENDS Delta, TLC, Json, IOUtils
TraceLog == ndJsonDeserialize(IOEnv.TRACE)
VARIABLE l
tvars == <<dvars, l>>
E == TraceLog[l]
IsEvent(op) == l <= Len(TraceLog) /\ TraceLog[l].op = op /\ l' = l + 1

TBegin   == IsEvent("begin")   /\ UNCHANGED dvars
TStart   == IsEvent("start")   /\ DStart(E.n, E.disk)
TScan    == IsEvent("scan")    /\ DScan(E.vec, E.disk, E.sized)
TRescan  == IsEvent("rescan")  /\ DRescan(E.vec, E.disk, E.sized)
TScanF   == IsEvent("scanf")   /\ DScanFaulty(E.vec, E.disk, E.sized)
TCopy    == IsEvent("copy")    /\ DCopy(E.vec, E.disk, E.zero, E.matchable, E.usable, E.srcSame, E.outside)
TCopyF   == IsEvent("copyf")   /\ DCopyFaulty(E.vec, E.disk, E.srcSame)
TFindM   == IsEvent("findmatch") /\ DFindMatch(E.vec, E.pairOk)
TReset   == IsEvent("resetfailed") /\ DResetFailed(E.vec)
TRound   == IsEvent("round")   /\ DRound(E.X, E.vec, E.disk, E.zero, E.payloadOk, E.wellFormed, E.complete, E.anyErr, E.outside, E.limit, E.nranges)
TRoundF  == IsEvent("roundfault") /\ DRoundFault(E.firedErr, E.anyErr)
TSetBase == IsEvent("setbase") /\ DSetBase(E.file)
TSameBase == IsEvent("samebase") /\ DSameBase(E.file)
TFinish  == IsEvent("finish")  /\ DFinish(E.valRet, E.eqB, E.sized, E.must, E.bValid)
TTool    == IsEvent("toolrun") /\ DToolRun(E.status, E.eqB, E.X, E.wholeChunks, E.disk, E.usable, E.sized, E.full, E.must, E.bValid)
TCrash   == IsEvent("killed")  /\ DCrash

Init == DInit /\ l = 1
Next == TBegin \/ TStart \/ TScan \/ TRescan \/ TScanF \/ TCopy \/ TCopyF \/ TFindM \/ TReset \/ TRound \/ TRoundF \/ TSetBase \/ TSameBase \/ TFinish \/ TTool \/ TCrash
Spec == Init /\ [][Next]_tvars
Accepted == /\ PrintT(<<"MATCHED", TLCGet("stats").diameter - 1, Len(TraceLog)>>)
            /\ TLCGet("stats").diameter - 1 = Len(TraceLog)
=============================================================================
