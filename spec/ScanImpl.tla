------------------------------ MODULE ScanImpl ------------------------------
(* Implementation-shaped model of the validity scan (C09, C11):              *)
(* validate_checksums() of src/lib/hash/hash.c - behind zck_find_valid_chunks *)
(* and zck_validate_checksums - and zck_validate_data_checksum().             *)
(*                                                                            *)
(* One cell stands for half a BUF_SIZE block (B = 2 cells per block).  The    *)
(* index promises NC chunks of lens[i] stored cells whose wanted contents are *)
(* want; the descriptor shows disk, a sequence of any length whose cells are  *)
(* either the wanted cell ("g" at that position) or something else ("x").  A  *)
(* checksum is modelled by the sequence of cells fed to it: two digests are   *)
(* equal exactly when the same cells were hashed (no collisions).  The scan   *)
(* buffer keeps its previous contents where a read does not overwrite them.   *)
(*                                                                            *)
(* Variants: "fixed" the code as it is; "stale" the pinned code (a short read *)
(* was not noticed and the previous buffer contents were hashed: a file cut   *)
(* inside repeated blocks validated, C09-short-read-stale-buffer); "noreinit" *)
(* a seeded slip (the whole-data digest is not re-initialised at the start:   *)
(* a scan after a read differs); "skipfirst" the pinned handling of a first   *)
(* entry with stored bytes and no data (C09-first-entry-stored-bytes).        *)
EXTENDS Naturals, Sequences, FiniteSets, TLC
CONSTANTS NC, MaxLen, B, MaxBad, Variant, Patterns

Sum(s) == LET RECURSIVE S(_) S(k) == IF k = 0 THEN 0 ELSE s[k] + S(k - 1) IN S(Len(s))
Min(a, b) == IF a < b THEN a ELSE b

VARIABLES lens,      \* stored length of every chunk, in cells
          nodata,    \* the first entry has no data (uncompressed length 0): TRUE / FALSE
          pattern,   \* "same": every wanted cell has the same contents; "distinct": all differ
          disk,      \* what the descriptor shows: "g" = the wanted cell of that position, "x" = other bytes
          uncomp, headerOnly, fullOk,   \* flags of the file; fullOk: the stored whole-data digest is that of want
          prefed,    \* cells already fed to the running whole-data digest by an earlier read on the context
          call,      \* "scan" | "valdata"
          pc, i, rlen, short, pos, buf, chash, fhash, valid, allGood, ret
vars == <<lens, nodata, pattern, disk, uncomp, headerOnly, fullOk, prefed, call,
          pc, i, rlen, short, pos, buf, chash, fhash, valid, allGood, ret>>

Total == Sum(lens)
Start(k) == Sum(SubSeq(lens, 1, k - 1))                  \* cells in front of chunk k
\* the contents of the wanted cell at position p (1-based), and of what the descriptor shows there
Want(p) == <<"w", IF pattern = "same" THEN 0 ELSE p>>
OnDisk(p) == IF disk[p] = "g" THEN Want(p) ELSE <<"x", p>>
WantSeq(a, n) == [k \in 1..n |-> Want(a + k)]
BadCells == {p \in 1..Len(disk) : disk[p] = "x"}

\* the family of cases: index layout, contents pattern, what is on disk, flags, earlier use of the context, the call
Family == /\ lens \in [1..NC -> 0..MaxLen]
          /\ nodata \in (IF Variant = "skipfirst" THEN BOOLEAN ELSE {FALSE})
          /\ pattern \in Patterns
          /\ \E n \in 0..(Total + 1) : disk \in [1..n -> {"g", "x"}]
          /\ Cardinality(BadCells) <= MaxBad
          /\ uncomp \in BOOLEAN /\ headerOnly \in BOOLEAN /\ fullOk \in BOOLEAN
          /\ ~(uncomp /\ headerOnly)
          /\ prefed \in (IF headerOnly THEN {0} ELSE {0, 1})    \* no streaming read on a detached header
          /\ call \in {"scan", "valdata"}
\* the state of the scan before its first step
Run0 == /\ pc = "start" /\ i = 1 /\ rlen = 0 /\ short = FALSE /\ pos = 0
        /\ buf = [k \in 1..B |-> <<"z", 0>>]
        /\ chash = <<>> /\ fhash = [k \in 1..prefed |-> <<"e", 0>>]
        /\ valid = [k \in 1..NC |-> 0] /\ allGood = TRUE /\ ret = "none"
Init == Family /\ Run0

\* zck_validate_data_checksum delegates to the scan for files with uncompressed-source checksums
IsScan == call = "scan" \/ uncomp

\* hash_init(check_full_hash); seek_data(data_offset)
StartStep ==
    /\ pc = "start"
    /\ fhash' = IF Variant = "noreinit" THEN fhash ELSE <<>>
    /\ pos' = 0 /\ i' = 1
    /\ pc' = IF IsScan THEN "chunk" ELSE "dchunk"
    /\ UNCHANGED <<lens, nodata, pattern, disk, uncomp, headerOnly, fullOk, prefed, call, rlen, short, buf, chash, valid, allGood, ret>>

\* head of the for loop over the index
Chunk ==
    /\ pc = "chunk"
    /\ IF i > NC THEN pc' = "finish" /\ UNCHANGED <<i, valid, chash, rlen, short>>
       ELSE IF i = 1 /\ (lens[1] = 0 \/ (Variant = "skipfirst" /\ nodata))
            THEN /\ valid' = [valid EXCEPT ![1] = 1]
                 /\ IF headerOnly THEN pc' = "finish" /\ UNCHANGED i ELSE pc' = "chunk" /\ i' = i + 1
                 /\ UNCHANGED <<chash, rlen, short>>
            ELSE /\ chash' = <<>> /\ rlen' = 0 /\ short' = FALSE /\ pc' = "blk"
                 /\ UNCHANGED <<i, valid>>
    /\ UNCHANGED <<lens, nodata, pattern, disk, uncomp, headerOnly, fullOk, prefed, call, pos, buf, fhash, allGood, ret>>

\* one turn of `while(rlen < idx->comp_length)`: read_data of at most a block; a regular file returns what is there
Blk ==
    /\ pc = "blk"
    /\ IF rlen >= lens[i] THEN pc' = "verdict" /\ UNCHANGED <<rlen, short, pos, buf, chash, fhash>>
       ELSE LET rsize == Min(B, lens[i] - rlen)
                there == IF Len(disk) > pos THEN Len(disk) - pos ELSE 0
                rb    == Min(rsize, there)
                nbuf  == [k \in 1..B |-> IF k <= rb THEN OnDisk(pos + k) ELSE buf[k]]
                fed   == SubSeq(nbuf, 1, rsize) IN
            /\ buf' = nbuf /\ pos' = pos + rb
            /\ IF rb # rsize /\ Variant # "stale"
               THEN short' = TRUE /\ pc' = "verdict" /\ UNCHANGED <<rlen, chash, fhash>>
               ELSE /\ chash' = chash \o fed
                    /\ fhash' = IF uncomp THEN fhash ELSE fhash \o fed
                    /\ rlen' = rlen + rsize /\ pc' = "blk" /\ UNCHANGED short
    /\ UNCHANGED <<lens, nodata, pattern, disk, uncomp, headerOnly, fullOk, prefed, call, i, valid, allGood, ret>>

\* validate_chunk (a chunk without stored bytes compares the zero digest, which a well-formed index holds)
Verdict ==
    /\ pc = "verdict"
    /\ LET v == IF short THEN 0 - 1
                ELSE IF chash = WantSeq(Start(i), lens[i]) THEN 1 ELSE 0 - 1 IN
        /\ valid' = [valid EXCEPT ![i] = v]
        /\ allGood' = (allGood /\ v = 1)
    /\ IF headerOnly THEN pc' = "finish" /\ UNCHANGED i ELSE pc' = "chunk" /\ i' = i + 1
    /\ UNCHANGED <<lens, nodata, pattern, disk, uncomp, headerOnly, fullOk, prefed, call, rlen, short, pos, buf, chash, fhash, ret>>

\* validate_file, the invalidation of every chunk, the seek back and the re-initialised digest
Finish ==
    /\ pc = "finish"
    /\ LET dataGood == fullOk /\ fhash = WantSeq(0, Total)
           vf == IF uncomp \/ headerOnly THEN (IF allGood THEN 1 ELSE 0 - 1)
                 ELSE IF allGood THEN (IF dataGood THEN 1 ELSE 0 - 1) ELSE 0 - 1 IN
        /\ ret' = vf
        /\ valid' = IF ~(uncomp \/ headerOnly) /\ allGood /\ ~dataGood THEN [k \in 1..NC |-> 0 - 1] ELSE valid
    /\ pos' = 0 /\ fhash' = <<>> /\ pc' = "done"
    /\ UNCHANGED <<lens, nodata, pattern, disk, uncomp, headerOnly, fullOk, prefed, call, i, rlen, short, buf, chash, allGood>>

\* zck_validate_data_checksum: the data section in blocks per chunk, fed to the whole-data digest only
DChunk ==
    /\ pc = "dchunk"
    /\ IF i > NC \/ short THEN pc' = "dtail" /\ UNCHANGED <<rlen, i>>
       ELSE pc' = "dblk" /\ rlen' = lens[i] /\ UNCHANGED i
    /\ UNCHANGED <<lens, nodata, pattern, disk, uncomp, headerOnly, fullOk, prefed, call, short, pos, buf, chash, fhash, valid, allGood, ret>>

DBlk ==
    /\ pc = "dblk"
    /\ IF rlen = 0 THEN pc' = "dchunk" /\ i' = i + 1 /\ UNCHANGED <<rlen, short, pos, buf, fhash>>
       ELSE LET rsize == Min(B, rlen)
                there == IF Len(disk) > pos THEN Len(disk) - pos ELSE 0
                rb    == Min(rsize, there)
                nbuf  == [k \in 1..B |-> IF k <= rb THEN OnDisk(pos + k) ELSE buf[k]] IN
            /\ buf' = nbuf /\ pos' = pos + rb
            /\ IF rb # rsize THEN short' = TRUE /\ pc' = "dchunk" /\ UNCHANGED <<rlen, fhash, i>>
               ELSE /\ fhash' = fhash \o SubSeq(nbuf, 1, rsize) /\ rlen' = rlen - rsize
                    /\ pc' = "dblk" /\ UNCHANGED <<short, i>>
    /\ UNCHANGED <<lens, nodata, pattern, disk, uncomp, headerOnly, fullOk, prefed, call, chash, valid, allGood, ret>>

DTail ==
    /\ pc = "dtail"
    /\ ret' = IF short THEN 0 ELSE IF fullOk /\ fhash = WantSeq(0, Total) THEN 1 ELSE 0 - 1
    /\ pos' = 0 /\ fhash' = <<>> /\ pc' = "done"
    /\ UNCHANGED <<lens, nodata, pattern, disk, uncomp, headerOnly, fullOk, prefed, call, i, rlen, short, buf, chash, valid, allGood>>

Step == StartStep \/ Chunk \/ Blk \/ Verdict \/ Finish \/ DChunk \/ DBlk \/ DTail
Next == Step \/ (pc = "done" /\ UNCHANGED vars)
Spec == Init /\ [][Next]_vars /\ WF_vars(Step)

-----------------------------------------------------------------------------
\* What the property promises, stated on (lens, want, disk) alone
ChunkGood(k) == \/ lens[k] = 0            \* no stored bytes: the zero digest of a well-formed index
                \/ /\ Start(k) + lens[k] <= Len(disk)
                   /\ \A p \in (Start(k) + 1)..(Start(k) + lens[k]) : disk[p] = "g"
Scanned == IF headerOnly THEN {1} ELSE 1..NC
AllGood == \A k \in Scanned : ChunkGood(k)
DataGood == fullOk /\ Len(disk) >= Total /\ \A p \in 1..Total : disk[p] = "g"
NeedsData == ~(uncomp \/ headerOnly)

\* C09: each chunk valid exactly when its stored bytes hash to its checksum; all failed when only the whole-data
\* checksum disagrees; overall success only when everything matches
ExactClassification ==
    (pc = "done" /\ IsScan) =>
        IF NeedsData /\ AllGood /\ ~DataGood
        THEN ret = 0 - 1 /\ \A k \in 1..NC : valid[k] = 0 - 1
        ELSE /\ \A k \in Scanned : valid[k] = (IF ChunkGood(k) THEN 1 ELSE 0 - 1)
             /\ \A k \in (1..NC) \ Scanned : valid[k] = 0
             /\ ret = (IF AllGood THEN 1 ELSE 0 - 1)
DataVerdict == (pc = "done" /\ ~IsScan) => ((ret = 1) <=> DataGood)
\* C09: the descriptor is back at the start of the data and the running digest is fresh
Restored == pc = "done" => pos = 0 /\ fhash = <<>>
Terminates == <>(pc = "done")
=============================================================================
