SPECIFICATION Spec
CONSTANTS
  MaxMissing = 300
  Caps = {1, 2, 3, 6, 7, 8, 126, 127, 128, 254, 255, 256, 1000}
  Variant = "code"
INVARIANTS IndexInTable MaxFromLadder ShrinksAfterRefusal BoundedRequests
PROPERTY Terminates
