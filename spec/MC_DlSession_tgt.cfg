SPECIFICATION Spec
CONSTANTS
  N = 3
  L = 2
  MaxRounds = 3
  Keep = {"tgt"}
INVARIANTS ValidImpliesGood Confinement NoValidChunkWiped Completes
CHECK_DEADLOCK FALSE
