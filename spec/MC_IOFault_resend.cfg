SPECIFICATION Spec
CONSTANTS N = 4
 B = 2
 Variant = "resend"
INVARIANTS CopyOk NoInvent
PROPERTY Terminates
