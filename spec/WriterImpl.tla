----------------------------- MODULE WriterImpl -----------------------------
(* Implementation-shaped model of the writer's chunker (src/lib/comp/comp.c:  *)
(* zck_write with its manual and automatic loops, zck_end_chunk, and the      *)
(* final end-of-chunk of zck_close).  Content is a sequence over a tiny        *)
(* alphabet, the rolling hash is a window of the last W bytes fed since the   *)
(* last reset and "the hash matches" is an arbitrary predicate on the window  *)
(* (CutSet), so that cuts, refused cuts (below the minimum) and forced cuts   *)
(* (at the maximum) all occur.  The user delivers the content through         *)
(* zck_write calls of arbitrary sizes and, in manual mode, calls              *)
(* zck_end_chunk at arbitrary points.                                         *)
(*                                                                            *)
(* Checked (C01, C16): the chunks tile the content (no loss, duplication,     *)
(* reordering), the chunk list is a function of the content only              *)
(* (segmentation independence), prefix locality, min/max, and every call      *)
(* returns (liveness).                                                        *)
EXTENDS Naturals, Sequences, SequencesExt, FiniteSets, TLC
CONSTANTS Alphabet, MaxLen, W, CutSet, AutoMin, AutoMax, ChunkMin, ChunkMax, Manual, Variant

VARIABLES content, pos,              \* the whole content; how much of it has been handed to zck_write so far
          dc,                        \* comp.dc_data_size: bytes of the chunk being built
          win,                       \* bytes fed to the rolling hash since the last reset (only the last W matter)
          chunks,                    \* finished chunks (as sequences of bytes)
          call, loc, locSize, i,     \* the zck_write call in progress: call \in {"idle","auto","manual"}
          closed,
          tiled,                     \* ghost: run 1 tiled the content
          run, chunks1               \* the content is written twice with independent segmentations; chunks1 = result of run 1
vars == <<content, pos, dc, win, chunks, call, loc, locSize, i, closed, run, chunks1, tiled>>

Contents == UNION { [1..n -> Alphabet] : n \in 0..MaxLen }
LastN(s, n) == IF Len(s) <= n THEN s ELSE SubSeq(s, Len(s) - n + 1, Len(s))
HashCut(w) == Len(w) >= W /\ LastN(w, W) \in CutSet          \* output 1 (no match) until the window is full
\* The real table has no byte value whose constant window matches the mask (the check verifies this on
\* buzhash.c), so a refused cut cannot repeat forever on the re-fed byte; the model's CutSet must respect that.
ASSUME \A w \in CutSet : \E k \in 1..Len(w) : w[k] # w[1]
Flat(cs) == FlattenSeq(cs)
Pending == SubSeq(content, Len(Flat(chunks)) + 1, Len(Flat(chunks)) + dc)

EffAutoMin == IF Variant = "fixed" /\ AutoMin > AutoMax THEN AutoMax ELSE AutoMin
\* (second repair, found by TLC on MC_WriterAutoBigMin.cfg: a configured minimum above the automatic maximum made
\* zck_end_chunk refuse the forced cut for ever)
EffChunkMin == IF Variant = "fixed" /\ ~Manual /\ ChunkMin > AutoMax THEN AutoMax ELSE ChunkMin

Init == /\ content \in Contents /\ pos = 0 /\ dc = 0 /\ win = <<>> /\ chunks = <<>>
        /\ call = "idle" /\ loc = 0 /\ locSize = 0 /\ i = 0 /\ closed = FALSE
        /\ run = 1 /\ chunks1 = <<>> /\ tiled = TRUE

\* zck_end_chunk: refuses below chunk_min_size, otherwise resets the rolling hash and finishes the chunk
EndChunk(d, w, cs, minsz) ==
    IF d < minsz THEN [dc |-> d, win |-> w, chunks |-> cs]
    ELSE IF d = 0 THEN [dc |-> 0, win |-> <<>>, chunks |-> cs]
    ELSE [dc |-> 0, win |-> <<>>, chunks |-> Append(cs, SubSeq(content, Len(Flat(cs)) + 1, Len(Flat(cs)) + d))]

\* the user calls zck_write(src, n)
StartWrite == /\ call = "idle" /\ ~closed /\ pos < Len(content)
              /\ \E n \in 1..(Len(content) - pos) :
                    /\ loc' = pos /\ locSize' = n /\ i' = 0 /\ pos' = pos + n
                    /\ call' = IF Manual THEN "manual" ELSE "auto"
              /\ UNCHANGED <<content, dc, win, chunks, closed, run, chunks1, tiled>>

\* manual mode: while(dc + loc_size > max) { write up to max; end chunk }  then write the rest
ManualStep == /\ call = "manual"
              /\ IF dc + locSize > ChunkMax
                 THEN LET k == ChunkMax - dc
                          e == EndChunk(dc + k, win, chunks, EffChunkMin) IN
                      /\ dc' = e.dc /\ win' = e.win /\ chunks' = e.chunks
                      /\ loc' = loc + k /\ locSize' = locSize - k /\ UNCHANGED <<call, i>>
                 ELSE /\ dc' = dc + locSize /\ call' = "idle" /\ UNCHANGED <<win, chunks, loc, locSize, i>>
              /\ UNCHANGED <<content, pos, closed, run, chunks1, tiled>>

\* automatic mode: one iteration of  for(i = 0; i < loc_size; )
AutoStep == /\ call = "auto"
            /\ IF i < locSize
               THEN LET w2 == LastN(Append(win, content[loc + i + 1]), W) IN   \* buzhash_update(loc[i]): only the last W bytes matter
                    IF HashCut(w2) \/ dc + i >= AutoMax
                    THEN \* comp_write(loc, i); loc += i; loc_size -= i; i = 0
                         IF dc + i < EffAutoMin
                         THEN /\ dc' = dc + i /\ win' = w2 /\ loc' = loc + i /\ locSize' = locSize - i /\ i' = 0
                              /\ UNCHANGED <<chunks, call>>                   \* refused: the same byte is fed again
                         ELSE LET e == EndChunk(dc + i, w2, chunks, EffChunkMin) IN
                              /\ dc' = e.dc /\ win' = e.win /\ chunks' = e.chunks
                              /\ loc' = loc + i /\ locSize' = locSize - i /\ i' = 0 /\ UNCHANGED call
                    ELSE /\ win' = w2 /\ i' = i + 1 /\ UNCHANGED <<dc, chunks, loc, locSize, call>>
               ELSE /\ dc' = dc + locSize /\ call' = "idle" /\ UNCHANGED <<win, chunks, loc, locSize, i>>
            /\ UNCHANGED <<content, pos, closed, run, chunks1, tiled>>

\* manual mode only: the user calls zck_end_chunk between writes
UserEndChunk == /\ Manual /\ call = "idle" /\ ~closed
                /\ LET e == EndChunk(dc, win, chunks, EffChunkMin) IN dc' = e.dc /\ win' = e.win /\ chunks' = e.chunks
                /\ UNCHANGED <<content, pos, call, loc, locSize, i, closed, run, chunks1, tiled>>

\* zck_close: the last chunk is ended (orig: subject to the minimum, so a short last chunk is dropped)
Close == /\ call = "idle" /\ ~closed /\ pos = Len(content)
         /\ LET e == EndChunk(dc, win, chunks, IF Variant = "fixed" THEN 0 ELSE EffChunkMin) IN
               IF run = 1 /\ ~Manual
               THEN \* remember the result and write the same content again through other write sizes
                    /\ chunks1' = e.chunks /\ run' = 2 /\ pos' = 0 /\ dc' = 0 /\ win' = <<>> /\ chunks' = <<>>
                    /\ closed' = FALSE /\ tiled' = (Flat(e.chunks) = content)
               ELSE /\ dc' = e.dc /\ win' = e.win /\ chunks' = e.chunks /\ closed' = TRUE
                    /\ UNCHANGED <<pos, run, chunks1, tiled>>
         /\ UNCHANGED <<content, call, loc, locSize, i>>

Step == StartWrite \/ ManualStep \/ AutoStep \/ Close
Next == Step \/ UserEndChunk \/ (closed /\ UNCHANGED vars)
Spec == Init /\ [][Next]_vars /\ WF_vars(Step)

\* ---- properties
Tiling == tiled /\ (closed => Flat(chunks) = content)
SegmentationIndependence == (closed /\ ~Manual) => chunks = chunks1
NothingInvented == IsPrefix(Flat(chunks), content) /\ Len(Flat(chunks)) + dc <= pos
MinMax == ~Manual => \A k \in 1..Len(chunks) : (k < Len(chunks) \/ ~closed) => (Len(chunks[k]) >= EffAutoMin /\ Len(chunks[k]) <= AutoMax)
ManualMax == Manual => \A k \in 1..Len(chunks) : Len(chunks[k]) <= ChunkMax
EveryCallReturns == <>(closed)
=============================================================================
