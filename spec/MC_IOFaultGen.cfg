SPECIFICATION GSpec
CONSTANTS N = 4
 B = 2
 Variant = "code"
INVARIANTS CopyOk NoInvent Emit
CHECK_DEADLOCK FALSE
