SPECIFICATION Spec
CONSTANTS
  MaxOps = 3
  Alphabet = {"rp", "rq", "ra", "vc", "fv", "vd", "cd0", "cd1", "cdL", "cc1", "clr"}
INVARIANT Emit
CHECK_DEADLOCK FALSE
