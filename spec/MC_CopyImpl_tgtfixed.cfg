SPECIFICATION Spec
CONSTANTS
 NT = 2
 NS = 2
 MaxLen = 3
 B = 2
 MaxBad = 1
 ShortReads = FALSE
 Variant = "tgtfixed"
INVARIANTS ValidImpliesDisk Confinement FailedIsZero MustReuse

CHECK_DEADLOCK FALSE
