--------------------------- MODULE ThreadsContract ---------------------------
(* C19, contract half: what recorded executions must satisfy (see Threads.tla for the interleaving model). *)
EXTENDS Naturals, Sequences
\* ---- contract for recorded executions
\* the per-context footprint: no I/O buffer of the library lies in static storage, and the only process-wide
\* variables the library writes are the logging settings
Footprint(staticIoBufs, globalsWritten, allowed) ==
    /\ staticIoBufs = 0
    /\ \A i \in 1..Len(globalsWritten) : \E j \in 1..Len(allowed) : globalsWritten[i] = allowed[j]
\* every scenario run concurrently with others produced exactly what it produces alone
SameAsSerial(serialDigest, concurrentDigest) == serialDigest = concurrentDigest
=============================================================================
