--------------------------- MODULE ThreadsContract ---------------------------
(* C19, contract half: what recorded executions must satisfy (see Threads.tla for the interleaving model). *)
EXTENDS Naturals, Sequences
\* ---- contract for recorded executions
\* The per-context footprint.  (1) The library closes only descriptors it created itself: the descriptor table is
\* process-wide, closing a number that is not the library's own - closed before, or meanwhile handed to another
\* thread - is interference whatever the timing.  (2) An I/O buffer in static storage, or a process-wide variable
\* other than the logging settings that the library writes, is interference exactly when it is accessed without
\* synchronisation; `raced` is the happens-before race detector's verdict on library-owned memory for the same
\* scenarios run by several threads at once.  (3) The file mode creation mask is process-wide and umask() can only swap it:
\* a library call that changes it - even if it puts the old value back - changes, for that time, the mode of every file
\* another thread creates, and two such calls overlapping can leave it changed for good; umaskCalls counts the calls
\* made from the library's code.
Unexpected(globalsWritten, allowed) == \E i \in 1..Len(globalsWritten) : \A j \in 1..Len(allowed) : globalsWritten[i] # allowed[j]
Footprint(staticIoBufs, globalsWritten, allowed, foreignCloses, raced, umaskCalls) ==
    /\ foreignCloses = 0
    /\ umaskCalls = 0
    /\ raced => (staticIoBufs = 0 /\ ~Unexpected(globalsWritten, allowed))
\* every scenario run concurrently with others produced exactly what it produces alone
SameAsSerial(serialDigest, concurrentDigest) == serialDigest = concurrentDigest
\* (a data race reported on library-owned memory has no action at all: Trace_Threads rejects it)
=============================================================================
