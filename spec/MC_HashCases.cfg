SPECIFICATION Spec
INVARIANT Emit
CHECK_DEADLOCK FALSE
