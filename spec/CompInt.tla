------------------------------ MODULE CompInt ------------------------------
(* Contract of the compressed-integer codec (zchunk_format.txt, "(ci)"):      *)
(* little-endian base-128 digits, the top bit set on the LAST byte only.      *)
(* Values are digit sequences (least significant first), so nothing here      *)
(* needs more than TLC's 32-bit integers although the codec is 64 bit.        *)
EXTENDS Naturals, Sequences, FiniteSets

Digit(b) == b % 128
Term(b)  == b >= 128
MaxLen   == 10                      \* ceil(64/7)

Min(S) == CHOOSE x \in S : \A y \in S : x <= y

\* strip most significant zero digits; zero is the empty sequence
RECURSIVE Norm(_)
Norm(ds) == IF ds = <<>> THEN <<>>
            ELSE IF ds[Len(ds)] = 0 THEN Norm(SubSeq(ds, 1, Len(ds) - 1)) ELSE ds

\* the 10th digit carries only bit 63
Fits64(ds)  == Len(ds) <= 9 \/ (Len(ds) = 10 /\ ds[10] <= 1)
\* non-negative int: value < 2^31 ; digit 5 carries bits 28..34
FitsInt(ds) == \A k \in 1..Len(ds) : (k > 5 => ds[k] = 0) /\ (k = 5 => ds[k] <= 7)

\* Position (1-based) of the first terminator at or after offset off, inside the
\* first lim bytes of buf; 0 if there is none.
TermPos(buf, off, lim) ==
    LET hi   == IF lim < Len(buf) THEN lim ELSE Len(buf)
        cand == { k \in (off + 1)..hi : Term(buf[k]) }
    IN  IF cand = {} THEN 0 ELSE Min(cand)

\* What a correct decoder returns for the bytes buf[off+1 .. lim]:
\* the exact value and length, or a rejection (unterminated inside the buffer,
\* longer than ten bytes, or not representable in the destination).
Decode(buf, off, lim, kind) ==
    LET k == TermPos(buf, off, lim) IN
    IF k = 0 \/ k - off > MaxLen THEN [ok |-> FALSE, digits |-> <<>>, len |-> 0]
    ELSE LET ds == [j \in 1..(k - off) |-> Digit(buf[off + j])] IN
         IF ~Fits64(ds) \/ (kind = "int" /\ ~FitsInt(ds))
         THEN [ok |-> FALSE, digits |-> <<>>, len |-> 0]
         ELSE [ok |-> TRUE, digits |-> Norm(ds), len |-> k - off]

\* The bytes a correct encoder emits for a (normalised) value.
Encode(ds) ==
    IF ds = <<>> THEN << 128 >>
    ELSE [j \in 1..Len(ds) |-> IF j = Len(ds) THEN ds[j] + 128 ELSE ds[j]]

\* The set of buffer indices (1-based) a decoder may touch.
MayRead(buf, off, lim) == (off + 1)..(IF lim < Len(buf) THEN lim ELSE Len(buf))

EncodeDecode(ds) == Decode(Encode(ds), 0, Len(Encode(ds)), "size") =
                      [ok |-> TRUE, digits |-> ds, len |-> Len(Encode(ds))]
=============================================================================
