SPECIFICATION Spec
CONSTANTS
  Resp <- Resp1
  Req <- Req1
  Variant = "code"
INVARIANTS FinalState ValidImpliesGood Confinement
CHECK_DEADLOCK FALSE
