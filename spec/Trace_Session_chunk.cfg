SPECIFICATION Spec
CONSTANT Judge = {"chunk"}
POSTCONDITION Accepted
CHECK_DEADLOCK FALSE
