SPECIFICATION Spec
CONSTANTS
 NT = 3
 NS = 2
 MaxLen = 3
 B = 2
 MaxBad = 1
 ShortReads = FALSE
 Variant = "code"
INVARIANTS ValidImpliesDisk Confinement FailedIsZero MustReuse
PROPERTY Terminates
CHECK_DEADLOCK FALSE
