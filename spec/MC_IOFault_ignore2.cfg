SPECIFICATION Spec
CONSTANTS N = 4
 B = 2
 Variant = "ignore2"
INVARIANTS CopyOk NoInvent
PROPERTY Terminates
