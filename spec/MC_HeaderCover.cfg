SPECIFICATION Spec
CONSTANTS
  MaxCI = 10
  DigestSizes = {16, 20, 32, 64}
  MaxBody = 6
  Variant = "code"
INVARIANTS EveryByteCovered DigestNotSelfCovered
CHECK_DEADLOCK FALSE
