SPECIFICATION Spec
CONSTANTS
  N = 3
  L = 2
  MaxRounds = 3
  Keep = {"boundary"}
INVARIANTS ValidImpliesGood Confinement NoValidChunkWiped Completes
CHECK_DEADLOCK FALSE
