----------------------------- MODULE HeaderCover -----------------------------
(* C06, the arithmetic of the coverage: the bytes fed to the header checksum  *)
(* by read_header_from_file (header.c:116-129) - the constant 5-byte          *)
(* identifier, lead bytes [5, digestLoc), and header_length bytes starting at *)
(* lead_size - together with the stored digest field are exactly all header   *)
(* bytes, for every width of the two lead integers and every digest size.     *)
EXTENDS Naturals, FiniteSets
CONSTANTS MaxCI, DigestSizes, MaxBody, Variant

VARIABLES w1, w2, ds, body, done
vars == <<w1, w2, ds, body, done>>

DigestLoc == 5 + w1 + w2
LeadSize  == DigestLoc + ds
Total     == LeadSize + body

\* positions (0-based) whose value influences the computed checksum
Coverage ==
    (0..4)                                                  \* identifier (normalised to the full-file magic)
    \cup { i \in 0..(Total - 1) : 5 <= i /\ i < DigestLoc }
    \cup (IF Variant = "short"                              \* a seeded slip: one byte fewer
          THEN { i \in 0..(Total - 1) : LeadSize <= i /\ i < LeadSize + body - 1 }
          ELSE { i \in 0..(Total - 1) : LeadSize <= i /\ i < LeadSize + body })
DigestField == { i \in 0..(Total - 1) : DigestLoc <= i /\ i < LeadSize }

Init == w1 \in 1..MaxCI /\ w2 \in 1..MaxCI /\ ds \in DigestSizes /\ body \in 1..MaxBody /\ done = FALSE
Next == done' = TRUE /\ UNCHANGED <<w1, w2, ds, body>>
Spec == Init /\ [][Next]_vars

EveryByteCovered == Coverage \cup DigestField = 0..(Total - 1)
DigestNotSelfCovered == Coverage \cap DigestField = {}
=============================================================================
