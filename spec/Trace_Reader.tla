----------------------------- MODULE Trace_Reader -----------------------------
EXTENDS Reader, TLC, Json, IOUtils
TraceLog == ndJsonDeserialize(IOEnv.TRACE)
VARIABLE l
tvars == <<rvars, l>>
E == TraceLog[l]
IsEvent(op) == l <= Len(TraceLog) /\ TraceLog[l].op = op /\ l' = l + 1

TOpen     == IsEvent("open")     /\ ROpen(E.f, E.ret)
TRead     == IsEvent("read")     /\ RRead(E.n, E.ret, E.eq, E.bad)
TClose    == IsEvent("close")    /\ RClose(E.ret)
TTool     == IsEvent("tool")     /\ RToolExit(E.status, E.outEq) /\ UNCHANGED rvars
TGetChunk == IsEvent("getchunk") /\ RGetChunk(E.fvalid, E.want, E.ret, E.eq)
TGetCap   == IsEvent("getchunkcap") /\ RGetChunkCapped(E.want, E.ret, E.prefixOk)
TScan     == IsEvent("scan")     /\ RScan(E.ret, E.vec, E.es)
TValData  == IsEvent("valdata")  /\ RValidateData(E.ret, E.es)
TSame     == IsEvent("unmodified") /\ RUnmodified(E.same)
TBegin    == IsEvent("begin") /\ UNCHANGED rvars          \* marks the start of a test case (may span two executions)
TSetBase  == IsEvent("setbaseline") /\ RSetBaseline
TSameBase == IsEvent("samebaseline") /\ RSameAsBaseline
TAbort    == IsEvent("abort") /\ RAbort
TLead     == IsEvent("leadcall") /\ RLeadCall(E.ret, E.failed)

Init == RInit /\ l = 1
Next == TOpen \/ TRead \/ TClose \/ TTool \/ TGetChunk \/ TScan \/ TValData \/ TSame \/ TSetBase \/ TSameBase \/ TBegin \/ TAbort \/ TLead \/ TGetCap
Spec == Init /\ [][Next]_tvars
Accepted == /\ PrintT(<<"MATCHED", TLCGet("stats").diameter - 1, Len(TraceLog)>>)
            /\ TLCGet("stats").diameter - 1 = Len(TraceLog)
=============================================================================
