SPECIFICATION Spec
CONSTANTS
  Alphabet = {"a", "b"}
  MaxLen = 7
  W = 2
  CutSet <- MCCutSet
  AutoMin = 2
  AutoMax = 4
  ChunkMin = 1
  ChunkMax = 100
  Manual = FALSE
  Variant = "fixed"
INVARIANTS Tiling NothingInvented MinMax SegmentationIndependence
PROPERTY EveryCallReturns
CHECK_DEADLOCK FALSE
