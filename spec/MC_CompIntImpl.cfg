SPECIFICATION Spec
CONSTANTS
  Alphabet = {0, 1, 2, 8, 127, 128, 129, 130, 136, 255}
  MaxBuf = 4
  Variant = "fixed"
  Kinds = {"size", "int"}
INVARIANTS NoReadPastLimit ExactOrReject NoCrash CursorRule
PROPERTY Terminates
CHECK_DEADLOCK FALSE
