SPECIFICATION Spec
CONSTANT Known = {"C10-zero-length-inverted"}
POSTCONDITION Accepted
CHECK_DEADLOCK FALSE
