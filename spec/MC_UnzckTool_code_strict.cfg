SPECIFICATION Spec
CONSTANTS
 Variant = "code"
INVARIANTS InputUntouched OnlyOwnOutput
CHECK_DEADLOCK FALSE
