SPECIFICATION Spec
CONSTANT MaxOps = 3
INVARIANTS AcceptedImpliesEqual Emit
CHECK_DEADLOCK FALSE
