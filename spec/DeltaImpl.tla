------------------------------ MODULE DeltaImpl ------------------------------
(* Model of the documented update procedure as zckdl and the library perform  *)
(* it, with crashes: fetch the header, scan the target, copy what the local   *)
(* source has, then rounds of "request the first Limit missing ranges / write *)
(* the response chunk by chunk (a chunk becomes full only with its last       *)
(* write) / verify", finally truncate and validate.  A crash may happen at    *)
(* any step: the volatile state (context, markings, what was requested) is    *)
(* lost, the disk survives; the procedure restarts from the top.              *)
(* Disk state per chunk: "full" (B's bytes), "part" (a prefix of them),       *)
(* "zero", "junk".                                                            *)
EXTENDS Naturals, FiniteSets, TLC
CONSTANTS NC, Local, Limit, MaxCrash, ScanTrustsPartial

Chunks == 1..NC
VARIABLES disk, disk0, hdr, phase, valid, inflight, requested, crashes, fullAtCrash, refetched, fetchedOnce
vars == <<disk, disk0, hdr, phase, valid, inflight, requested, crashes, fullAtCrash, refetched, fetchedOnce>>

Init == /\ disk \in [Chunks -> {"full", "part", "zero", "junk"}] /\ disk0 = disk /\ hdr \in {"none", "part", "full"}
        /\ phase = "start" /\ valid = [c \in Chunks |-> 0] /\ inflight = {} /\ requested = {}
        /\ crashes = 0 /\ fullAtCrash = {} /\ refetched = FALSE /\ fetchedOnce = {}

FetchHeader == /\ phase = "start" /\ hdr' = "full" /\ phase' = "header"
               /\ UNCHANGED <<disk, disk0, valid, inflight, requested, crashes, fullAtCrash, refetched, fetchedOnce>>
\* the validity scan: exact (ScanTrustsPartial = TRUE models the stale-buffer defect of the pinned commit)
Scan == /\ phase = "header" /\ phase' = "scanned"
        /\ valid' = [c \in Chunks |-> IF disk[c] = "full" \/ (ScanTrustsPartial /\ disk[c] = "part") THEN 1 ELSE 0]
        /\ UNCHANGED <<disk, disk0, hdr, inflight, requested, crashes, fullAtCrash, refetched, fetchedOnce>>
\* zck_copy_chunks: one chunk at a time; the bytes and the marking become visible together at the end
Copy(c) == /\ phase = "scanned" /\ valid[c] = 0 /\ c \in Local
           /\ disk' = [disk EXCEPT ![c] = "full"] /\ valid' = [valid EXCEPT ![c] = 1]
           /\ UNCHANGED <<disk0, hdr, phase, inflight, requested, crashes, fullAtCrash, refetched, fetchedOnce>>
CopyDone == /\ phase = "scanned" /\ \A c \in Local : valid[c] = 1
            /\ phase' = "fetch" /\ UNCHANGED <<disk, disk0, hdr, valid, inflight, requested, crashes, fullAtCrash, refetched, fetchedOnce>>

Missing == { c \in Chunks : valid[c] = 0 }
Min(S) == CHOOSE x \in S : \A y \in S : x <= y
RECURSIVE FirstK(_, _)
FirstK(S, k) == IF k = 0 \/ S = {} THEN {} ELSE {Min(S)} \cup FirstK(S \ {Min(S)}, k - 1)
\* one request: the first Limit missing chunks (each its own range here)
Request == /\ phase = "fetch" /\ inflight = {} /\ Missing # {}
           /\ LET X == FirstK(Missing, Limit) IN
                /\ inflight' = X /\ requested' = requested \cup X
                /\ refetched' = (refetched \/ (X \cap fullAtCrash # {}))
                /\ fetchedOnce' = fetchedOnce \cup X
           /\ UNCHANGED <<disk, disk0, hdr, phase, valid, crashes, fullAtCrash>>
\* the response arrives chunk by chunk, in order; a chunk is first partially on disk, then full and verified
WritePart(c) == /\ phase = "fetch" /\ c \in inflight /\ c = Min(inflight) /\ disk[c] # "part"
                /\ disk' = [disk EXCEPT ![c] = "part"]
                /\ UNCHANGED <<disk0, hdr, phase, valid, inflight, requested, crashes, fullAtCrash, refetched, fetchedOnce>>
WriteRest(c) == /\ phase = "fetch" /\ c \in inflight /\ c = Min(inflight)
                /\ disk' = [disk EXCEPT ![c] = "full"] /\ valid' = [valid EXCEPT ![c] = 1] /\ inflight' = inflight \ {c}
                /\ UNCHANGED <<disk0, hdr, phase, requested, crashes, fullAtCrash, refetched, fetchedOnce>>
Finish == /\ phase = "fetch" /\ inflight = {} /\ Missing = {} /\ phase' = "done"
          /\ UNCHANGED <<disk, disk0, hdr, valid, inflight, requested, crashes, fullAtCrash, refetched, fetchedOnce>>

Crash == /\ phase \notin {"done"} /\ crashes < MaxCrash
         /\ crashes' = crashes + 1 /\ phase' = "start" /\ valid' = [c \in Chunks |-> 0] /\ inflight' = {} /\ requested' = {}
         /\ fullAtCrash' = { c \in Chunks : disk[c] = "full" }
         /\ hdr' = (IF hdr = "full" THEN "full" ELSE hdr)
         /\ UNCHANGED <<disk, disk0, refetched, fetchedOnce>>

Progress == FetchHeader \/ Scan \/ (\E c \in Chunks : Copy(c)) \/ CopyDone \/ Request
            \/ (\E c \in Chunks : WritePart(c) \/ WriteRest(c)) \/ Finish
Next == Progress \/ Crash \/ (phase = "done" /\ UNCHANGED vars)
Spec == Init /\ [][Next]_vars /\ WF_vars(Progress)

\* ---- C04 / C11
PartialNeverValid == \A c \in Chunks : valid[c] = 1 => disk[c] = "full"
DoneMeansB == phase = "done" => \A c \in Chunks : disk[c] = "full"
NoRefetch == ~refetched                                       \* a chunk that was complete at a crash is not requested again
\* within one uninterrupted run: exactly the chunks neither on disk nor local are requested
Exactness == (phase = "done" /\ crashes = 0) => requested = { c \in Chunks : disk0[c] # "full" /\ c \notin Local }
Converges == <>(phase = "done")
=============================================================================
