---------------------------- MODULE MC_IOFaultGen ----------------------------
(* Generator (R3): every behaviour of IOFault (Variant "code") with the       *)
(* outcome of each system call recorded, printed when the copy is done.  The  *)
(* check replays each one into the real zck_close through the fault rules of  *)
(* the I/O shim (one model byte = Unit real bytes) and compares the result.   *)
EXTENDS IOFault, Json
VARIABLE hist
gvars == <<vars, hist>>
Rec(k, v, failed) == [k |-> k, v |-> v, failed |-> failed]
GInit == Init /\ hist = <<>>
GNext ==
    \/ /\ Rewind /\ hist' = Append(hist, Rec("s", 0, result' = "fail"))
    \/ /\ Read   /\ hist' = Append(hist, Rec("r", IF result' = "fail" THEN 0 ELSE tpos' - tpos, result' = "fail"))
    \/ /\ Write1 /\ hist' = Append(hist, Rec("w", Len(out') - Len(out), result' = "fail"))
    \/ /\ Write2 /\ hist' = Append(hist, Rec("w", Len(out') - Len(out), result' = "fail"))
GSpec == GInit /\ [][GNext]_gvars
Emit == pc = "done" => PrintT(<<"BEH", ToJson([result |-> result, delivered |-> Len(out), calls |-> hist])>>)
=============================================================================
