SPECIFICATION Spec
CONSTANTS
  N = 3
  Size = 3
  MaxRead = 4
  Unit = TRUE
  Variant = "fixed"
  MaxCalls = 4
  AllocFail = FALSE
  Trunc = {9, 7, 4, 0}
INVARIANTS NoReleaseBeforeVerify HistoryIndependence SequentialPrefix NoSilentTruncation
PROPERTY EveryCallReturns
CHECK_DEADLOCK FALSE
