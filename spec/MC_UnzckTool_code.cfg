SPECIFICATION Spec
CONSTANTS
 Variant = "code"
INVARIANTS SuccessMeansOutput 
PROPERTY Terminates
CHECK_DEADLOCK FALSE
