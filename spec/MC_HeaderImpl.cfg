SPECIFICATION Spec
CONSTANTS
  Alphabet = {1, 128, 129, 130, 133}
  MaxLen = 8
  DS = 1
  Variant = "fixed"
INVARIANTS NoReadPastEnd SectionsInside IndexNonEmptyAndCounted
CHECK_DEADLOCK FALSE
