SPECIFICATION Spec
CONSTANTS
  Resp <- Resp2
  Req <- Req2
  Variant = "code"
INVARIANTS FinalState ValidImpliesGood Confinement
CHECK_DEADLOCK FALSE
