SPECIFICATION Spec
CONSTANTS
  Resp <- RespBad
  Req <- ReqBad
  Variant = "code"
INVARIANTS FinalState ValidImpliesGood Confinement
CHECK_DEADLOCK FALSE
