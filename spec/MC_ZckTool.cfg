SPECIFICATION Spec
CONSTANTS
  Alphabet = {"a", "b", "x"}
  Splits <- MCSplits
  MaxLen = 6
  B = 3
  Variant = "fixed"
INVARIANTS ToolFeedsInput NoNegativeSize NeverAhead CutsAtOccurrences
PROPERTY Terminates
CHECK_DEADLOCK FALSE
