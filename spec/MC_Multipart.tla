---- MODULE MC_Multipart ----
EXTENDS MultipartImpl
r == <<"r">>  n == <<"n">>  D == <<"D">>  B == <<"B">>  h == <<"h">>  E == <<"E">>
P(c, i) == <<"p", c, i, TRUE>>
X(c, i) == <<"p", c, i, FALSE>>
Part(k, lead) == (IF lead THEN <<r, n>> ELSE <<>>) \o <<D, D, B, r, n, h, <<"L", k>>, r, n, r, n>>
Close == <<r, n, D, D, B, E, r, n>>
\* two parts (chunks 1 and 3, two cells each)
Resp2 == Part(2, TRUE) \o <<P(1, 1), P(1, 2)>> \o Part(2, TRUE) \o <<P(3, 1), P(3, 2)>> \o Close
Req2  == << [c |-> 1, len |-> 2], [c |-> 3, len |-> 2] >>
\* one part spanning two adjacent chunks, no leading CRLF
Resp1 == Part(3, FALSE) \o <<P(1, 1), P(2, 1), P(2, 2)>> \o Close
Req1  == << [c |-> 1, len |-> 1], [c |-> 2, len |-> 2] >>
\* second part corrupted
RespBad == Part(2, TRUE) \o <<P(1, 1), P(1, 2)>> \o Part(2, TRUE) \o <<P(3, 1), X(3, 2)>> \o Part(1, TRUE) \o <<P(5, 1)>> \o Close
ReqBad  == << [c |-> 1, len |-> 2], [c |-> 3, len |-> 2], [c |-> 5, len |-> 1] >>
====
