------------------------------ MODULE HeaderImpl ------------------------------
(* Implementation-shaped model of the header parser's cursor discipline       *)
(* (src/lib/header.c read_preface / read_index / read_sig and                 *)
(* src/lib/index/index_read.c) on the part of the header that follows the     *)
(* lead: data digest, flags, compression type, optional elements, index size, *)
(* index (chunk hash type, count, entries), signature count.  Every integer   *)
(* is read through the CompInt contract with the limit the C code passes.     *)
(* Digests are DS cells wide.  The buffer is ANY sequence over a small byte   *)
(* alphabet (the checksum gate is assumed passed: C03 re-seals its inputs).   *)
(*                                                                            *)
(* Checked (C03, C13): no cell beyond the buffer is read, the accepted        *)
(* sections lie inside the buffer, an accepted index is non-empty, its        *)
(* entries end exactly at the index size and their number is the declared     *)
(* count.                                                                     *)
EXTENDS Naturals, Sequences, FiniteSets, TLC
CONSTANTS Alphabet, MaxLen, DS, Variant
C == INSTANCE CompInt

VARIABLES buf, res
vars == <<buf, res>>

\* the first two cells (data digest, flags) are taken from their interesting values only, the rest is arbitrary
Tails == UNION { [1..n -> Alphabet] : n \in 0..MaxLen }
Heads == {128, 130, 132}
Val(ds) == LET F[k \in 0..Len(ds)] == IF k = 0 THEN 0 ELSE F[k - 1] + ds[k] * (IF k = 1 THEN 1 ELSE 128) IN F[Len(ds)]   \* (values here stay below 2^14)

Fail(rd) == [ok |-> FALSE, reads |-> rd, pre |-> 0, idx |-> 0, sig |-> 0, n |-> 0, cnt |-> 0]

\* compint_to_size(header + cur, &cur, max): returns [ok, val, cur, reads]
ReadCI(b, cur, max, rd) ==
    LET d == C!Decode(b, cur, max, "size")
        lim == IF max < Len(b) THEN max ELSE Len(b)
        \* cells touched: up to and including the terminator, or up to the limit / ten bytes on failure
        upto == IF d.ok THEN cur + d.len ELSE (IF cur + 10 < lim THEN cur + 10 ELSE lim)
    IN [ok |-> d.ok, val |-> IF d.ok THEN Val(d.digits) ELSE 0, cur |-> IF d.ok THEN cur + d.len ELSE cur,
        reads |-> rd \cup { i \in (cur + 1)..upto : TRUE }]

\* index entries: while(length < size)
RECURSIVE Entries(_, _, _, _, _, _, _)
Entries(b, cur, size, max, uncomp, n, rd) ==
    IF cur >= size THEN [ok |-> TRUE, cur |-> cur, n |-> n, reads |-> rd]
    ELSE IF cur + DS > max THEN [ok |-> FALSE, cur |-> cur, n |-> n, reads |-> rd]
    ELSE LET rd1 == rd \cup { i \in (cur + 1)..(cur + DS) : TRUE }
             c1 == cur + DS
             okU == ~uncomp \/ c1 + DS <= max          \* (the C code copies the second digest unchecked: see Variant)
             rd2 == IF uncomp THEN rd1 \cup { i \in (c1 + 1)..(c1 + DS) : TRUE } ELSE rd1
             c2 == IF uncomp THEN c1 + DS ELSE c1
         IN IF Variant = "fixed" /\ ~okU THEN [ok |-> FALSE, cur |-> cur, n |-> n, reads |-> rd1]
            ELSE LET a == ReadCI(b, c2, max, rd2) IN
                 IF ~a.ok THEN [ok |-> FALSE, cur |-> cur, n |-> n, reads |-> a.reads]
                 ELSE LET u == ReadCI(b, a.cur, max, a.reads) IN
                      IF ~u.ok THEN [ok |-> FALSE, cur |-> cur, n |-> n, reads |-> u.reads]
                      ELSE Entries(b, u.cur, size, max, uncomp, n + 1, u.reads)

Parse(b) ==
    LET max == Len(b) IN            \* header_length: everything after the lead
    IF DS > max THEN Fail({})
    ELSE LET rd0 == { i \in 1..DS : TRUE }
             fl == ReadCI(b, DS, max, rd0) IN
         IF ~fl.ok \/ fl.val \notin {0, 2, 4, 6} THEN Fail(fl.reads)
         ELSE LET ct == ReadCI(b, fl.cur, max, fl.reads) IN
              IF ~ct.ok \/ ct.val \notin {0, 2} THEN Fail(ct.reads)
              ELSE LET opt == IF fl.val \in {2, 6}
                              THEN LET oc == ReadCI(b, ct.cur, max, ct.reads) IN
                                   IF ~oc.ok THEN [ok |-> FALSE, cur |-> 0, reads |-> oc.reads]
                                   ELSE IF oc.val = 0 THEN [ok |-> TRUE, cur |-> oc.cur, reads |-> oc.reads]
                                   ELSE \* one optional element is enough to exercise the skip: id, size, data
                                        LET id == ReadCI(b, oc.cur, max, oc.reads) IN
                                        IF ~id.ok THEN [ok |-> FALSE, cur |-> 0, reads |-> id.reads]
                                        ELSE LET sz == ReadCI(b, id.cur, max, id.reads) IN
                                             IF ~sz.ok \/ oc.val > 1 THEN [ok |-> FALSE, cur |-> 0, reads |-> sz.reads]
                                             ELSE [ok |-> TRUE, cur |-> sz.cur + sz.val, reads |-> sz.reads]   \* length += data_size (unchecked)
                              ELSE [ok |-> TRUE, cur |-> ct.cur, reads |-> ct.reads] IN
                   IF ~opt.ok THEN Fail(opt.reads)
                   ELSE LET is == ReadCI(b, opt.cur, max, opt.reads) IN
                        IF ~is.ok THEN Fail(is.reads)
                        ELSE LET pre == is.cur
                                 isize == is.val IN
                             IF pre + isize > max THEN Fail(is.reads)                       \* read_index: past end of header
                             ELSE LET imax == max - pre                                      \* index_read's max_length
                                      ib == SubSeq(b, pre + 1, max)
                                      ht == ReadCI(ib, 0, imax, {}) IN
                                  IF ~ht.ok \/ ht.val > 3 THEN Fail(is.reads \cup { pre + i : i \in ht.reads })
                                  ELSE LET cn == ReadCI(ib, ht.cur, imax, ht.reads) IN
                                       IF ~cn.ok THEN Fail(is.reads \cup { pre + i : i \in cn.reads })
                                       ELSE LET en == Entries(ib, cn.cur, isize, imax, fl.val \in {4, 6}, 0, cn.reads)
                                                rdI == is.reads \cup { pre + i : i \in en.reads } IN
                                            IF ~en.ok \/ en.cur # isize \/ en.n = 0 \/ en.n # cn.val THEN Fail(rdI)
                                            ELSE LET sb == SubSeq(b, pre + isize + 1, max)
                                                     sg == ReadCI(sb, 0, max - pre - isize, {}) IN
                                                 IF ~sg.ok \/ sg.val # 0 THEN Fail(rdI \cup { pre + isize + i : i \in sg.reads })
                                                 ELSE [ok |-> TRUE, reads |-> rdI \cup { pre + isize + i : i \in sg.reads },
                                                       pre |-> pre, idx |-> isize, sig |-> sg.cur, n |-> en.n, cnt |-> cn.val]

Init == /\ \/ \E f \in Heads, n \in 0..MaxLen : \E t \in [1..n -> Alphabet] : buf = <<128, f>> \o t
           \/ \E n \in 0..2 : buf \in [1..n -> Alphabet]
        /\ res = Fail({})
Next == res' = Parse(buf) /\ UNCHANGED buf
Spec == Init /\ [][Next]_vars

NoReadPastEnd == \A i \in res.reads : i >= 1 /\ i <= Len(buf)
SectionsInside == res.ok => res.pre + res.idx + res.sig <= Len(buf)
IndexNonEmptyAndCounted == res.ok => (res.n >= 1 /\ res.n = res.cnt)
SomeAccepted == ~res.ok             \* (vacuity probe: must be violated)
=============================================================================
