----------------------------- MODULE Trace_Scan -----------------------------
(* Conformance of the real validity scan with ScanImpl (C09, C11).  Every    *)
(* line of the ndjson file is one execution of zck_find_valid_chunks /        *)
(* zck_validate_checksums / zck_validate_data_checksum of the real library on *)
(* a file built for one member of ScanImpl's family (one cell = 16 KiB, so    *)
(* that a block is the library's 32 KiB buffer), with what the call returned: *)
(* verdict, validity vector, descriptor offset relative to the data.  TLC     *)
(* runs the model from exactly those initial states and compares what the     *)
(* property speaks about.  ScanImpl's own invariants (ExactClassification,    *)
(* DataVerdict, Restored) are checked on the same run, so a MISMATCH line is   *)
(* a classification that is not the exact one.                                *)
EXTENDS ScanImpl, Json, IOUtils
Cases == ndJsonDeserialize(IOEnv.TRACE)
VARIABLE c
tvars == <<vars, c>>
TInit == /\ c \in 1..Len(Cases)
         /\ lens = Cases[c].lens /\ nodata = FALSE /\ pattern = Cases[c].pattern
         /\ disk = Cases[c].disk
         /\ uncomp = Cases[c].uncomp /\ headerOnly = Cases[c].headerOnly /\ fullOk = Cases[c].fullOk
         /\ prefed = Cases[c].prefed /\ call = Cases[c].call
         /\ Run0
TNext == Next /\ UNCHANGED c
TSpec == TInit /\ [][TNext]_tvars
SameVec(a, b) == Len(a) = Len(b) /\ \A k \in 1..Len(a) : a[k] = b[k]
Match == LET o == Cases[c] IN
         /\ (o.ret = 1) <=> (ret = 1)
         /\ IsScan => SameVec(o.vec, valid)
         /\ o.off = pos
Conforms == pc = "done" => (Match \/ PrintT(<<"MISMATCH", c>>))
Counted == pc = "done" => PrintT(<<"DONE", c>>)
=============================================================================
