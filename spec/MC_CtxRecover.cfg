SPECIFICATION Spec
CONSTANT MaxOps = 5
INVARIANT EmitRecover
CHECK_DEADLOCK FALSE
