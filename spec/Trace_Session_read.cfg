SPECIFICATION Spec
CONSTANT Judge = {"read"}
POSTCONDITION Accepted
CHECK_DEADLOCK FALSE
