------------------------------- MODULE Session -------------------------------
(* One READER context over its whole life on a VALID file: streaming reads,    *)
(* validation calls, random-access chunk requests and clear_error in ANY       *)
(* order.  The listed properties each speak about one kind of call; what they  *)
(* promise must hold whatever the same context did before (state carried       *)
(* between public calls).  This module says which promise applies in which     *)
(* history; Judge selects the promises a run decides (the same executions are  *)
(* judged for C02 reads, C09 validations and C14 chunk requests separately).   *)
(*                                                                            *)
(*   mode  fresh        nothing delivered yet (validations may have run)       *)
(*         stream       some content delivered, end of stream not yet reported *)
(*         eos          the end of the stream was reported                     *)
(*         revalidated  a validation call ran in mode stream: the library      *)
(*                      rewinds the descriptor but keeps its decoding state.   *)
(*                      With unit-decoded chunks (zstd) no byte of a chunk is  *)
(*                      released before the chunk verified (C15), so a later   *)
(*                      read continues the content or fails; with streamed     *)
(*                      chunks bytes are released before verification, and     *)
(*                      what C02 promises is that the end of the stream is not *)
(*                      reported successfully after other bytes were delivered *)
(*         reposed      a chunk request repositioned the context, or an error  *)
(*                      was cleared: the listed properties promise nothing     *)
(*                      about later streaming reads                            *)
EXTENDS Naturals, Sequences
CONSTANT Judge                    \* subset of {"read", "scan", "chunk"}
VARIABLES total, pos, mode, es, unit, dirty
svars == <<total, pos, mode, es, unit, dirty>>

Min(a, b) == IF a < b THEN a ELSE b

SInit == total = 0 /\ pos = 0 /\ mode = "closed" /\ es = 0 /\ unit = FALSE /\ dirty = FALSE

SOpen(tot, u, ret) == /\ ret = 1                                \* a valid file opens
                      /\ total' = tot /\ pos' = 0 /\ mode' = "fresh" /\ es' = 0 /\ unit' = u /\ dirty' = FALSE

\* ret: bytes delivered (0 end of stream, <0 error); eq: they are the content at the current position
SRead(n, ret, eq, es2) ==
    /\ mode # "closed"
    /\ ("read" \in Judge) =>
         /\ es > 0 => ret < 0                                                        \* a context in error refuses
         /\ (es = 0 /\ mode \in {"fresh", "stream"}) =>                               \* C02/C09: the exact stream
                (ret = Min(n, total - pos) /\ (ret > 0 => eq))
         /\ (es = 0 /\ mode = "eos") => ret = 0
         /\ (es = 0 /\ mode = "revalidated") =>
                /\ (ret > 0 /\ unit) => (eq /\ ret <= total - pos)
                /\ ret = 0 => (~dirty /\ pos = total)
    /\ pos' = IF ret > 0 THEN pos + ret ELSE pos
    /\ mode' = IF mode \in {"fresh", "stream"} THEN (IF ret = 0 THEN "eos" ELSE IF ret > 0 THEN "stream" ELSE mode) ELSE mode
    /\ dirty' = (dirty \/ (ret > 0 /\ ~eq))
    /\ es' = es2 /\ UNCHANGED <<total, unit>>

\* C09: the verdict on a valid file is 1 whatever the context did before
SScan(ret, es2) ==
    /\ mode # "closed"
    /\ ("scan" \in Judge) => ((es = 0 => ret = 1) /\ (es > 0 => ret = 0))
    /\ mode' = IF mode = "stream" THEN "revalidated" ELSE mode
    /\ es' = es2 /\ UNCHANGED <<total, pos, unit, dirty>>

\* C14: a chunk request returns exactly the chunk's (stored) data whatever the context did before
SChunk(want, ret, eq, es2) ==
    /\ mode # "closed"
    /\ ("chunk" \in Judge) => ((es = 0 => (ret = want /\ (ret > 0 => eq))) /\ (es > 0 => ret < 0))
    /\ mode' = "reposed"
    /\ es' = es2 /\ UNCHANGED <<total, pos, unit, dirty>>

\* zck_clear_error: a fatal state stays; after a cleared error nothing is promised about streaming
SClear(es2) ==
    /\ mode # "closed"
    /\ es2 = (IF es = 2 THEN 2 ELSE 0)
    /\ mode' = IF es > 0 THEN "reposed" ELSE mode
    /\ es' = es2 /\ UNCHANGED <<total, pos, unit, dirty>>

SClose == mode' = "closed" /\ UNCHANGED <<total, pos, es, unit, dirty>>
=============================================================================
