SPECIFICATION Spec
CONSTANTS
 NC = 3
 MaxLen = 3
 B = 2
 MaxBad = 1
 Variant = "fixed"
 Patterns = {"same", "distinct"}
INVARIANTS ExactClassification DataVerdict Restored
PROPERTY Terminates
CHECK_DEADLOCK FALSE
