----------------------------- MODULE Trace_Ctx -----------------------------
EXTENDS Ctx, Sequences, TLC, Json, IOUtils
TraceLog == ndJsonDeserialize(IOEnv.TRACE)
VARIABLE l
tvars == <<cvars, l>>
E == TraceLog[l]
IsEvent(op) == l <= Len(TraceLog) /\ TraceLog[l].op = op /\ l' = l + 1
TReset == IsEvent("reset") /\ mode' = "none" /\ es' = 0 /\ started' = FALSE
TOpen  == IsEvent("open")  /\ COpen(E.m, E.ok, E.es)
TCall  == IsEvent("call")  /\ CCall(E.cls, E.ok, E.es, E.firedErr, E.starts, E.late, E.ends)
TClear == IsEvent("clear") /\ CClear(E.ok, E.es)
Init == CInit /\ l = 1
Next == TReset \/ TOpen \/ TCall \/ TClear
Spec == Init /\ [][Next]_tvars
Accepted == /\ PrintT(<<"MATCHED", TLCGet("stats").diameter - 1, Len(TraceLog)>>)
            /\ TLCGet("stats").diameter - 1 = Len(TraceLog)
=============================================================================
