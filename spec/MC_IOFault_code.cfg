SPECIFICATION Spec
CONSTANTS N = 4
 B = 2
 Variant = "code"
INVARIANTS CopyOk NoInvent
PROPERTY Terminates
