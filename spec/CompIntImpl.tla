---------------------------- MODULE CompIntImpl ----------------------------
(* Implementation-shaped model of compint_to_size / compint_to_int            *)
(* (src/lib/compint.c): one step per loop iteration, same variables.  The     *)
(* 64-bit accumulator is a vector of ten base-128 digits; because digits are  *)
(* added at strictly increasing positions there are no carries, and the       *)
(* tenth digit keeps only one bit (bit 63), which is exactly how the C        *)
(* arithmetic wraps.                                                          *)
(*                                                                            *)
(* Variant = "fixed"  : the code after the fix: commit (limit tested against  *)
(*                      the cursor before each read, tenth byte > 1 rejected, *)
(*                      int narrowing checked).                               *)
(* Variant = "orig"   : the code at the pinned commit (kept to document the   *)
(*                      counterexamples TLC finds: over-read, wrap).          *)
EXTENDS Naturals, Sequences, FiniteSets, TLC
CONSTANTS Alphabet, MaxBuf, Variant, Kinds

C == INSTANCE CompInt

VARIABLES buf, off, lim, kind,      \* the call's arguments
          pc, count, val, reads, length, res
vars == <<buf, off, lim, kind, pc, count, val, reads, length, res>>

Bufs == UNION { [1..n -> Alphabet] : n \in 1..MaxBuf }

Init == /\ buf \in Bufs
        /\ off \in 0..(Len(buf) - 1)
        /\ lim \in (off + 1)..Len(buf)
        /\ kind \in Kinds
        /\ pc = "loop" /\ count = 0 /\ val = <<>> /\ reads = {} /\ length = off
        /\ res = [ok |-> FALSE, digits |-> <<>>, len |-> 0]

Fail == /\ pc' = "done" /\ res' = [ok |-> FALSE, digits |-> <<>>, len |-> 0]
        /\ length' = off /\ UNCHANGED <<count, val, reads>>

Finish(v, n) ==
    IF kind = "int" /\ ~C!FitsInt(v) /\ Variant = "fixed" THEN Fail
    ELSE IF kind = "int" /\ Variant = "orig" /\ Len(v) >= 5 /\ v[5] >= 8 /\ v[5] < 16
         THEN Fail    \* bit 31 set: (int) is negative, the only case the original rejects
    ELSE /\ pc' = "done"
         /\ res' = [ok |-> TRUE,
                    digits |-> IF kind = "int" /\ Variant = "orig"
                               THEN C!Norm([j \in 1..(IF Len(v) < 5 THEN Len(v) ELSE 5) |->
                                             IF j = 5 THEN v[j] % 16 ELSE v[j]])   \* low 32 bits
                               ELSE C!Norm(v),
                    len |-> n]
         /\ length' = off + n /\ UNCHANGED <<count, val, reads>>

StepFixed ==
    IF length >= lim \/ count >= C!MaxLen THEN Fail
    ELSE LET b == buf[length + 1]
             d == C!Digit(b) IN
         IF count = C!MaxLen - 1 /\ d > 1 THEN Fail /\ UNCHANGED <<>>
         ELSE IF C!Term(b)
              THEN /\ reads' = reads \cup {length + 1}
                   /\ LET v == Append(val, d) IN
                      IF kind = "int" /\ ~C!FitsInt(v)
                      THEN /\ pc' = "done" /\ res' = [ok |-> FALSE, digits |-> <<>>, len |-> 0]
                           /\ length' = off /\ UNCHANGED <<count, val>>
                      ELSE /\ pc' = "done" /\ res' = [ok |-> TRUE, digits |-> C!Norm(v), len |-> count + 1]
                           /\ length' = length + 1 /\ UNCHANGED <<count, val>>
              ELSE /\ reads' = reads \cup {length + 1} /\ val' = Append(val, d)
                   /\ count' = count + 1 /\ length' = length + 1 /\ UNCHANGED <<pc, res>>

\* the original loop: read first, test (count >= MAX || count >= max_length || wrapped) after
StepOrig ==
    LET idx == off + count + 1 IN
    IF idx > Len(buf)
    THEN /\ reads' = reads \cup {idx} /\ pc' = "crash" /\ UNCHANGED <<count, val, length, res>>  \* guard page
    ELSE LET b == buf[idx]
             d == IF count = 9 THEN C!Digit(b) % 2 ELSE C!Digit(b)    \* c * 128^9 wraps modulo 2^64
             v == Append(val, d) IN
         /\ reads' = reads \cup {idx}
         /\ IF C!Term(b) THEN
               IF kind = "int" /\ Len(v) >= 5 /\ (v[5] \div 8) % 2 = 1
               THEN /\ pc' = "done" /\ res' = [ok |-> FALSE, digits |-> <<>>, len |-> 0] /\ length' = off
                    /\ UNCHANGED <<count, val>>
               ELSE /\ pc' = "done" /\ length' = off + count + 1
                    /\ res' = [ok |-> TRUE, len |-> count + 1,
                               digits |-> IF kind = "int"
                                          THEN C!Norm([j \in 1..(IF Len(v) < 5 THEN Len(v) ELSE 5) |->
                                                        IF j = 5 THEN v[j] % 16 ELSE v[j]])
                                          ELSE C!Norm(v)]
                    /\ UNCHANGED <<count, val>>
            ELSE IF count + 1 >= C!MaxLen \/ count + 1 >= lim
                 THEN /\ pc' = "done" /\ res' = [ok |-> FALSE, digits |-> <<>>, len |-> 0] /\ length' = off
                      /\ UNCHANGED <<count, val>>
                 ELSE /\ val' = v /\ count' = count + 1 /\ length' = length + 1 /\ UNCHANGED <<pc, res>>

Step == pc = "loop" /\ UNCHANGED <<buf, off, lim, kind>> /\
        (IF Variant = "fixed" THEN StepFixed ELSE StepOrig)

Next == Step \/ (pc \in {"done", "crash"} /\ UNCHANGED vars)
Spec == Init /\ [][Next]_vars /\ WF_vars(Step)

\* ---- properties (C20)
NoReadPastLimit == reads \subseteq C!MayRead(buf, off, lim)
ExactOrReject   == pc = "done" => res = C!Decode(buf, off, lim, kind)
NoCrash         == pc # "crash"
CursorRule      == pc = "done" => length = off + res.len
Terminates      == <>(pc \in {"done", "crash"})
\* vacuity guards: both outcomes and the ten-byte case occur
SomeAccept == ~(pc = "done" /\ res.ok /\ res.len = 10)
=============================================================================
