SPECIFICATION Spec
CONSTANTS
  N = 3
  Steps = 3
  SharedScratch = FALSE
INVARIANT SameAsSerialModel
CHECK_DEADLOCK FALSE
