----------------------------- MODULE MC_Session -----------------------------
(* Generator: every history of at most MaxOps calls over the alphabet, on the  *)
(* abstract state of Session (so that histories that can only repeat an        *)
(* unconstrained regime are not extended: once the mode is "reposed" and two   *)
(* more calls were made, nothing new is decided).  Terminal histories are      *)
(* printed as JSON and concretised into driver scripts.                        *)
EXTENDS Naturals, Sequences, TLC, Json
CONSTANTS MaxOps, Alphabet
VARIABLES hist, mode, tail
mcvars == <<hist, mode, tail>>

Kind(a) == IF a \in {"rp", "rq", "ra"} THEN "read" ELSE IF a \in {"vc", "fv", "vd"} THEN "scan" ELSE IF a = "clr" THEN "clear" ELSE "chunk"

Init == hist = <<>> /\ mode = "fresh" /\ tail = 0
Step(a) ==
    /\ Len(hist) < MaxOps /\ tail < 2
    /\ hist' = Append(hist, a)
    /\ mode' = CASE Kind(a) = "read"  -> IF mode = "fresh" THEN "stream" ELSE mode
                 [] Kind(a) = "scan"  -> IF mode = "stream" THEN "revalidated" ELSE mode
                 [] Kind(a) = "chunk" -> "reposed"
                 [] OTHER             -> mode
    /\ tail' = IF mode = "reposed" THEN tail + 1 ELSE 0
Next == \E a \in Alphabet : Step(a)
Spec == Init /\ [][Next]_mcvars
Emit == (Len(hist) >= 1) => PrintT(<<"BEH", ToJson(hist)>>)
=============================================================================
