------------------------------ MODULE IOFault ------------------------------
(* Implementation-shaped model of the copy path behind zck_close (C12):      *)
(* chunks_from_temp rewinds the temporary file and copies it to the output   *)
(* in blocks of at most B bytes through write_data, which retries a short    *)
(* write once.  The kernel is adversarial: lseek may fail, read may fail or  *)
(* be short, write may fail or accept any prefix.  What must hold:           *)
(*   CopyOk   - if the copy reports success, the output received exactly the *)
(*              temporary file's bytes, each once and in order;              *)
(*   NoInvent - whatever happens, the output is a prefix of those bytes      *)
(*              (nothing is written twice or out of order).                  *)
(* Variant "code" is the code as it is; "resend" repeats a seeded slip (the  *)
(* retry sends the block from its start again), "ignore2" accepts a second   *)
(* short write: TLC exhibits the counterexamples (MC_IOFault_*.cfg).         *)
EXTENDS Naturals, Sequences, TLC
CONSTANTS N, B, Variant

VARIABLES tpos,     \* read position in the temporary file (0..N)
          blk,      \* current block as <<first, last>> byte numbers (1-based), or <<>>
          sent,     \* bytes of the block accepted by the first write
          out,      \* byte numbers that reached the output descriptor, in order
          pc, result
vars == <<tpos, blk, sent, out, pc, result>>

Init == tpos = 0 /\ blk = <<>> /\ sent = 0 /\ out = <<>> /\ pc = "rewind" /\ result = "running"

Fail == pc' = "done" /\ result' = "fail"
Range(a, b) == [i \in 1..(b - a + 1) |-> a + i - 1]

\* lseek(temp_fd, 0, SEEK_SET)
Rewind == /\ pc = "rewind"
          /\ \/ (pc' = "read" /\ UNCHANGED result)
             \/ Fail
          /\ UNCHANGED <<tpos, blk, sent, out>>

\* read(temp_fd, data, BUF_SIZE): -1, or 0 at the end of the file, or any count up to what is there
Read == /\ pc = "read"
        /\ \/ (Fail /\ UNCHANGED <<tpos, blk>>)                                          \* -1
           \/ (tpos = N /\ pc' = "done" /\ result' = "ok" /\ UNCHANGED <<tpos, blk>>)    \* 0: end of file
           \/ \E n \in 1..B : /\ tpos + n <= N
                              /\ blk' = <<tpos + 1, tpos + n>> /\ tpos' = tpos + n
                              /\ pc' = "write1" /\ UNCHANGED result
        /\ UNCHANGED <<sent, out>>

Len_(b) == b[2] - b[1] + 1
\* first write(fd, data, length): -1, or w in 0..length
Write1 == /\ pc = "write1"
          /\ \/ (Fail /\ UNCHANGED <<out, sent>>)
             \/ \E w \in 0..Len_(blk) :
                   /\ out' = out \o Range(blk[1], blk[1] + w - 1)
                   /\ sent' = w
                   /\ IF w = Len_(blk) THEN pc' = "read" ELSE pc' = "write2"
                   /\ UNCHANGED result
          /\ UNCHANGED <<tpos, blk>>

\* the retry: write(fd, data + write_bytes, length - write_bytes)
Write2 == /\ pc = "write2"
          /\ LET from == IF Variant = "resend" THEN blk[1] ELSE blk[1] + sent
                 rest == Len_(blk) - sent IN
             \/ (Fail /\ UNCHANGED out)
             \/ \E w \in 0..rest :
                   /\ out' = out \o Range(from, from + w - 1)
                   /\ IF w = rest \/ Variant = "ignore2" THEN (pc' = "read" /\ UNCHANGED result) ELSE Fail
          /\ UNCHANGED <<tpos, blk, sent>>

Next == Rewind \/ Read \/ Write1 \/ Write2 \/ (pc = "done" /\ UNCHANGED vars)
Spec == Init /\ [][Next]_vars /\ WF_vars(Rewind \/ Read \/ Write1 \/ Write2)

CopyOk   == result = "ok" => out = Range(1, N)
NoInvent == \A i \in 1..Len(out) : out[i] = i
Terminates == <>(pc = "done")
=============================================================================
