SPECIFICATION Spec
CONSTANTS
  Alphabet = {"a", "b"}
  MaxLen = 6
  W = 3
  CutSet <- MCCutSet3
  AutoMin = 3
  AutoMax = 2
  ChunkMin = 1
  ChunkMax = 2
  Manual = FALSE
  Variant = "fixed"
INVARIANTS Tiling NothingInvented MinMax SegmentationIndependence
PROPERTY EveryCallReturns
CHECK_DEADLOCK FALSE
