------------------------------- MODULE MC_Ctx -------------------------------
(* Generator (R3): every history of at most MaxOps calls on one context after *)
(* opening it for writing or reading, over the alphabet below (calls of the   *)
(* right and the wrong mode, options in and out of phase, calls with an I/O   *)
(* fault armed for their next system call, clear_error).  The abstract state  *)
(* only prunes nothing: results are not predicted here, the recorded          *)
(* executions of the real library are judged by Trace_Ctx.  Histories are     *)
(* printed as JSON when they reach MaxOps calls.                              *)
EXTENDS Naturals, Sequences, TLC, Json
CONSTANT MaxOps
VARIABLES m, hist
WriteOps == {"optcomp", "optval", "write", "writeF", "endchunk", "endchunkF", "closeF", "close", "read", "clear"}
ReadOps  == {"optcomp", "optval", "read", "readF", "validate", "validateF", "write", "close", "clear"}
Init == m \in {"write", "read"} /\ hist = <<>>
Next == /\ Len(hist) < MaxOps
        /\ \E o \in (IF m = "write" THEN WriteOps ELSE ReadOps) :
             /\ (Len(hist) > 0 /\ hist[Len(hist)] \in {"close", "closeF"}) => o \in {"clear", "close", "write", "read"}   \* little to learn after a close
             /\ hist' = Append(hist, o)
        /\ UNCHANGED m
Spec == Init /\ [][Next]_<<m, hist>>
Emit == Len(hist) = MaxOps => PrintT(<<"BEH", ToJson([mode |-> m, ops |-> hist])>>)
\* the recovery shape, longer: a call with a fault, the error cleared at once, the context used on, and a close at the end
FaultOps == {"writeF", "endchunkF", "closeF", "readF", "validateF"}
EmitRecover == (/\ m = "write" /\ Len(hist) >= 3 /\ hist[Len(hist)] = "close"
                /\ \E i \in 1..(Len(hist) - 2) : hist[i] \in FaultOps /\ hist[i + 1] = "clear"
                /\ \A i \in 1..(Len(hist) - 1) : hist[i] \notin {"close", "closeF", "read", "optval"})
               => PrintT(<<"BEH", ToJson([mode |-> m, ops |-> hist])>>)
=============================================================================
