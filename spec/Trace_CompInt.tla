--------------------------- MODULE Trace_CompInt ---------------------------
(* Trace validation for C20: every recorded call of the real encoder and      *)
(* decoder (made on buffers that end at an inaccessible page) must be         *)
(* explained by the CompInt contract.  A Crash event has no action.           *)
EXTENDS Naturals, Sequences, TLC, Json, IOUtils
C == INSTANCE CompInt

TraceLog == ndJsonDeserialize(IOEnv.TRACE)

VARIABLES l, nOk, nRej
vars == <<l, nOk, nRej>>

Init == l = 1 /\ nOk = 0 /\ nRej = 0

IsEvent(op) == l <= Len(TraceLog) /\ TraceLog[l].op = op /\ l' = l + 1

\* decode: buf holds exactly the lim bytes that were accessible
TDec == /\ IsEvent("dec")
        /\ LET e == TraceLog[l]
               d == C!Decode(e.buf, e.off, e.lim, e.kind) IN
           /\ (e.ret = 1) <=> d.ok
           /\ d.ok => (e.val = d.digits /\ e.len = d.len)
           /\ nOk'  = IF d.ok THEN nOk + 1 ELSE nOk
           /\ nRej' = IF d.ok THEN nRej ELSE nRej + 1

\* encode followed by decode of what was produced
TEnc == /\ IsEvent("enc")
        /\ LET e == TraceLog[l] IN
           /\ e.ret = 1
           /\ e.bytes = C!Encode(e.val)
           /\ Len(e.bytes) <= C!MaxLen /\ e.len = Len(e.bytes)
           /\ e.dret = 1 /\ e.dval = e.val /\ e.dlen = Len(e.bytes)
           /\ C!EncodeDecode(e.val)
        /\ nOk' = nOk + 1 /\ UNCHANGED nRej

\* encoding a negative int must be refused
TEncNeg == /\ IsEvent("encneg") /\ TraceLog[l].ret = 0
           /\ nRej' = nRej + 1 /\ UNCHANGED nOk

Next == TDec \/ TEnc \/ TEncNeg
Spec == Init /\ [][Next]_vars

Accepted == /\ PrintT(<<"MATCHED", TLCGet("stats").diameter - 1, Len(TraceLog)>>)
            /\ TLCGet("stats").diameter - 1 = Len(TraceLog)
=============================================================================
