SPECIFICATION Spec
CONSTANT MaxOps = 3
INVARIANT Emit
CHECK_DEADLOCK FALSE
