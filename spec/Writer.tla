------------------------------- MODULE Writer -------------------------------
(* Contract of the writing side (C01) and of chunking determinism/locality    *)
(* (C16).  Facts about the produced file come from the reference codec:      *)
(*   valid      header sealed, every chunk and the whole-data checksum match  *)
(*   contentEq  the reference decoder's content equals the concatenation of   *)
(*              everything the successful write calls were given              *)
(*   total      length of that content          cutsOk  every accepted        *)
(*              end-of-chunk request is a chunk boundary of the file          *)
EXTENDS Naturals, Sequences

VARIABLES wlen, wok, wclosed, runs
wvars == <<wlen, wok, wclosed, runs>>
WInit == wlen = 0 /\ wok = TRUE /\ wclosed = FALSE /\ runs = <<>>

WStart == wlen' = 0 /\ wok' = TRUE /\ wclosed' = FALSE /\ UNCHANGED runs

\* zck_write(n): all or nothing
WWrite(n, ret) == /\ (ret = n \/ ret < 0)
                  /\ wlen' = IF ret >= 0 THEN wlen + ret ELSE wlen
                  /\ wok' = (wok /\ ret >= 0) /\ UNCHANGED <<wclosed, runs>>
WEndChunk(ret) == wok' = (wok /\ ret >= 0) /\ UNCHANGED <<wlen, wclosed, runs>>
WOption(ret) == UNCHANGED wvars      \* options may be refused; nothing is promised about that here

\* C01: a successful close never loses, duplicates or reorders bytes and yields a valid file
WClose(ret, f) ==
    /\ (ret = 1 /\ wok) => (f.valid /\ f.contentEq /\ f.total = wlen /\ f.cutsOk)
    /\ wclosed' = (ret = 1 /\ wok) /\ UNCHANGED <<wlen, wok, runs>>

\* the process ended inside a call (allocation-failure families only): no success was reported, nothing is promised
WAbort == wclosed' = FALSE /\ UNCHANGED <<wlen, wok, runs>>

\* C12: a close on a context that has seen failed calls (and zck_clear_error): if it reports success, the output is a valid
\* file whose content is the accepted writes - each failed write wholly in or wholly out - never something else
WCloseX(ret, f) ==
    /\ ret = 1 => (f.valid /\ f.contentSome)
    /\ wclosed' = FALSE /\ UNCHANGED <<wlen, wok, runs>>

\* C01: the file then opens, validates and reads back exactly, under any buffer sizes
WReadBack(openRet, valRet, delivered, eq, closeRet) ==
    /\ wclosed => (openRet = 1 /\ valRet = 1 /\ delivered = wlen /\ eq /\ closeRet = 1)
    /\ UNCHANGED wvars

\* end to end through the tools: zck exit 0 => output valid and decodes to the input; unzck exit 0 => output = input
WToolZck(status, f) == (status = 0 => (f.valid /\ f.contentEq)) /\ UNCHANGED wvars
WToolUnzck(zckStatus, status, outEq) == ((zckStatus = 0 /\ status = 0) => outEq) /\ (zckStatus = 0 => status = 0) /\ UNCHANGED wvars

\* C12: under an injected I/O fault only "exit 0 => complete correct output" is demanded
WToolUnzckFaulty(status, outEq) == (status = 0 => outEq) /\ UNCHANGED wvars
\* the same for any tool run (zck with a dictionary or split string, unzck --header / --dict, ...): outOk = the
\* file the tool was asked to produce exists and is exactly what a fault-free run produces
WToolFaulty(status, outOk) == (status = 0 => outOk) /\ UNCHANGED wvars

\* Beyond the listed properties (reported as specification drift, not as a violation): a header-only run
\* (ZCK_NO_WRITE) writes nothing and computes exactly the header the real run of the same content and configuration writes
WNoWrite(ret, hdrEq, outEmpty) == (ret = 1 => (hdrEq /\ outEmpty)) /\ UNCHANGED wvars

\* ---------------------------------------------------------------- C16
\* A finished run: cfg and content identify what was written, seg how; file = digest of the produced
\* file; chunks = data chunks in order as [ulen, end, fromEnd, id] (id = digest of checksum + stored bytes).
RunRec(e) == [cfg |-> e.cfg, content |-> e.content, file |-> e.file, chunks |-> e.chunks, len |-> e.len]

\* determinism / segmentation independence: same content + configuration => byte-identical file
WRun(e) == /\ \A k \in 1..Len(runs) : (runs[k].cfg = e.cfg /\ runs[k].content = e.content) => runs[k].file = e.file
           /\ runs' = Append(runs, RunRec(e)) /\ UNCHANGED <<wlen, wok, wclosed>>

\* prefix locality: a, b = run numbers, p = first differing byte position (0-based): every chunk that ends
\* strictly before p is identical in both
PrefixLocal(a, b, p) ==
    \A k \in 1..Len(runs[a].chunks) : runs[a].chunks[k].end < p =>
         (k <= Len(runs[b].chunks) /\ runs[b].chunks[k].id = runs[a].chunks[k].id /\ runs[b].chunks[k].ulen = runs[a].chunks[k].ulen)

\* suffix resynchronisation: s = length of the shared suffix: once both start a chunk at the same point of it,
\* all following chunks are identical
TailFrom(cs, k) == [j \in 1..(Len(cs) - k + 1) |-> [id |-> cs[k + j - 1].id, ulen |-> cs[k + j - 1].ulen]]
SuffixResync(a, b, s) ==
    \A i \in 1..Len(runs[a].chunks), j \in 1..Len(runs[b].chunks) :
        LET sa == runs[a].chunks[i].fromEnd + runs[a].chunks[i].ulen       \* distance of the chunk START from the end
            sb == runs[b].chunks[j].fromEnd + runs[b].chunks[j].ulen IN
        (sa = sb /\ sa <= s) => TailFrom(runs[a].chunks, i) = TailFrom(runs[b].chunks, j)

WPair(a, b, p, s) == a \in 1..Len(runs) /\ b \in 1..Len(runs) /\ runs[a].cfg = runs[b].cfg
                     /\ PrefixLocal(a, b, p) /\ PrefixLocal(b, a, p) /\ SuffixResync(a, b, s) /\ UNCHANGED wvars

\* every automatic chunk other than the last respects the effective minimum and maximum
WMinMax(a, lo, hi) == /\ a \in 1..Len(runs)
                      /\ \A k \in 1..(Len(runs[a].chunks) - 1) : runs[a].chunks[k].ulen >= lo /\ runs[a].chunks[k].ulen <= hi
                      /\ (Len(runs[a].chunks) > 0 => runs[a].chunks[Len(runs[a].chunks)].ulen <= hi)
                      /\ UNCHANGED wvars
=============================================================================
