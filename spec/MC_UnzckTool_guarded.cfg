SPECIFICATION Spec
CONSTANTS
 Variant = "guarded"
INVARIANTS SuccessMeansOutput InputUntouched OnlyOwnOutput
PROPERTY Terminates
CHECK_DEADLOCK FALSE
