------------------------------- MODULE Header -------------------------------
(* Contract of opening and inspecting a zchunk header (C06, C13, and the      *)
(* "every call returns" part of C03).                                         *)
(*                                                                            *)
(* The facts about a byte string offered as a file come from the reference    *)
(* parser (verif/ref.py, written from zchunk_format.txt):                     *)
(*   ok        every header field decodes inside its bounds                   *)
(*   sealed    stored header checksum = checksum of all header bytes          *)
(*             (identifier normalised to the full-file magic)                 *)
(*   supported no unknown flag, known compression type, no signatures,        *)
(*             declared chunk count = number of index entries >= 1            *)
(*   fits      every numeric field fits its destination type                  *)
(* Wide numbers are compared as decimal strings, never as TLC integers.       *)
EXTENDS Naturals, Sequences

VARIABLES phase,   \* "closed" | "open"
          facts    \* facts of the byte string the current context was opened on
hvars == <<phase, facts>>

NoFacts == [ok |-> FALSE, sealed |-> FALSE, supported |-> FALSE, fits |-> FALSE]
HInit == phase = "closed" /\ facts = NoFacts

\* C06: a file or detached header opens only if it is sealed;
\* C13: ... and only if every number in it is representable
Open(f, ret) ==
    /\ ret = 1 => (f.ok /\ f.sealed /\ f.supported /\ f.fits)
    /\ phase' = IF ret = 1 THEN "open" ELSE "closed"
    /\ facts' = f

\* a valid header that the reference writer emits in the ordinary way must open
OpenPlain(f, ret) ==
    /\ (f.ok /\ f.sealed /\ f.supported /\ f.fits) => ret = 1
    /\ Open(f, ret)

\* a value reported through a signed getter: equal to the file's, or negative (= an error indication)
SameOrError(rep, par) == rep = par \/ rep = "ERR"      \* the driver writes "ERR" for a negative return

\* C13: everything reported equals what the reference parser read from the same bytes
ChunkSame(r, p) ==
    /\ r.num = p.num /\ r.digest = p.digest /\ r.udigest = p.udigest
    /\ SameOrError(r.clen, p.clen) /\ SameOrError(r.ulen, p.ulen) /\ SameOrError(r.start, p.start)

Dump(rep, par) ==
    /\ phase = "open"
    /\ rep.flags = par.flags /\ rep.full_hash_type = par.full_hash_type
    /\ rep.chunk_hash_type = par.chunk_hash_type
    /\ rep.lead_length = par.lead_length /\ rep.header_length = par.header_length
    /\ SameOrError(rep.data_length, par.data_length) /\ SameOrError(rep.length, par.length)
    /\ rep.header_digest = par.header_digest /\ rep.data_digest = par.data_digest
    /\ rep.detached = par.detached
    /\ rep.chunk_count = par.chunk_count                      \* reported count = declared count ...
    /\ Len(rep.chunks) = Len(par.chunks) /\ Len(rep.chunks) >= 1   \* ... = chunks reachable by iteration >= 1
    /\ \A i \in 1..Len(rep.chunks) : ChunkSame(rep.chunks[i], par.chunks[i])
    \* a lookup by number returns that chunk, or nothing past the end - whatever was looked up before
    /\ \A i \in 1..Len(rep.bynum) :
          rep.bynum[i][2] = (IF rep.bynum[i][1] < Len(par.chunks) THEN rep.bynum[i][1] ELSE 0 - 1)
    /\ UNCHANGED hvars

\* C03 cursor discipline: the parsed sections lie inside the header buffer
Cursors(c) == c.lead + c.preface + c.index + c.sig <= c.hsize

\* C06 exhaustive substitution: at one header position, the set of substitute byte values with which
\* the file still opened must be a subset of those for which the header is (still) sealed
Substitution(accepted, sealedVals) ==
    \A i \in 1..Len(accepted) : \E j \in 1..Len(sealedVals) : accepted[i] = sealedVals[j]     \* both are sequences
=============================================================================
