---------------------------- MODULE ZckDlLadder ----------------------------
(* Implementation-shaped model of the request loop of src/zck_dl.c (main):    *)
(* the fallback ladder range_attempt = 255, 127, 7, 2, 1.  Each iteration     *)
(* asks the library for at most max_ranges separate ranges, moves ra_index    *)
(* along the ladder while the NEXT entry still exceeds the number of ranges   *)
(* actually needed, sends the request, and - when the server answers 200      *)
(* instead of 206 because it accepts fewer ranges per request (dl_range       *)
(* returns -1) - steps ra_index once more and takes max_ranges from there.    *)
(* Missing = separate missing extents of the target (no two adjacent);        *)
(* Cap = ranges per request the server accepts (>= 1: the two header          *)
(* requests, single ranges, were answered with 206, or this loop is not       *)
(* reached).                                                                  *)
(* Checked for every Missing <= MaxMissing and every Cap in Caps: the index   *)
(* stays inside the table (the C code reads range_attempt[ra_index+1]         *)
(* unguarded), every accepted request makes progress, no request after a      *)
(* refusal repeats the refused size, and the loop terminates with nothing     *)
(* missing.  Variant "nostep" (max_ranges not reduced on a refusal) is the    *)
(* livelock the ladder exists to avoid.                                       *)
EXTENDS Naturals, Sequences, TLC
CONSTANTS MaxMissing, Caps, Variant

Ladder == <<255, 127, 7, 2, 1>>
VARIABLES missing, cap, ra, maxr, pc, lastRefused, requests
vars == <<missing, cap, ra, maxr, pc, lastRefused, requests>>

Min(a, b) == IF a < b THEN a ELSE b
Init == /\ missing \in 1..MaxMissing /\ cap \in Caps /\ ra = 1 /\ maxr = Ladder[1]
        /\ pc = "loop" /\ lastRefused = 0 /\ requests = 0

\* while(range_attempt[ra_index] > 1 && range_attempt[ra_index+1] > count) ra_index++   (1-based here)
RECURSIVE Advance(_, _)
Advance(i, count) == IF i < Len(Ladder) /\ Ladder[i] > 1 /\ Ladder[i + 1] > count THEN Advance(i + 1, count) ELSE i

Iterate ==
    /\ pc = "loop" /\ missing > 0
    /\ LET count == Min(missing, maxr)
           i == Advance(ra, count)
       IN IF count <= cap
          THEN \* 206: every requested chunk arrives and verifies
               /\ missing' = missing - count /\ ra' = i /\ lastRefused' = 0
               /\ UNCHANGED <<cap, maxr>>
          ELSE \* 200: too many ranges for this server
               /\ lastRefused' = count
               /\ IF maxr > 1 /\ Variant # "nostep"
                  THEN ra' = i + 1 /\ maxr' = Ladder[i + 1]
                  ELSE ra' = i /\ UNCHANGED maxr
               /\ UNCHANGED <<missing, cap>>
    /\ requests' = requests + 1 /\ pc' = "loop"
Finish == pc = "loop" /\ missing = 0 /\ pc' = "done" /\ UNCHANGED <<missing, cap, ra, maxr, lastRefused, requests>>
Next == Iterate \/ Finish \/ (pc = "done" /\ UNCHANGED vars)
Spec == Init /\ [][Next]_vars /\ WF_vars(Iterate) /\ WF_vars(Finish)

IndexInTable == ra \in 1..Len(Ladder) /\ (Ladder[ra] > 1 => ra + 1 <= Len(Ladder))
MaxFromLadder == \E j \in 1..Len(Ladder) : maxr = Ladder[j]
\* after a refusal the next request is never larger.  (It can be EQUAL once: with ra_index moved ahead by the while loop the
\* step lands on an entry that still admits the refused size - 2 missing ranges, a server accepting 1: sizes 2, 2, 1 -
\* one wasted request, not a violation of any listed property.)
ShrinksAfterRefusal == (lastRefused > 0 /\ missing > 0) => Min(missing, maxr) <= lastRefused
\* at most one refusal per ladder step: the number of requests is bounded by the accepted ones plus the ladder length
BoundedRequests == requests <= MaxMissing + Len(Ladder)
Terminates == <>(pc = "done")
=============================================================================
