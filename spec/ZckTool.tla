------------------------------ MODULE ZckTool ------------------------------
(* Implementation-shaped model of the split-string scanner of the zck tool    *)
(* (src/zck.c, main loop): the input arrives in blocks of any size 1..B       *)
(* (read(2) may return short counts), the scanner keeps `matched` across      *)
(* blocks, and calls zck_write / zck_end_chunk.  What must hold (C01): the    *)
(* concatenation of everything passed to zck_write equals the input, no size  *)
(* argument is negative, and chunk ends are requested only in front of an     *)
(* occurrence of the split string.                                            *)
(*                                                                            *)
(* Variant "orig"  = the pinned commit (three defects: a byte lost when the   *)
(* split string starts at block offset 1, a trailing partial match never      *)
(* flushed, a negative size when a carried-over partial match is longer than  *)
(* a short block).  Variant "fixed" = after the fix: commit.                  *)
EXTENDS Naturals, Integers, Sequences, SequencesExt, TLC
CONSTANTS Alphabet, Splits, MaxLen, B, Variant

VARIABLES input, split, pos,        \* whole input, split string, bytes consumed so far
          block, l, start, matched, \* current block and the scanner's variables
          written,                  \* concatenation of the zck_write arguments
          cuts,                     \* positions (in `written`) where zck_end_chunk was called
          bad, pc
vars == <<input, split, pos, block, l, start, matched, written, cuts, bad, pc>>

Inputs == UNION { [1..n -> Alphabet] : n \in 0..MaxLen }

Init == /\ input \in Inputs /\ split \in Splits
        /\ pos = 0 /\ block = <<>> /\ l = 0 /\ start = 0 /\ matched = 0
        /\ written = <<>> /\ cuts = {} /\ bad = FALSE /\ pc = "read"

\* write_data(zck, data + off, n) on the current block (0-based offset)
WBlock(off, n) == IF n < 0 THEN [w |-> written, bad |-> TRUE]
                  ELSE [w |-> written \o SubSeq(block, off + 1, off + n), bad |-> bad]
WSplit(n) == IF n < 0 THEN [w |-> written, bad |-> TRUE]
             ELSE [w |-> written \o SubSeq(split, 1, n), bad |-> bad]

\* read(2): any non-empty prefix of what is left, at most B bytes; 0 at end of file
Read == /\ pc = "read"
        /\ IF pos = Len(input)
           THEN /\ pc' = "eof" /\ UNCHANGED <<block, l, start, pos>>
           ELSE \E n \in 1..B :
                  /\ n <= Len(input) - pos
                  /\ block' = SubSeq(input, pos + 1, pos + n) /\ pos' = pos + n
                  /\ l' = 0 /\ start' = 0 /\ pc' = "scan"
        /\ UNCHANGED <<input, split, matched, written, cuts, bad>>

\* one iteration of  for(l = 0; l < in_size; l++)
Scan == /\ pc = "scan" /\ l < Len(block)
        /\ IF block[l + 1] = split[matched + 1]
           THEN IF matched + 1 = Len(split)
                THEN \* whole split string seen: flush what precedes it, end the chunk, write the split string
                     LET m == matched + 1
                         pre == IF Variant = "orig"
                                THEN (IF l > m THEN WBlock(start, l - (start + m - 1)) ELSE [w |-> written, bad |-> bad])
                                ELSE (IF l + 1 - m > start THEN WBlock(start, (l + 1 - m) - start) ELSE [w |-> written, bad |-> bad])
                     IN /\ written' = pre.w \o split
                        /\ bad' = pre.bad
                        /\ cuts' = cuts \cup {Len(pre.w)}
                        /\ start' = l + 1 /\ matched' = 0
                ELSE /\ matched' = matched + 1 /\ UNCHANGED <<written, cuts, bad, start>>
           ELSE IF matched > 0
                THEN \* partial match broken: the part that lay in earlier blocks was withheld, write it now
                     LET r == IF l < matched THEN WSplit(matched - l) ELSE [w |-> written, bad |-> bad]
                     IN /\ written' = r.w /\ bad' = r.bad /\ matched' = 0 /\ UNCHANGED <<cuts, start>>
                ELSE UNCHANGED <<matched, written, cuts, bad, start>>
        /\ l' = l + 1 /\ UNCHANGED <<input, split, pos, block, pc>>

\* after the loop: write the rest of the block, withholding a trailing partial match
Flush == /\ pc = "scan" /\ l = Len(block)
         /\ LET n == IF Variant = "orig" THEN Len(block) - (start + matched)
                     ELSE (IF matched > Len(block) - start THEN 0 ELSE Len(block) - (start + matched))
                r == WBlock(start, n)
            IN written' = r.w /\ bad' = r.bad
         /\ pc' = "read" /\ UNCHANGED <<input, split, pos, block, l, start, matched, cuts>>

\* end of input: (fixed) a withheld partial match is data and must still be written
Eof == /\ pc = "eof"
       /\ IF Variant = "fixed" /\ matched > 0
          THEN LET r == WSplit(matched) IN written' = r.w /\ bad' = r.bad
          ELSE UNCHANGED <<written, bad>>
       /\ pc' = "done" /\ UNCHANGED <<input, split, pos, block, l, start, matched, cuts>>

Next == Read \/ Scan \/ Flush \/ Eof \/ (pc = "done" /\ UNCHANGED vars)
Spec == Init /\ [][Next]_vars /\ WF_vars(Read \/ Scan \/ Flush \/ Eof)

\* ---- properties
ToolFeedsInput  == pc = "done" => written = input
NoNegativeSize  == ~bad
NeverAhead      == Len(written) <= pos                       \* nothing is invented
\* a chunk end is requested only directly in front of an occurrence of the split string
CutsAtOccurrences == \A c \in cuts : c + Len(split) <= Len(written) /\ SubSeq(written, c + 1, c + Len(split)) = split
Terminates      == <>(pc = "done")
=============================================================================
