------------------------------- MODULE Threads -------------------------------
(* C19: operations on distinct contexts from different threads.               *)
(*                                                                            *)
(* Model: N threads, each running a fixed sequence of steps on its own        *)
(* context.  A step reads and writes the thread's private context state; if   *)
(* SharedScratch is TRUE the step also goes through a process-wide scratch    *)
(* cell G (fill it, then use it), as a static buffer would.  TLC explores     *)
(* every interleaving and compares each thread's result with the result of    *)
(* running it alone.  With SharedScratch = FALSE the results are independent  *)
(* of the schedule; with TRUE TLC exhibits the corruption (kept as a          *)
(* documented counterexample in MC_Threads_shared.cfg).                       *)
(*                                                                            *)
(* The contract half (used for trace validation) is Footprint / SameAsSerial. *)
EXTENDS Naturals, Sequences, FiniteSets, TLC
CONSTANTS N, Steps, SharedScratch

VARIABLES pc, acc, G, phase
vars == <<pc, acc, G, phase>>
Thr == 1..N

\* the value a step contributes: distinct per (thread, step)
Val(t, k) == t * 10 + k
\* the result of running thread t alone
Serial(t) == [k \in 1..Steps |-> Val(t, k)]

Init == pc = [t \in Thr |-> 1] /\ acc = [t \in Thr |-> <<>>] /\ G = 0 /\ phase = [t \in Thr |-> "fill"]

\* with a shared scratch a step is two actions: fill G, then consume G (another thread may run in between)
Fill(t) == /\ pc[t] <= Steps /\ phase[t] = "fill"
           /\ IF SharedScratch THEN G' = Val(t, pc[t]) ELSE UNCHANGED G
           /\ phase' = [phase EXCEPT ![t] = "use"] /\ UNCHANGED <<pc, acc>>
Use(t)  == /\ pc[t] <= Steps /\ phase[t] = "use"
           /\ acc' = [acc EXCEPT ![t] = Append(@, IF SharedScratch THEN G ELSE Val(t, pc[t]))]
           /\ pc' = [pc EXCEPT ![t] = @ + 1] /\ phase' = [phase EXCEPT ![t] = "fill"] /\ UNCHANGED G
Next == (\E t \in Thr : Fill(t) \/ Use(t)) \/ ((\A t \in Thr : pc[t] > Steps) /\ UNCHANGED vars)
Spec == Init /\ [][Next]_vars

SameAsSerialModel == \A t \in Thr : pc[t] > Steps => acc[t] = Serial(t)

\* (the contract half used for trace validation is in ThreadsContract.tla)
=============================================================================
