------------------------------- MODULE Range -------------------------------
(* Contract of missing-range requests (C10).                                  *)
(*                                                                            *)
(* T   : the chunk table, a sequence of [clen, start] (start = running sum of *)
(*       stored sizes, relative to the end of the header)                     *)
(* H   : total header length        v : validity vector (0 = missing)         *)
(* m   : limit on the number of ranges (negative = unlimited)                 *)
(* R   : the request, a sequence of inclusive ranges [s, e]                   *)
(* cnt : the reported range count                                             *)
(* X   : the range index, a sequence of [src, clen, start] (src = 0-based     *)
(*       chunk number) ; W : for each X entry the index of the range that     *)
(*       contains it (0 for a zero-length chunk) - a witness, checked here    *)
EXTENDS Naturals, Sequences, SequencesExt, FiniteSets

MissingSeq(v) == SelectSeq([i \in 1..Len(v) |-> i], LAMBDA i : v[i] = 0)
SumSeq(s) == FoldLeft(LAMBDA a, x : a + x, 0, s)
MaxOf(a, b) == IF a > b THEN a ELSE b

WellFormedRanges(R) ==
    /\ \A j \in 1..Len(R) : R[j].s <= R[j].e
    /\ \A j \in 1..(Len(R) - 1) : R[j].e + 1 < R[j + 1].s       \* ascending, disjoint, non-adjacent

Good(T, H, v, m, R, cnt, X, W) ==
    LET M == MissingSeq(v)
        k == Len(X) IN
    /\ k <= Len(M) /\ Len(W) = k
    /\ (m < 0 => k = Len(M))                                     \* unlimited: all of them
    /\ (Len(M) > 0 => k >= 1)                                    \* at least one when any is missing
    /\ \A j \in 1..k : /\ X[j].src = M[j] - 1                    \* exactly a prefix, in file order
                       /\ X[j].clen = T[M[j]].clen
                       /\ X[j].start = IF j = 1 THEN 0 ELSE X[j - 1].start + X[j - 1].clen
    /\ WellFormedRanges(R)
    /\ \A j \in 1..k :                                           \* every covered chunk lies in a range
          IF T[M[j]].clen = 0 THEN TRUE
          ELSE /\ W[j] \in 1..Len(R)
               /\ R[W[j]].s <= H + T[M[j]].start
               /\ H + T[M[j]].start + T[M[j]].clen - 1 <= R[W[j]].e
    /\ SumSeq([j \in 1..Len(R) |-> R[j].e - R[j].s + 1]) = SumSeq([j \in 1..k |-> X[j].clen])
                                                                 \* ... and nothing else does
    /\ (m >= 0 => Len(R) <= MaxOf(m, 1))                        \* never more separate ranges than max(limit, 1)
    /\ cnt = Len(R)

\* the rendered request: parsed back into ranges by the reference codec (strict grammar
\* start-end[,start-end]*), it must be exactly R
Rendered(R, parseOk, S) == parseOk /\ S = R
=============================================================================
