----------------------------- MODULE Trace_Writer -----------------------------
EXTENDS Writer, TLC, Json, IOUtils
TraceLog == ndJsonDeserialize(IOEnv.TRACE)
VARIABLE l
tvars == <<wvars, l>>
E == TraceLog[l]
IsEvent(op) == l <= Len(TraceLog) /\ TraceLog[l].op = op /\ l' = l + 1

TStart    == IsEvent("wstart")   /\ WStart
TWrite    == IsEvent("write")    /\ WWrite(E.n, E.ret)
TEndChunk == IsEvent("endchunk") /\ WEndChunk(E.ret)
TOption   == IsEvent("option")   /\ WOption(E.ret)
TClose    == IsEvent("wclose")   /\ WClose(E.ret, E.f)
TReadBack == IsEvent("readback") /\ WReadBack(E.openRet, E.valRet, E.delivered, E.eq, E.closeRet)
TZck      == IsEvent("zck")      /\ WToolZck(E.status, E.f)
TUnzck    == IsEvent("unzck")    /\ WToolUnzck(E.zckStatus, E.status, E.outEq)
TUnzckF   == IsEvent("unzckf")   /\ WToolUnzckFaulty(E.status, E.outEq)
TNoWrite  == IsEvent("nowrite")  /\ WNoWrite(E.ret, E.hdrEq, E.outEmpty)
TToolF    == IsEvent("toolf")    /\ WToolFaulty(E.status, E.outOk)
TRun      == IsEvent("run")      /\ WRun(E)
\* a run that was already reported as a violation: recorded (to keep run numbers) but not compared again
TRunX     == IsEvent("runx")     /\ runs' = Append(runs, RunRec(E)) /\ UNCHANGED <<wlen, wok, wclosed>>
TPair     == IsEvent("pair")     /\ WPair(E.a, E.b, E.p, E.s)
TMinMax   == IsEvent("minmax")   /\ WMinMax(E.a, E.lo, E.hi)
TForget   == IsEvent("forget")   /\ runs' = <<>> /\ UNCHANGED <<wlen, wok, wclosed>>

Init == WInit /\ l = 1
TCloseX   == IsEvent("wclosex")  /\ WCloseX(E.ret, E.f)
TAbort    == IsEvent("abort")    /\ WAbort
Next == TAbort \/ TCloseX \/ TStart \/ TWrite \/ TEndChunk \/ TOption \/ TClose \/ TReadBack \/ TZck \/ TUnzck \/ TUnzckF \/ TToolF \/ TNoWrite \/ TRun \/ TRunX \/ TPair \/ TMinMax \/ TForget
Spec == Init /\ [][Next]_tvars
Accepted == /\ PrintT(<<"MATCHED", TLCGet("stats").diameter - 1, Len(TraceLog)>>)
            /\ TLCGet("stats").diameter - 1 = Len(TraceLog)
=============================================================================
