---- MODULE MC_WriterImpl ----
EXTENDS WriterImpl
MCCutSet == { <<"a", "b">> }
MCCutSet3 == { <<"a", "a", "b">>, <<"b", "a", "b">>, <<"b", "b", "a">> }
====
