-------------------------------- MODULE Ctx --------------------------------
(* Life cycle of one zckCtx: mode, the sticky error state, option phases.     *)
(*                                                                            *)
(* This module covers behaviour behind C12's anchors (the error flag that     *)
(* makes later calls on a context fail) and goes beyond the listed            *)
(* properties (option phases, zck_clear_error).  Its obligations therefore    *)
(* come in two classes:                                                       *)
(*   C12 class  - an operational call during which an injected I/O fault made *)
(*                a system call fail must not report success;                 *)
(*   life cycle - everything else below.  A deviation from these is reported  *)
(*                as specification drift in the evidence, not as a violation  *)
(*                of a listed property (Strict selects the class).            *)
(*                                                                            *)
(* Calls are classified: cls = "W" (needs a context opened for writing:       *)
(* zck_write, zck_end_chunk, compression options), "R" (needs reading mode:   *)
(* zck_read, the validators, validation options), "X" (either: zck_close).    *)
EXTENDS Naturals
CONSTANT Strict

VARIABLES mode,      \* "none" | "read" | "write"
          es,        \* error state before the next call: 0 ok, 1 error, 2 fatal
          started    \* writing: compression has been initialised (first write / end of chunk / close)
cvars == <<mode, es, started>>

CInit == mode = "none" /\ es = 0 /\ started = FALSE

\* zck_init_write / zck_init_read on a fresh context
COpen(m, ok, es2) ==
    /\ mode = "none"
    /\ mode' = IF ok THEN m ELSE "none"
    /\ es' = es2 /\ started' = FALSE

WrongMode(cls) == (cls = "W" /\ mode # "write") \/ (cls = "R" /\ mode # "read")

\* an operational call.  ok = it reported success; es2 = error state after it; firedErr = an injected fault made
\* a system call of this call fail with an errno; starts = a successful call of this kind initialises compression;
\* late = a compression option that is only accepted before compression is initialised; ends = a successful call of
\* this kind (zck_close) shuts compression down again (options are accepted once more)
CCall(cls, ok, es2, firedErr, starts, late, ends) ==
    /\ firedErr => ~ok                                            \* C12 class
    /\ Strict =>
         /\ es > 0 => (~ok /\ es2 = es)                           \* sticky: a context in error refuses, and stays as it is
         /\ (es = 0 /\ WrongMode(cls)) => (~ok /\ es2 >= 1)       \* wrong mode: refused and recorded
         /\ es2 >= es                                             \* only zck_clear_error lowers the error state
         /\ (es = 0 /\ late /\ started) => ~ok                    \* too late for this option
         /\ (firedErr /\ es = 0) => es2 >= 1                      \* the failure is recorded on the context
    /\ es' = es2
    /\ started' = IF ok /\ ends THEN FALSE ELSE (started \/ (ok /\ starts /\ mode = "write"))
    /\ UNCHANGED mode

\* zck_clear_error: clears a recoverable error, refuses a fatal one
CClear(ok, es2) ==
    /\ Strict => (ok = (es <= 1) /\ es2 = (IF es <= 1 THEN 0 ELSE es))
    /\ es' = es2 /\ UNCHANGED <<mode, started>>

\* zck_is_error reports the state
CIsError(v) == (Strict => v = es) /\ UNCHANGED cvars
=============================================================================
