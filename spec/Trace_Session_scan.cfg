SPECIFICATION Spec
CONSTANT Judge = {"scan"}
POSTCONDITION Accepted
CHECK_DEADLOCK FALSE
