----------------------------- MODULE DlSession -----------------------------
(* Implementation-shaped model of ONE download handle (zckDL) and ONE target  *)
(* context over several requests of an update: src/lib/dl/dl.c                *)
(* zck_dl_reset, zck_header_cb (boundary), zck_write_chunk_cb,                *)
(* dl_write_range / dl_write / set_chunk_valid / zero_chunk, with the target  *)
(* descriptor's file offset as shared state (the library seeks only when a    *)
(* chunk starts; a validity scan between requests leaves the offset at the    *)
(* start of the data).                                                        *)
(*                                                                            *)
(* The target has N chunks of L cells each.  A response carries, for the      *)
(* requested chunks X in order, the cells <<c, i, ok>> (ok = FALSE: damaged   *)
(* in transit).  A response for one contiguous run is a plain body, otherwise *)
(* multipart with a boundary of its own; the multipart parser is abstracted   *)
(* to its effect: with the response's boundary on the handle the payload      *)
(* reaches dl_write_range, with a boundary on the handle that is not the      *)
(* response's (or a plain body while a boundary is set) every byte is         *)
(* buffered as "unfinished part header" and the callback reports success.     *)
(* (multipart_extract itself: MultipartImpl.)                                 *)
(*                                                                            *)
(* Keep = the handle fields zck_dl_reset does NOT clear.  {} is the code as   *)
(* it is (memset of the whole struct).  Each of the singletons is a change    *)
(* sub-agents proposed independently as an "explicit per-field reset"         *)
(* (seeded C04-w5m1, C05-w5m1, C17-w5m1, C04-w6m1, C05-w6m2, C17-w6m1): TLC   *)
(* exhibits, for each, a session that ends wrong - a requested chunk never    *)
(* completed, bytes outside the requested extents, or a valid chunk wiped.    *)
EXTENDS Naturals, Integers, Sequences, FiniteSets, TLC
CONSTANTS N, L, Keep, MaxRounds

Chunks == 1..N
Total == N * L
Start(c) == (c - 1) * L
ChunkAt(o) == (o \div L) + 1
RightCell(o) == <<ChunkAt(o), (o % L) + 1, TRUE>>

VARIABLES disk,      \* [0..Total-1 -> {"old", "good", "zero", "junk"}]
          valid,     \* [Chunks -> {0, 1, -1}]
          foff,      \* file offset inside the data (0..Total), or -1 = somewhere in the header
          wic, tgt, dlData, boundary,     \* write_in_chunk, tgt_check (0 = NULL), dl_chunk_data, boundary (0 = NULL)
          acc,       \* what the running chunk checksum has been fed since its last init
          X, cur,    \* the request: chunks in file order; range index cursor
          resp, pos, rb,   \* response body (cells), cells delivered, the response's boundary (0 = plain)
          phase, round, cbErr, outside, wiped
vars == <<disk, valid, foff, wic, tgt, dlData, boundary, acc, X, cur, resp, pos, rb, phase, round, cbErr, outside, wiped>>

\* any part of the target may already be there (copied from a local source, or left by an earlier run) and marked valid
Init == /\ \E have \in SUBSET Chunks : /\ have # Chunks
                                       /\ disk = [o \in 0..(Total - 1) |-> IF ChunkAt(o) \in have THEN "good" ELSE "old"]
                                       /\ valid = [c \in Chunks |-> IF c \in have THEN 1 ELSE 0]
        /\ foff = 0 - 1 /\ wic = 0 /\ tgt = 0 /\ dlData = 0 /\ boundary = 0 /\ acc = <<>>
        /\ X = <<>> /\ cur = 1 /\ resp = <<>> /\ pos = 0 /\ rb = 0
        /\ phase = "idle" /\ round = 0 /\ cbErr = FALSE /\ outside = FALSE /\ wiped = FALSE

\* ---- what the client does between requests (the documented procedure resets failed chunks; it may also rescan)
Scan == /\ phase = "idle" /\ round > 0
        /\ valid' = [c \in Chunks |-> IF \A o \in Start(c)..(Start(c) + L - 1) : disk[o] = "good" THEN 1 ELSE 0 - 1]
        /\ foff' = 0 /\ acc' = <<>>
        /\ UNCHANGED <<disk, wic, tgt, dlData, boundary, X, cur, resp, pos, rb, phase, round, cbErr, outside, wiped>>

\* a chunk turns up in a local source and is copied in between two requests (zck_copy_chunks: seek, write, verify, mark valid)
Copy == /\ phase = "idle" /\ round > 0
        /\ \E c \in Chunks : /\ valid[c] # 1
                             /\ disk' = [o \in 0..(Total - 1) |-> IF ChunkAt(o) = c THEN "good" ELSE disk[o]]
                             /\ valid' = [valid EXCEPT ![c] = 1] /\ foff' = Start(c) + L
        /\ acc' = <<>>
        /\ UNCHANGED <<wic, tgt, dlData, boundary, X, cur, resp, pos, rb, phase, round, cbErr, outside, wiped>>

SeqOfSet(S) == LET F[k \in 0..N] == IF k = 0 THEN <<>> ELSE IF k \in S THEN Append(F[k - 1], k) ELSE F[k - 1] IN F[N]
Contiguous(s) == \A k \in 1..(Len(s) - 1) : s[k + 1] = s[k] + 1
ReqStart(k) == (k - 1) * L          \* offset of the k-th requested chunk in the concatenated payload

\* zck_reset_failed_chunks; zck_dl_reset; zck_get_missing_range; zck_dl_set_range; the server answers.
\* kind: "good" | "corrupt" (one damaged cell) | "stop" (the transfer ends after some cells).  The LAST round is always good.
Request(kind, where) ==
    /\ phase = "idle" /\ round < MaxRounds
    /\ (round = MaxRounds - 1) => kind = "good"
    /\ LET v2 == [c \in Chunks |-> IF valid[c] = 0 - 1 THEN 0 ELSE valid[c]]
           miss == SeqOfSet({c \in Chunks : v2[c] = 0})
           cells == [k \in 1..(Len(miss) * L) |-> <<miss[((k - 1) \div L) + 1], ((k - 1) % L) + 1, ~(kind = "corrupt" /\ k = where)>>]
       IN /\ miss # <<>>
          /\ where \in 1..(Len(miss) * L)
          /\ valid' = v2 /\ X' = miss /\ cur' = 1
          /\ resp' = (IF kind = "stop" THEN SubSeq(cells, 1, where - 1) ELSE cells) /\ pos' = 0
          /\ rb' = (IF Contiguous(miss) THEN 0 ELSE round + 1)
          \* zck_dl_reset, then zck_header_cb on the response's header lines (a multipart Content-Type sets the boundary)
          /\ wic' = (IF "wic" \in Keep THEN wic ELSE 0)
          /\ tgt' = (IF "tgt" \in Keep THEN tgt ELSE 0)
          /\ dlData' = (IF "dlData" \in Keep THEN dlData ELSE 0)
          /\ boundary' = (IF ~Contiguous(miss) THEN round + 1 ELSE IF "boundary" \in Keep THEN boundary ELSE 0)
          /\ phase' = "body" /\ round' = round + 1 /\ cbErr' = FALSE
          /\ UNCHANGED <<disk, foff, acc, outside, wiped>>

\* ---- dl_write_range on a run of cells; st is a record of the mutable state
InX(c) == \E k \in 1..Len(X) : X[k] = c
PutCell(st, cell) ==
    LET o == st.foff IN
    IF o < 0 \/ o >= Total THEN [st EXCEPT !.outside = TRUE, !.foff = IF o < 0 THEN o ELSE o + 1]
    ELSE [st EXCEPT !.disk[o] = (IF cell = RightCell(o) THEN "good" ELSE "junk"),
                    !.outside = (st.outside \/ ~InX(ChunkAt(o))),
                    !.wiped = (st.wiped \/ (st.valid[ChunkAt(o)] = 1 /\ cell # RightCell(o))),
                    !.foff = o + 1]
RECURSIVE PutCells(_, _)
PutCells(st, cells) == IF cells = <<>> THEN st ELSE PutCells(PutCell(st, Head(cells)), Tail(cells))

ZeroChunk(st, c) == [st EXCEPT !.disk = [o \in 0..(Total - 1) |-> IF o \in Start(c)..(Start(c) + L - 1) THEN "zero" ELSE st.disk[o]],
                               !.foff = Start(c) + L,
                               !.outside = (st.outside \/ ~InX(c)),
                               !.wiped = (st.wiped \/ st.valid[c] = 1)]

RECURSIVE WriteRange(_, _)
WriteRange(st, cells) ==
    IF ~st.ok THEN st
    ELSE LET take == IF st.wic < Len(cells) THEN st.wic ELSE Len(cells)
             s0 == PutCells(st, SubSeq(cells, 1, take))
             s1 == [s0 EXCEPT !.acc = st.acc \o SubSeq(cells, 1, take), !.wic = st.wic - take, !.dlData = st.dlData + take]
             rest == SubSeq(cells, take + 1, Len(cells))
         IN IF s1.wic > 0 THEN s1
            ELSE LET s2 == IF s1.tgt = 0 THEN s1
                           ELSE IF s1.acc = [i \in 1..L |-> <<s1.tgt, i, TRUE>>]
                                THEN [s1 EXCEPT !.valid[s1.tgt] = 1, !.tgt = 0]
                                ELSE [ZeroChunk(s1, s1.tgt) EXCEPT !.valid[s1.tgt] = 0 - 1, !.ok = FALSE]     \* tgt_check stays set
                     nxt == { k \in s2.cur..Len(X) : ReqStart(k) = s2.dlData /\ s2.valid[X[k]] # 1 }
                 IN IF ~s2.ok THEN s2
                    ELSE IF nxt = {} THEN (IF take = 0 /\ rest # <<>> THEN [s2 EXCEPT !.ok = FALSE] ELSE s2)    \* data with nowhere to go: 0 is returned
                    ELSE LET k == CHOOSE k \in nxt : \A j \in nxt : k <= j
                             s3 == [s2 EXCEPT !.tgt = X[k], !.wic = L, !.cur = k + 1, !.foff = Start(X[k]), !.acc = <<>>]
                         IN IF rest = <<>> THEN s3 ELSE WriteRange(s3, rest)

St == [ok |-> TRUE, disk |-> disk, valid |-> valid, foff |-> foff, wic |-> wic, tgt |-> tgt, dlData |-> dlData, acc |-> acc, cur |-> cur,
       outside |-> outside, wiped |-> wiped]

\* zck_write_chunk_cb on one fragment
Deliver ==
    /\ phase = "body" /\ pos < Len(resp) /\ ~cbErr
    /\ \E n \in 1..(Len(resp) - pos) :
         LET frag == SubSeq(resp, pos + 1, pos + n)
             swallowed == boundary # 0 /\ boundary # rb            \* the parser waits for a delimiter that never comes
             r == IF swallowed THEN St ELSE WriteRange(St, frag)
         IN /\ pos' = pos + n
            /\ disk' = r.disk /\ valid' = r.valid /\ foff' = r.foff /\ wic' = r.wic /\ tgt' = r.tgt /\ dlData' = r.dlData
            /\ acc' = r.acc /\ cur' = r.cur /\ outside' = r.outside /\ wiped' = r.wiped /\ cbErr' = ~r.ok
            /\ UNCHANGED <<boundary, X, resp, rb, phase, round>>

\* the transfer is over (everything delivered, or a callback refused): back to the client
EndOfResponse == /\ phase = "body" /\ (pos = Len(resp) \/ cbErr)
                 /\ phase' = "idle"
                 /\ UNCHANGED <<disk, valid, foff, wic, tgt, dlData, boundary, acc, X, cur, resp, pos, rb, round, cbErr, outside, wiped>>

Next == \/ Scan \/ Copy
        \/ \E kind \in {"good", "corrupt", "stop"}, w \in 1..Total : Request(kind, w)
        \/ Deliver \/ EndOfResponse
        \/ (phase = "idle" /\ round = MaxRounds /\ UNCHANGED vars)
Spec == Init /\ [][Next]_vars

\* ---- properties (C05 / C04 / C17 on one handle over several requests)
ValidImpliesGood == \A c \in Chunks : valid[c] = 1 => \A o \in Start(c)..(Start(c) + L - 1) : disk[o] = "good"
Confinement == ~outside                   \* nothing outside the extents of the chunks being requested is written
NoValidChunkWiped == ~wiped               \* a chunk that was valid is never overwritten with other bytes
\* a well-formed, undamaged response is accepted to the end and completes every requested chunk: after the last round
\* (always good, and requesting everything still missing) the file is complete
Completes == (phase = "idle" /\ round = MaxRounds) => \A c \in Chunks : valid[c] = 1
=============================================================================
