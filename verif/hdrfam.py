"""Family of headers emitted by the reference writer: structurally valid ones at boundary values and
re-sealed field mutations (shared by C13 and C03)."""
import random
from . import ref

BOUND = [0, 1, 127, 128, 16383, 16384, 2**21 - 1, 2**21, 2**31 - 1, 2**31, 2**32 - 1, 2**32, 2**32 + 1,
         2**35, 2**56, 2**62, 2**63 - 1, 2**63, 2**64 - 1]


def noncanon(v, total):
    """encoding of v padded with zero digits to `total` bytes (still terminated on the last)"""
    ds = []
    x = v
    while x:
        ds.append(x & 0x7F); x >>= 7
    ds += [0] * (total - len(ds))
    ds = ds[:total] if len(ds) > total else ds
    return bytes(ds[:-1] + [ds[-1] | 0x80])


def fits(h):
    """every numeric field fits its destination: int-typed fields < 2^31, sizes < 2^64 with no wrapping sum"""
    if not h.ok:
        return False
    for v in (h.hash_type, h.comp_type, h.chunk_hash_type, h.index_size, h.sig_count):
        if v is None or v >= 2**31:
            return False
    tot = 0
    for e in h.entries:
        tot += e["clen"]
        if tot >= 2**64 or e["ulen"] >= 2**64:
            return False
    if h.hdr_total + tot >= 2**64:
        return False
    return True


def signed(v):
    """what a value looks like through an ssize_t getter: itself, or an error indication"""
    return str(v) if v < 2**63 else "ERR"


def par_dump(h):
    """the reference parser's view of everything the API reports (decimal strings)"""
    tot = sum(e["clen"] for e in h.entries)
    return {"flags": str(h.flags), "full_hash_type": str(h.hash_type), "chunk_hash_type": str(h.chunk_hash_type),
            "lead_length": str(h.lead_size), "header_length": str(h.hdr_total),
            "data_length": str(tot), "length": str(h.hdr_total + tot),
            "header_digest": h.header_digest.hex(), "data_digest": h.data_digest.hex(),
            "chunk_count": str(h.count), "detached": "1" if h.detached else "0",
            "chunks": [{"num": str(i), "digest": e["digest"].hex(), "udigest": e["udigest"].hex() if e["udigest"] is not None else "",
                        "clen": str(e["clen"]), "ulen": str(e["ulen"]), "start": str(h.hdr_total + e["start"])}
                       for i, e in enumerate(h.entries)]}


def rep_dump(ev):
    """the driver's dump event in the same shape; negative numbers become ERR"""
    def s(x):
        x = str(x)
        return "ERR" if x.startswith("-") else x
    def u(x):      # printed as unsigned 64 bit by the driver: values >= 2^63 came from a negative ssize_t
        x = str(x)
        return "ERR" if (x.isdigit() and int(x) >= 2**63) else x
    return {"flags": s(ev["flags"]), "full_hash_type": s(ev["full_hash_type"]), "chunk_hash_type": s(ev["chunk_hash_type"]),
            "lead_length": u(ev["lead_length"]), "header_length": u(ev["header_length"]),
            "data_length": u(ev.get("data_length", "NOINDEX")), "length": u(ev.get("length", "NOINDEX")),
            "header_digest": ev["header_digest"], "data_digest": ev["data_digest"],
            "chunk_count": u(ev["chunk_count"]), "detached": str(ev["detached"]), "bynum": ev.get("bynum", []),
            "chunks": [{"num": s(c["num"]), "digest": c["digest"], "udigest": c["udigest"], "clen": s(c["clen"]), "ulen": s(c["ulen"]), "start": s(c["start"])}
                       for c in ev["chunks"]]}


def entries_for(sizes, cht, flags, rnd):
    ds = ref.DIGEST_SIZE[cht]
    out = []
    for i, (c, u) in enumerate(sizes):
        e = {"clen": c, "ulen": u, "digest": bytes(rnd.getrandbits(8) for _ in range(ds))}
        if i == 0 and c == 0:
            e["digest"] = bytes(ds)
        if flags & 4:
            e["udigest"] = bytes(rnd.getrandbits(8) for _ in range(ds))
        out.append(e)
    return out


def family(rnd, tier):
    """yields (name, bytes, plain) ; plain = emitted in the ordinary way (must open)"""
    out = []
    n = 0
    combos = []
    for ht in range(4):
        for cht in range(4):
            for flags in (0, 2, 4, 6):
                combos.append((ht, cht, flags))
    if tier == "quick":
        combos = rnd.sample(combos, 24)
    for (ht, cht, flags) in combos:
        if flags & 4 and cht in (0, 3):
            cht = 1
        for nent in (1, 2, 4):
            comp = rnd.choice((0, 2))
            sizes = [(0, 0)]
            for _ in range(nent - 1):
                c = rnd.choice(BOUND[:9]); u = rnd.choice(BOUND[:9])
                if comp == 0: u = c                 # stored uncompressed: both sizes agree
                if c == 0: u = 0                    # no stored bytes, no data
                sizes.append((c, u))
            kw = {}
            if flags & 2:
                kw["opt"] = {"elems": [(rnd.randrange(5), None, bytes(rnd.getrandbits(8) for _ in range(rnd.randrange(4)))) for _ in range(rnd.randrange(3))]}
            for magic in ((b"\0ZCK1", b"\0ZHR1") if nent == 2 else (b"\0ZCK1",)):
                b = ref.build_header(hash_type=ht, chunk_hash_type=cht, flags=flags, comp_type=comp,
                                     entries=entries_for(sizes, cht, flags, rnd), data_digest=bytes(rnd.getrandbits(8) for _ in range(ref.DIGEST_SIZE[ht])), magic=magic, **kw)
                out.append(("plain%d" % n, b, True)); n += 1
    # sizes at every boundary, one at a time and in pairs (sums that approach / exceed 2^63 and 2^64)
    for v in BOUND:
        for which in ("clen", "ulen"):
            sizes = [(0, 0), (v, 5) if which == "clen" else (5, v), (7, 7)]
            b = ref.build_header(entries=entries_for(sizes, 3, 0, rnd), data_digest=bytes(32))
            out.append(("bound-%s-%d" % (which, v), b, v < 2**62 and not (which == "clen" and v == 0)))
    for a, c in ((2**62, 2**62), (2**63 - 1, 1), (2**63, 2**63), (2**64 - 1, 1), (2**64 - 1, 2**64 - 1), (2**32, 2**32), (2**31, 2**31)):
        sizes = [(0, 0), (a, 1), (c, 1), (3, 3)]
        b = ref.build_header(entries=entries_for(sizes, 3, 0, rnd), data_digest=bytes(32))
        out.append(("sum-%d-%d" % (a, c), b, False))
    # count mismatch / zero entries
    base_sizes = [(0, 0), (10, 20), (30, 40)]
    for cnt in (0, 1, 2, 4, 7, 2**31, 2**63):
        b = ref.build_header(entries=entries_for(base_sizes, 3, 0, rnd), data_digest=bytes(32), count=cnt)
        out.append(("count-%d" % cnt, b, False))
    for cnt in (0, 1, 5):
        b = ref.build_header(entries=[], data_digest=bytes(32), count=cnt)
        out.append(("noentries-%d" % cnt, b, False))
    # over-long, non-canonical and overflowing integer encodings in every integer field
    enc = {"canon10": noncanon(5, 10), "pad2": noncanon(5, 2), "pad9": noncanon(5, 9), "eleven": bytes([5] + [0] * 9 + [0x80]),
           "wrap": bytes([0] * 9 + [0x82]), "two63": ref.ci_enc(2**63), "two64m1": ref.ci_enc(2**64 - 1), "two31": ref.ci_enc(2**31),
           "two32": ref.ci_enc(2**32), "two32p2": ref.ci_enc(2**32 + 2), "unterminated": bytes([1, 2, 3])}
    for fname in ("flags", "comp_type", "chunk_hash_type", "count", "sig_count", "index_size", "clen", "ulen", "header_length", "hash_type"):
        for ename, raw in enc.items():
            kw = dict(entries=entries_for(base_sizes, 3, 0, rnd), data_digest=bytes(32))
            if fname in ("clen", "ulen"):
                kw["entries"][1][fname] = raw
            elif fname == "hash_type":
                kw["hash_type_raw"] = raw
            else:
                kw[fname] = raw
            try:
                b = ref.build_header(**kw)
            except Exception:
                continue
            if fname in ("header_length", "hash_type"):
                b2 = ref.reseal(b)
                b = b2 if b2 is not None else b
            out.append(("enc-%s-%s" % (fname, ename), b, False))
    # values of the small-integer fields
    for fname, vals in (("flags", (1, 2, 3, 4, 5, 6, 7, 8, 16, 2**31, 2**32, 2**32 + 2, 2**32 + 4, 2**40 + 2, 2**62)),
                        ("comp_type", (1, 3, 255, 2**31, 2**32, 2**32 + 2)), ("chunk_hash_type", (4, 5, 2**31, 2**32 + 1)),
                        ("sig_count", (1, 2, 2**31, 2**32)), ("hash_type", (4, 2**32 + 1))):
        for v in vals:
            kw = dict(entries=entries_for(base_sizes, 3, 0, rnd), data_digest=bytes(32))
            if fname == "flags" and v & 2:
                kw["opt"] = {"elems": [(1, None, b"ab")]}
            if fname == "flags" and v & 4:
                kw["entries"] = entries_for(base_sizes, 1, 4, rnd); kw["chunk_hash_type"] = 1
            if fname == "hash_type":
                kw["hash_type_raw"] = ref.ci_enc(v)
            else:
                kw[fname] = v
            try:
                b = ref.build_header(**kw)
            except Exception:
                continue
            out.append(("val-%s-%d" % (fname, v), b, False))
    # enumeration fields whose value is a legal one plus a multiple of 2^8 / 2^16 / 2^24 (a narrower variable on the way
    # would turn them into the legal value): all unsupported, must be refused
    for fname, vals in (("comp_type", (256, 258, 512, 514, 65536, 65538, 2**24 + 2, 2**31 - 256, 2**31 - 254)),
                        ("chunk_hash_type", (256, 257, 259, 65536 + 3, 2**24 + 1, 2**31 - 255)),
                        ("hash_type", (256, 257, 65536 + 1, 2**24, 2**31 - 256)),
                        ("flags", (256, 260, 65536 + 4, 2**24, 2**31))):
        for v in vals:
            kw = dict(entries=entries_for(base_sizes, 3, 0, rnd), data_digest=bytes(32))
            if fname == "hash_type":
                kw["hash_type_raw"] = ref.ci_enc(v)
            else:
                kw[fname] = v
            for magic in (b"\0ZCK1", b"\0ZHR1"):
                try:
                    b = ref.build_header(magic=magic, **kw)
                except Exception:
                    continue
                out.append(("trunc-%s-%d-%s" % (fname, v, magic[1:4].decode()), b, False))
    # two integers of the lead spelled unusually at the same time: the checksum type padded to w bytes (legal), the header
    # length padded, or carrying bits beyond 2^64 in its tenth byte (must be refused) - with w = 10 the second integer ends
    # exactly where the 25-byte lead buffer ends
    ents = entries_for(base_sizes, 3, 0, rnd)
    plainb = ref.build_header(entries=ents, data_digest=bytes(32))
    true_hl = ref.parse_header(plainb).header_length
    def over64(v, top):      # ten bytes: the low 63 bits of v, then a tenth byte whose payload is `top` (bit 63 and beyond)
        return bytes(((v >> (7 * k)) & 127) for k in range(9)) + bytes([0x80 | top])
    for ht in (0, 1):
        ents = entries_for(base_sizes, 3, 0, rnd)
        thl = ref.parse_header(ref.build_header(hash_type=ht, entries=ents, data_digest=bytes(ref.DIGEST_SIZE[ht]))).header_length
        for w in (1, 2, 5, 9, 10):
            for hname, hraw, must in (("pad3", noncanon(thl, 3), True), ("pad10", noncanon(thl, 10), True), ("plus2^64", over64(thl, 2), False),
                                      ("plus3x2^64", over64(thl, 6), False), ("plus2^63", over64(thl, 1), False)):
                b = ref.build_header(hash_type=ht, hash_type_raw=noncanon(ht, w), header_length=hraw, entries=ents, data_digest=bytes(ref.DIGEST_SIZE[ht]))
                out.append(("leadpair-ht%d-w%d-%s" % (ht, w, hname), b, False))
    # length fields pointing at / over the end of their buffer
    h0 = ref.build_header(entries=entries_for(base_sizes, 3, 0, rnd), data_digest=bytes(32))
    p0 = ref.parse_header(h0)
    for d in (-40, -2, -1, 1, 2, 40, 2**20, 2**31 - 1):
        b = ref.build_header(entries=entries_for(base_sizes, 3, 0, rnd), data_digest=bytes(32), index_size=max(0, p0.index_size + d))
        out.append(("index_size%+d" % d, b, False))
        b = ref.build_header(entries=entries_for(base_sizes, 3, 0, rnd), data_digest=bytes(32), header_length=max(0, p0.header_length + d))
        b = ref.reseal(b) or b
        out.append(("header_length%+d" % d, b, False))
    for hl in range(0, 70, 3):
        for ht in (1, 2):
            b = ref.build_header(hash_type=ht, entries=entries_for(base_sizes, 3, 0, rnd), data_digest=bytes(ref.DIGEST_SIZE[ht]), header_length=hl)
            b = ref.reseal(b) or b
            out.append(("short-hl-%d-%d" % (ht, hl), b, False))
    # optional elements: count and sizes against the end
    for (cnt, elems) in ((3, [(1, None, b"ab")]), (0, [(1, None, b"ab")]), (1, [(1, 200, b"ab")]), (1, [(1, 2**40, b"ab")]),
                         (1, [(1, 2**64 - 1, b"ab")]), (2, [(1, None, b"ab"), (2, 60, b"")]), (2**32, [(1, None, b"a")]), (1, [(1, 61, b"")]), (1, [(1, 62, b"")]), (1, [(1, 63, b"")]),
                         # a declared size that wraps the cursor back onto the element itself (or to the count, the flags, the
                         # start of the preface) under an element count nobody can iterate through
                         (2**62, [(1, 2**64 - 11, b"")]), (2**63, [(1, 2**64 - 12, b"")]), (2**40, [(3, 2**64 - 22, b"")]), (2**62, [(1, 2**64 - 45, b"")]),
                         (2**62, [(1, 2**64 - 11, b"xy")]), (2**64 - 1, [(2**64 - 1, 2**64 - 20, b"")])):
        b = ref.build_header(flags=2, entries=entries_for(base_sizes, 3, 0, rnd), data_digest=bytes(32), opt={"count": cnt, "elems": elems})
        out.append(("opt-%d-%s" % (cnt, elems[-1][1]), b, False))
    # trailing bytes inside the header
    b = ref.build_header(entries=entries_for(base_sizes, 3, 0, rnd), data_digest=bytes(32), tail=b"\x00\x01\x02")
    out.append(("tail", b, False))
    return out
