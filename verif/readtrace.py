"""Building Reader-contract traces: scripts that read a file to the end, and the enrichment of the
driver's events with facts from the reference codec."""
import os
from . import ref


def facts(rf):
    h = rf.h
    if not h.ok:
        return {"valid": False, "total": 0, "unit": False, "cok": [], "dataok": False, "detached": False}
    return {"valid": bool(rf.valid), "total": len(rf.content) if rf.content is not None else 0,
            # (0 = not used: behind the last byte of data there are still entries with stored bytes and no data, which a reader
            # that stops at the declared length never reaches - only a read past the end looks at them)
            "declared": 0 if (len(h.entries) > 1 and h.entries[-1]["ulen"] == 0 and h.entries[-1]["clen"] > 0) else min(sum(e["ulen"] for e in h.entries[1:]), 2**31 - 1),
            "unit": h.comp_type == 2, "cok": [bool(c["present"] and c["digest_ok"]) for c in rf.chunks],
            "dataok": bool(rf.data_ok), "detached": bool(h.detached)}


def read_sizes(rnd, total, style):
    """a sequence of buffer sizes that certainly reaches past the end of a stream of `total` bytes"""
    if style in ("exact", "exactblk"):
        # the reader knows the length (zck_get_data_length) and asks for exactly that much, then closes: no read ever returns 0
        if total <= 0:
            return [1]
        if style == "exact":
            return [total]
        return [4096] * (total // 4096) + ([total % 4096] if total % 4096 else [])
    out = []; s = 0; guard = 0
    while s <= total + 2 and guard < 600:
        if style == "one":
            n = 1
        elif style == "big":
            n = 1 << 20
        elif style == "blk":
            n = 32768
        elif style == "seven":
            n = 7
        else:
            n = rnd.choice([1, 2, 3, 7, 16, 100, 1000, 4096, 32768, 65536, 100000])
        out.append(n); s += n; guard += 1
    return out + [out[-1], 5]


def read_script(cid, path, sink, sizes, budget=30, pre=(), post=("close 0",)):
    lines = ["case %s %d" % (cid, budget), "ctx 0", "open 0 %s r" % path, "sink 0 %s" % sink, "init_read 0 0"]
    lines += list(pre)
    lines += ["read 0 %d" % n for n in sizes]
    lines += list(post)
    lines.append("end")
    return "\n".join(lines) + "\n"


def enrich(ce, sinkpath, rf, ff=None):
    """driver events of one read-to-end case -> Reader-contract events"""
    out = []
    ff = ff or facts(rf)
    h = rf.h
    data = open(sinkpath, "rb").read() if os.path.exists(sinkpath) else b""
    # chunk attribution by the index's declared uncompressed sizes (as the library sees them)
    bounds = []
    if h.ok:
        u = 0
        for i, e in enumerate(h.entries):
            if i == 0:
                continue
            bounds.append((u, u + e["ulen"], i)); u += e["ulen"]
    pos = 0
    for e in ce:
        op = e["op"]
        if op == "init_read":
            out.append({"op": "open", "f": ff, "ret": e["ret"]})
        elif op == "read":
            r = e["ret"]
            eq = False; bad = False
            if r > 0:
                got = data[pos:pos + r]
                eq = rf.content is not None and got == rf.content[pos:pos + r] and len(got) == r
                for (a, b, i) in bounds:
                    if a < pos + r and pos < b and not (rf.chunks[i]["present"] and rf.chunks[i]["digest_ok"]):
                        bad = True
                if pos + r > (bounds[-1][1] if bounds else 0):
                    bad = bad or False
                pos += r
            out.append({"op": "read", "n": e["n"], "ret": r, "eq": bool(eq), "bad": bool(bad)})
        elif op == "close":
            out.append({"op": "close", "ret": e["ret"]})
        elif op in ("Crash", "Hang"):
            out.append({"op": op, "sig": e.get("sig", 0)})
    return out
