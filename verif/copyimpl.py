"""Conformance of the real zck_copy_chunks with the implementation-shaped model CopyImpl (C08).

TLC first checks CopyImpl itself (ValidImpliesDisk, Confinement, FailedIsZero, MustReuse, termination; with short reads
the safety half; the documented counterexamples of the variants, each the model of a slip that was seeded independently).
Then members of the model's own family - target layout in cells, which target chunk each source entry declares, what the
source file really holds (cut anywhere, damaged cells), which target chunks are already valid - are built as real files
(one cell = 16 KiB: a block of the model is the library's 32 KiB copy buffer), the documented sequence (scan, reset the
failed marks, copy) is run on the real library, and Trace_Copy lets TLC run the model from exactly those states and compare
the validity vector, what every chunk's extent now holds, and whether anything outside the extents being filled changed."""
import os, json, itertools, random, shutil, re
from . import common, ref, corpus
from .common import Broken

CELL = 16384
NT, NS, MAXLEN, FOREIGN = 3, 2, 3, 99


def family(maxbad):
    for tlens in itertools.product(range(MAXLEN + 1), repeat=NT):
        for sid in itertools.product(list(range(1, NT + 1)) + [FOREIGN], repeat=NS):
            for fl in itertools.product(range(MAXLEN + 1), repeat=sum(1 for x in sid if x == FOREIGN)):
                it = iter(fl)
                slens = tuple(tlens[x - 1] if x != FOREIGN else next(it) for x in sid)
                st = sum(slens)
                for n in range(st + 1):
                    bads = [()] + [(p,) for p in range(n)]
                    if maxbad >= 2:
                        bads += list(itertools.combinations(range(n), 2))
                    for bad in bads:
                        for vinit in itertools.product((0, 1), repeat=NT):
                            if any(tlens[i] == 0 and vinit[i] == 0 for i in range(NT)):
                                continue
                            yield (tlens, sid, slens, n, bad, vinit)


def model_checks(ck, tier):
    wd = common.workdir("copyimpl")
    if tier == "thorough":
        r = common.tlc("CopyImpl", "MC_CopyImpl.cfg", timeout=3000, heap="12g"); consts = "NT=3 NS=2 MaxLen=3 B=2 MaxBad=1, whole reads"
    else:
        r = common.tlc("CopyImpl", common.cfg_variant("MC_CopyImpl.cfg", wd, NT=2), timeout=900); consts = "NT=2 NS=2 MaxLen=3 B=2 MaxBad=1, whole reads"
    ck.require_ok("CopyImpl", r); ck.add_tlc("CopyImpl (zck_copy_chunks / write_and_verify_chunk / zero_chunk; code)", r, consts)
    r = common.tlc("CopyImpl", "MC_CopyImpl_short.cfg", timeout=900)
    ck.require_ok("CopyImpl (short reads)", r); ck.add_tlc("CopyImpl with short reads that are not the end of the file (safety half)", r, "NT=2 NS=2 MaxLen=3")
    from concurrent.futures import ThreadPoolExecutor
    vs = ("zerosrc", "tgtfixed", "srcfixed", "roundup", "gotrb")
    with ThreadPoolExecutor(max_workers=5) as ex:
        rvs = list(ex.map(lambda v: common.tlc("CopyImpl", "MC_CopyImpl_%s.cfg" % v, workers=2, timeout=600), vs))
    for v, rv in zip(vs, rvs):
        if rv.ok or "violated" not in (rv.violation or ""):
            raise Broken("CopyImpl variant %s: the documented counterexample was not found (%s)" % (v, rv.violation))
        ck.models.append({"model": "CopyImpl variant %s" % v, "counterexample": rv.violation})
    shutil.rmtree(wd, ignore_errors=True)


def build_case(rnd, cache, wd, cid, tlens, sid, slens, n, bad, vinit):
    key = tlens
    if key not in cache:
        cells = {i + 1: [rnd.randbytes(CELL) for _ in range(tlens[i])] for i in range(NT)}
        B = ref.build_file([b""] + [b"".join(cells[i + 1]) for i in range(NT)], comp_type=0, hash_type=1, chunk_hash_type=3)[0]
        cache[key] = (cells, B, ref.parse_header(B).hdr_total)
    cells, B, hoff = cache[key]
    # the source: what its index promises ...
    schunks = []
    for j in range(NS):
        schunks.append(b"".join(cells[sid[j]]) if sid[j] != FOREIGN else rnd.randbytes(CELL * slens[j]))
    A = ref.build_file([b""] + schunks, comp_type=0, hash_type=1, chunk_hash_type=3)[0]
    hA = ref.parse_header(A).hdr_total
    body = bytearray(A[hA:hA + n * CELL])          # ... and what its file holds
    for p in bad:
        body[p * CELL + (p * 977 + 13) % CELL] ^= 0x40
    apath = os.path.join(wd, cid + ".A"); open(apath, "wb").write(A[:hA] + bytes(body))
    # the target: B's header, good bytes where a chunk is already valid, old bytes elsewhere and behind the data
    tot = sum(tlens)
    old = bytearray(rnd.randbytes((tot + 7) * CELL))
    pos = 0
    for i in range(NT):
        if vinit[i] and tlens[i]:
            old[pos * CELL:(pos + tlens[i]) * CELL] = b"".join(cells[i + 1])
        pos += tlens[i]
    tpath = os.path.join(wd, cid + ".T"); open(tpath, "wb").write(B[:hoff] + bytes(old))
    return apath, tpath, hoff, cells, bytes(old)


def run(ck, prop, tier, rnd, with_models=True):
    if with_models:
        model_checks(ck, tier)
    common.build("plain")
    wd = common.workdir("copyfam")
    fam = list(family(2 if tier == "thorough" else 1))
    fam = rnd.sample(fam, min(6000 if tier == "thorough" else 900, len(fam)))
    cache = {}; scripts = []; meta = []
    for q, (tlens, sid, slens, n, bad, vinit) in enumerate(fam):
        cid = "cp%d" % q
        apath, tpath, hoff, cells, old = build_case(rnd, cache, wd, cid, tlens, sid, slens, n, bad, vinit)
        L = ["case %s 60" % cid, "ctx 0", "open 0 %s rw" % tpath, "init_read 0 0", "find_valid 0", "reset_failed 0",
             "ctx 1", "open 1 %s r" % apath, "init_read 1 1", "copy_chunks 1 0", "end"]
        scripts.append("\n".join(L) + "\n")
        meta.append((cid, apath, tpath, hoff, cells, old, (tlens, sid, slens, n, bad, vinit)))
    evs = common.by_case([e for part in common.run_driver_parallel(["".join(scripts[i::12]) for i in range(12)], "plain", timeout=1800) for e in part])
    cases = []; owners = []; skipped = 0
    for q, (cid, apath, tpath, hoff, cells, old, fam_q) in enumerate(meta):
        tlens, sid, slens, n, bad, vinit = fam_q
        ce = evs.get(cid, [])
        dead = [e for e in ce if e["op"] in ("Crash", "Hang", "Killed")]
        if dead:
            ck.violation("CopyImpl family %s: %s during the copy" % (cid, dead[0]["op"]), scripts[q]); continue
        opens = [e for e in ce if e["op"] == "init_read"]
        rf = [e for e in ce if e["op"] == "reset_failed"]
        cp = [e for e in ce if e["op"] == "copy_chunks"]
        if len(opens) < 2 or any(o["ret"] != 1 for o in opens) or not cp or not rf:
            skipped += 1; continue                 # the source does not open (its file ends inside the header): nothing is copied
        v0 = rf[0].get("valid", [])[1:]
        if [int(x) for x in v0] != list(vinit):
            skipped += 1; continue                 # (the scan disagrees with the construction: judged by C09, not here)
        data = open(tpath, "rb").read()[hoff:]
        cls = []; pos = 0
        lookup = lambda i: next((j for j in range(NS) if sid[j] == i + 1), None)
        attempted = [i for i in range(NT) if vinit[i] == 0 and lookup(i) is not None]
        keep = []; last = 0                        # the regions outside the extents being filled
        for i in range(NT):
            a, z = pos * CELL, (pos + tlens[i]) * CELL
            ext = data[a:z]
            cls.append("good" if ext == b"".join(cells[i + 1]) else ("zero" if ext == bytes(z - a) else "other"))
            if i in attempted:
                keep.append((last, a)); last = z
            pos += tlens[i]
        keep.append((last, len(old)))
        outside = len(data) == len(old) and all(data[a:z] == old[a:z] for a, z in keep)
        cases.append({"tlens": list(tlens), "sid": list(sid), "slens": list(slens), "sdisk": ["x" if p in bad else "g" for p in range(n)], "vinit": list(vinit),
                      "vec": cp[0].get("valid", [])[1:], "cls": cls, "outside": bool(outside)})
        owners.append(q)
        ck.case(("copyimpl",) + fam_q)
    p = os.path.join(wd, "cases.ndjson"); common.write_ndjson(p, cases)
    r = common.tlc("Trace_Copy", "Trace_Copy.cfg", workers=4, env={"TRACE": p}, timeout=1500)
    if not r.ok:
        raise Broken("Trace_Copy: %s\n%s" % (r.violation, r.out[-1500:]))
    ck.add_tlc("Trace_Copy (real copies replayed on CopyImpl)", r, "%d executions" % len(cases)); ck.traces += len(cases)
    drift = sorted({int(x) for x in re.findall(r'^<<"MISMATCH", (\d+)>>', r.out, re.M)})
    mism = sorted({int(x) for x in re.findall(r'^<<"PROPVIOL", (\d+)>>', r.out, re.M)})
    ck.extra["copyimpl_cases_differing_from_model"] = len(drift)
    if len(drift) > len(mism):
        ck.notes.append("%d real copies differ from CopyImpl without breaking a sentence of C08 (specification drift of the implementation-shaped model)" % (len(drift) - len(mism)))
    for c in mism[:12]:
        q = owners[c - 1]; cid, apath, tpath, hoff, cells, old, fam_q = meta[q]
        tl, si, sl, n, bad, vi = fam_q
        ka = os.path.join(common.REPLAY, "%s-%s.A" % (prop, cid)); kt = os.path.join(common.REPLAY, "%s-%s.T" % (prop, cid))
        shutil.copy(apath, ka)
        open(kt, "wb").write(open(tpath, "rb").read()[:hoff] + old)
        ck.violation("zck_copy_chunks breaks a sentence of C08 (Trace_Copy!ObservedOk; the model CopyImpl, started from the same state, keeps them): case %s observed %s" %
                     (json.dumps(fam_q), json.dumps({x: cases[c - 1][x] for x in ("vec", "cls", "outside")})), scripts[q].replace(apath, ka).replace(tpath, kt))
    if not mism and not drift and cases:
        neg = [dict(x) for x in cases[:40]]
        j = next((i for i, x in enumerate(neg) if any(t > 0 for t in x["tlens"])), 0)
        neg[j]["vec"] = [1 - v if v in (0, 1) else 1 for v in neg[j]["vec"]]
        pn = os.path.join(wd, "neg.ndjson"); common.write_ndjson(pn, neg)
        rn = common.tlc("Trace_Copy", "Trace_Copy.cfg", workers=1, env={"TRACE": pn}, timeout=600)
        if '"PROPVIOL"' not in rn.out and '"MISMATCH"' not in rn.out:
            raise Broken("Trace_Copy negative control: a corrupted validity vector was accepted")
    ck.extra["copyimpl_cases_compared"] = len(cases); ck.extra["copyimpl_cases_not_comparable"] = skipped
    shutil.rmtree(wd, ignore_errors=True)
    return len(cases)
