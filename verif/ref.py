"""alpha: an independent reference codec for the zchunk format, written from zchunk_format.txt.

Nothing here calls libzck.  Hashes come from hashlib, zstd through ctypes on libzstd.so.1.
It supplies the *facts* that the TLA+ trace specifications consume (is the header sealed,
does chunk i's stored extent hash to its index digest, what is the reference content ...).
"""
import ctypes, ctypes.util, hashlib, struct

# ---------------------------------------------------------------- primitives
HASH_NAMES = {0: "sha1", 1: "sha256", 2: "sha512", 3: "sha512_128"}
DIGEST_SIZE = {0: 20, 1: 32, 2: 64, 3: 16}


def digest(htype, data):
    if htype == 0:
        return hashlib.sha1(data).digest()
    if htype == 1:
        return hashlib.sha256(data).digest()
    if htype == 2:
        return hashlib.sha512(data).digest()
    if htype == 3:
        return hashlib.sha512(data).digest()[:16]
    raise ValueError("hash type %r" % htype)


class Hasher:
    def __init__(self, htype):
        self.t = htype
        self.h = {0: hashlib.sha1, 1: hashlib.sha256, 2: hashlib.sha512, 3: hashlib.sha512}[htype]()

    def update(self, b):
        self.h.update(b)

    def digest(self):
        d = self.h.digest()
        return d[:16] if self.t == 3 else d


def ci_enc(v):
    """compressed int: 7 bits per byte, little endian, top bit set on the LAST byte"""
    assert v >= 0
    out = bytearray()
    while True:
        b = v & 0x7F
        v >>= 7
        if v == 0:
            out.append(b | 0x80)
            return bytes(out)
        out.append(b)


class CIError(Exception):
    pass


def ci_dec(buf, pos, limit=None, bits=64):
    """Exact decode. Returns (value, new_pos). Raises CIError if unterminated within
    buf[:limit], longer than 10 bytes, or the value does not fit `bits` bits."""
    if limit is None:
        limit = len(buf)
    v = 0
    n = 0
    while True:
        if pos + n >= limit:
            raise CIError("unterminated")
        if n >= 10:
            raise CIError("too long")
        b = buf[pos + n]
        v |= (b & 0x7F) << (7 * n)
        n += 1
        if b & 0x80:
            break
    if v >= (1 << bits):
        raise CIError("overflow")
    return v, pos + n


# ---------------------------------------------------------------- zstd via ctypes
_z = None


def _zstd():
    global _z
    if _z is None:
        name = ctypes.util.find_library("zstd") or "libzstd.so.1"
        _z = ctypes.CDLL(name)
        _z.ZSTD_isError.restype = ctypes.c_uint
        _z.ZSTD_isError.argtypes = [ctypes.c_size_t]
        _z.ZSTD_compressBound.restype = ctypes.c_size_t
        _z.ZSTD_compressBound.argtypes = [ctypes.c_size_t]
        _z.ZSTD_createDCtx.restype = ctypes.c_void_p
        _z.ZSTD_freeDCtx.argtypes = [ctypes.c_void_p]
        _z.ZSTD_createCCtx.restype = ctypes.c_void_p
        _z.ZSTD_freeCCtx.argtypes = [ctypes.c_void_p]
        _z.ZSTD_decompress_usingDict.restype = ctypes.c_size_t
        _z.ZSTD_decompress_usingDict.argtypes = [ctypes.c_void_p, ctypes.c_void_p, ctypes.c_size_t, ctypes.c_void_p,
                                                 ctypes.c_size_t, ctypes.c_void_p, ctypes.c_size_t]
        _z.ZSTD_compress_usingDict.restype = ctypes.c_size_t
        _z.ZSTD_compress_usingDict.argtypes = [ctypes.c_void_p, ctypes.c_void_p, ctypes.c_size_t, ctypes.c_void_p,
                                               ctypes.c_size_t, ctypes.c_void_p, ctypes.c_size_t, ctypes.c_int]
        _z.ZSTD_getFrameContentSize.restype = ctypes.c_ulonglong
        _z.ZSTD_getFrameContentSize.argtypes = [ctypes.c_void_p, ctypes.c_size_t]
    return _z


def zstd_decompress(data, cap, zdict=None):
    """Decompress one frame into at most `cap` bytes. Returns bytes or None on error."""
    z = _zstd()
    dst = ctypes.create_string_buffer(max(cap, 1))
    dctx = z.ZSTD_createDCtx()
    try:
        r = z.ZSTD_decompress_usingDict(dctx, dst, cap, data, len(data), zdict, len(zdict) if zdict else 0)
    finally:
        z.ZSTD_freeDCtx(dctx)
    if z.ZSTD_isError(r):
        return None
    return dst.raw[:r]


def zstd_frame_size(data):
    """declared content size of the frame, or None if unknown/invalid"""
    r = _zstd().ZSTD_getFrameContentSize(data, len(data))
    if r >= 0xFFFFFFFFFFFFFFFE:
        return None
    return r


def zstd_compress(data, level=3, zdict=None):
    z = _zstd()
    cap = z.ZSTD_compressBound(len(data))
    dst = ctypes.create_string_buffer(cap)
    cctx = z.ZSTD_createCCtx()
    try:
        r = z.ZSTD_compress_usingDict(cctx, dst, cap, data, len(data), zdict, len(zdict) if zdict else 0, level)
    finally:
        z.ZSTD_freeCCtx(cctx)
    if z.ZSTD_isError(r):
        raise RuntimeError("zstd compress")
    return dst.raw[:r]


# ---------------------------------------------------------------- parse
class Parsed:
    """Result of the reference parse of a byte string offered as a zchunk file."""

    def __init__(self):
        self.ok = False            # header structurally well-formed (all fields decodable, inside bounds)
        self.why = ""
        self.magic = None
        self.detached = False
        self.hash_type = None
        self.header_length = None  # size of the header not including the lead (as stored)
        self.lead_size = None
        self.header_digest = None
        self.hdr_total = None      # lead_size + header_length
        self.data_digest = None
        self.flags = None
        self.comp_type = None
        self.opt = []
        self.index_size = None
        self.preface_size = None
        self.chunk_hash_type = None
        self.count = None          # as claimed
        self.entries = []          # dicts digest, udigest, clen, ulen, start (relative to body)
        self.sig_count = None
        self.sig_size = None
        self.unused = 0
        self.sealed = False        # stored header checksum == checksum of the header bytes
        self.supported = False     # a conforming reader of this version would accept the header
        self.fields = {}           # name -> (offset, length) of each header field, for mutators


def parse_header(buf):
    p = Parsed()
    try:
        if len(buf) < 5:
            raise CIError("short magic")
        p.magic = bytes(buf[:5])
        if p.magic == b"\0ZHR1":
            p.detached = True
        elif p.magic != b"\0ZCK1":
            raise CIError("bad magic")
        pos = 5
        p.fields["magic"] = (0, 5)
        p.hash_type, n = ci_dec(buf, pos); p.fields["hash_type"] = (pos, n - pos); pos = n
        if p.hash_type not in DIGEST_SIZE:
            raise CIError("unknown overall hash type")
        p.header_length, n = ci_dec(buf, pos); p.fields["header_length"] = (pos, n - pos); pos = n
        ds = DIGEST_SIZE[p.hash_type]
        if pos + ds > len(buf):
            raise CIError("short lead")
        p.digest_loc = pos
        p.header_digest = bytes(buf[pos:pos + ds]); p.fields["header_digest"] = (pos, ds); pos += ds
        p.lead_size = pos
        p.hdr_total = p.lead_size + p.header_length
        if p.hdr_total > len(buf):
            raise CIError("header longer than file")
        end = p.hdr_total
        h = Hasher(p.hash_type)
        h.update(b"\0ZCK1" + bytes(buf[5:p.digest_loc]) + bytes(buf[p.lead_size:end]))
        p.sealed = (h.digest() == p.header_digest)
        # preface
        if pos + ds > end:
            raise CIError("preface: data digest")
        p.data_digest = bytes(buf[pos:pos + ds]); p.fields["data_digest"] = (pos, ds); pos += ds
        p.flags, n = ci_dec(buf, pos, end); p.fields["flags"] = (pos, n - pos); pos = n
        p.comp_type, n = ci_dec(buf, pos, end); p.fields["comp_type"] = (pos, n - pos); pos = n
        if p.flags & 2:
            cnt, n = ci_dec(buf, pos, end); p.fields["opt_count"] = (pos, n - pos); pos = n
            for i in range(cnt):
                oid, pos = ci_dec(buf, pos, end)
                osz, pos = ci_dec(buf, pos, end)
                if pos + osz > end:
                    raise CIError("optional element past end")
                p.opt.append((oid, bytes(buf[pos:pos + osz]))); pos += osz
        p.index_size, n = ci_dec(buf, pos, end); p.fields["index_size"] = (pos, n - pos); pos = n
        p.preface_size = pos - p.lead_size
        istart = pos
        iend = istart + p.index_size
        if iend > end:
            raise CIError("index past end of header")
        p.chunk_hash_type, n = ci_dec(buf, pos, iend); p.fields["chunk_hash_type"] = (pos, n - pos); pos = n
        if p.chunk_hash_type not in DIGEST_SIZE:
            raise CIError("unknown chunk hash type")
        cds = DIGEST_SIZE[p.chunk_hash_type]
        p.count, n = ci_dec(buf, pos, iend); p.fields["count"] = (pos, n - pos); pos = n
        start = 0
        k = 0
        while pos < iend:
            e = {}
            if pos + cds > iend:
                raise CIError("index entry digest past end")
            e["digest"] = bytes(buf[pos:pos + cds]); p.fields["e%d.digest" % k] = (pos, cds); pos += cds
            e["udigest"] = None
            if p.flags & 4:
                if pos + cds > iend:
                    raise CIError("index entry udigest past end")
                e["udigest"] = bytes(buf[pos:pos + cds]); pos += cds
            e["clen"], n = ci_dec(buf, pos, iend); p.fields["e%d.clen" % k] = (pos, n - pos); pos = n
            e["ulen"], n = ci_dec(buf, pos, iend); p.fields["e%d.ulen" % k] = (pos, n - pos); pos = n
            e["start"] = start
            start += e["clen"]
            p.entries.append(e)
            k += 1
        p.sig_count, n = ci_dec(buf, pos, end); p.fields["sig_count"] = (pos, n - pos)
        p.sig_size = n - pos; pos = n
        p.unused = end - pos
        p.ok = True
        p.supported = (p.flags & ~6) == 0 and p.comp_type in (0, 2) and p.sig_count == 0 and \
            p.count == len(p.entries) and len(p.entries) >= 1
    except CIError as ex:
        p.ok = False
        p.why = str(ex)
    return p


class RefFile:
    """Reference view of a whole file: header parse + per-chunk verdicts + reference content."""

    def __init__(self, buf):
        self.buf = bytes(buf)
        self.h = parse_header(self.buf)
        self.chunks = []       # per entry: present, digest_ok, decodes, content (bytes or None)
        self.data_ok = False
        self.valid = False
        self.valid_strict = False
        self.content = None
        if self.h.ok:
            self._body()

    def _body(self):
        h = self.h
        base = h.hdr_total
        zdict = None
        body_end = base + sum(e["clen"] for e in h.entries)
        for i, e in enumerate(h.entries):
            a = base + e["start"]; b = a + e["clen"]
            c = {"present": b <= len(self.buf), "digest_ok": False, "decodes": False, "content": None}
            stored = self.buf[a:b]
            if c["present"]:
                if e["clen"] == 0:
                    c["digest_ok"] = (e["digest"] == bytes(len(e["digest"])))
                else:
                    c["digest_ok"] = digest(h.chunk_hash_type, stored) == e["digest"]
                if h.comp_type == 0:
                    # stored uncompressed: the content is the stored bytes; a declared size that disagrees is
                    # an inconsistency the reader may report or ignore (it still returns the original content)
                    c["decodes"] = True; c["content"] = stored
                    c["size_consistent"] = (e["clen"] == e["ulen"])
                elif h.comp_type == 2:
                    if e["clen"] == 0:
                        if e["ulen"] == 0:
                            c["decodes"] = True; c["content"] = b""
                    elif e["ulen"] <= (1 << 31):
                        d = zstd_decompress(stored, e["ulen"], None if i == 0 else zdict)
                        if d is not None and len(d) == e["ulen"]:
                            c["decodes"] = True; c["content"] = d
            if i == 0 and c["decodes"] and e["ulen"] > 0:
                zdict = c["content"]
            self.chunks.append(c)
        if h.flags & 4:
            self.data_ok = True
        elif body_end <= len(self.buf):
            self.data_ok = digest(h.hash_type, self.buf[base:body_end]) == h.data_digest
        allc = all(c["present"] and c["digest_ok"] and c["decodes"] for c in self.chunks)
        self.valid_strict = h.ok and h.sealed and h.supported and allc and self.data_ok     # (the identifier may be either magic)
        # a chunk without stored bytes carries no data: whether its index checksum is all zeros (as the format
        # asks) does not affect the content, so the read path may ignore it
        allc2 = all(c["present"] and (c["digest_ok"] or e["clen"] == 0) and c["decodes"] for c, e in zip(self.chunks, h.entries))
        self.valid = h.ok and h.sealed and h.supported and allc2 and self.data_ok
        if all(c["decodes"] for c in self.chunks):
            self.content = b"".join(c["content"] for c in self.chunks[1:])
        self.body_end = body_end


# ---------------------------------------------------------------- build
def CI(v):
    """a compressed-int field: an int, or raw bytes to be emitted verbatim"""
    return v if isinstance(v, (bytes, bytearray)) else ci_enc(v)


def build_header(hash_type=1, chunk_hash_type=3, flags=0, comp_type=2, entries=(), data_digest=None,
                 opt=None, magic=b"\0ZCK1", count=None, index_size=None, header_length=None, header_digest=None,
                 sig_count=0, tail=b"", hash_type_raw=None, lead_hash_for_seal=None):
    """Emit a header.  Every numeric field may be an int or raw bytes (for over-long or overflowing
    encodings).  Fields left None are computed so that the header is consistent and sealed."""
    cds = DIGEST_SIZE.get(chunk_hash_type if isinstance(chunk_hash_type, int) else 3, 16)
    ds = DIGEST_SIZE[hash_type]
    idx = bytearray()
    idx += CI(chunk_hash_type)
    idx += CI(len(entries) if count is None else count)
    for e in entries:
        d = e.get("digest")
        idx += d if d is not None else bytes(cds)
        if (flags if isinstance(flags, int) else 0) & 4:
            ud = e.get("udigest")
            idx += ud if ud is not None else bytes(cds)
        idx += CI(e["clen"]); idx += CI(e["ulen"])
    pre = bytearray()
    pre += data_digest if data_digest is not None else bytes(ds)
    pre += CI(flags); pre += CI(comp_type)
    if opt is not None:
        pre += CI(opt.get("count", len(opt["elems"])))
        for (oid, osz, odata) in opt["elems"]:
            pre += CI(oid); pre += CI(len(odata) if osz is None else osz); pre += odata
    pre += CI(len(idx) if index_size is None else index_size)
    rest = bytes(pre) + bytes(idx) + CI(sig_count) + tail
    lead = bytearray(magic)
    lead += CI(hash_type) if hash_type_raw is None else hash_type_raw
    lead += CI(len(rest) if header_length is None else header_length)
    if header_digest is None:
        header_digest = digest(hash_type, b"\0ZCK1" + bytes(lead[5:]) + rest)
    return bytes(lead) + header_digest + rest


def build_file(chunks, comp_type=0, hash_type=1, chunk_hash_type=3, flags=0, level=3, **kw):
    """chunks: list of uncompressed byte strings, chunks[0] is the dictionary ('' for none).
    Returns (file bytes, list of stored chunk bytes)."""
    stored = []
    zdict = None
    for i, c in enumerate(chunks):
        if comp_type == 0:
            s = bytes(c)
        else:
            s = b"" if len(c) == 0 else zstd_compress(c, level, None if i == 0 else zdict)
        stored.append(s)
        if i == 0 and len(c):
            zdict = bytes(c)
    entries = []
    for c, s in zip(chunks, stored):
        e = {"clen": len(s), "ulen": len(c), "digest": digest(chunk_hash_type, s) if len(s) else bytes(DIGEST_SIZE[chunk_hash_type])}
        if flags & 4:
            e["udigest"] = digest(chunk_hash_type, bytes(c)) if len(c) else bytes(DIGEST_SIZE[chunk_hash_type])
        entries.append(e)
    body = b"".join(stored)
    dd = bytes(DIGEST_SIZE[hash_type]) if flags & 4 else digest(hash_type, body)
    pad = kw.pop("pad", 0)
    hdr = build_header(hash_type=hash_type, chunk_hash_type=chunk_hash_type, flags=flags, comp_type=comp_type,
                       entries=entries, data_digest=dd, **kw)
    if pad:
        return pad_header(hdr + body, pad), stored
    return hdr + body, stored


def pad_header(buf, n, fill=b"\0"):
    """A legal but unusual layout: the header length stored in the lead is n bytes larger than the preface, index and
    signature sections need (the extra bytes follow the signatures and are covered by the header checksum).  The data
    then starts at lead + stored header length, not at the end of the parsed sections."""
    h = parse_header(buf)
    if n <= 0 or h.lead_size is None:
        return buf
    lead = bytes(buf[:5]) + ci_enc(h.hash_type) + ci_enc(h.header_length + n) + bytes(h.header_digest)
    out = lead + bytes(buf[h.lead_size:h.hdr_total]) + (fill * n)[:n] + bytes(buf[h.hdr_total:])
    return reseal(out)


def reseal(buf):
    """Recompute the header checksum of a (possibly mutated) file in place; returns new bytes or None
    if the lead itself cannot be parsed."""
    try:
        pos = 5
        ht, pos = ci_dec(buf, pos)
        if ht not in DIGEST_SIZE:
            return None
        hl, pos = ci_dec(buf, pos)
        ds = DIGEST_SIZE[ht]
        lead_size = pos + ds
        end = lead_size + hl
        if end > len(buf):
            return None
        d = digest(ht, b"\0ZCK1" + bytes(buf[5:pos]) + bytes(buf[lead_size:end]))
        return bytes(buf[:pos]) + d + bytes(buf[lead_size:])
    except CIError:
        return None


def rebuild_from_parse(p, buf, **override):
    """Re-emit the header of a parsed file with some fields overridden (and re-sealed), keep the body."""
    kw = dict(hash_type=p.hash_type, chunk_hash_type=p.chunk_hash_type, flags=p.flags, comp_type=p.comp_type,
              entries=[dict(e) for e in p.entries], data_digest=p.data_digest, magic=p.magic,
              sig_count=p.sig_count)
    if p.flags & 2:
        kw["opt"] = {"elems": [(oid, None, od) for (oid, od) in p.opt]}
    keep_pad = override.pop("keep_pad", True)
    kw.update(override)
    out = build_header(**kw) + bytes(buf[p.hdr_total:])
    if keep_pad and getattr(p, "unused", 0) and p.ok:
        padded = pad_header(out, p.unused)          # keep an unusual layout (padded header) through the rewrite
        if padded is not None:
            out = padded
    return out
