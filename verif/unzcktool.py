"""Conformance of the real unzck with the model UnzckTool (what the tool does to the files of its working directory).
Every initial state of the model is prepared as a real directory, the real tool is run, and Trace_Unzck compares exit status
and directory afterwards with the model.  A difference in which the real tool exits 0 without having produced the right
output, or having touched another file, is a violation of the tool clause of C01; any other difference (and the two known
departures from InputUntouched / OnlyOwnOutput, which the model reproduces) is recorded as specification drift."""
import os, json, itertools, subprocess, shutil, re
from . import common, ref, corpus
from .common import Broken

NAMES = ["a.zck", "a", "a.zdict", "a.zhr", "a.zck.zdict", "a.zck.zhr"]


def run(ck, tier, rnd):
    wd = common.workdir("unzck")
    for cfg, expect in (("MC_UnzckTool_code.cfg", True), ("MC_UnzckTool_guarded.cfg", True), ("MC_UnzckTool_code_strict.cfg", False)):
        r = common.tlc("UnzckTool", cfg, workers=2, timeout=300)
        if r.ok != expect:
            raise Broken("UnzckTool/%s: expected %s" % (cfg, "no violation" if expect else "the documented counterexample"))
        ck.add_tlc("UnzckTool/" + cfg + ("" if expect else " (input truncated / a file it never created removed: exhibited, as documented)"), r)
    bd = common.build("plain")
    D = corpus.text(rnd, 5000); dictb = corpus.text(rnd, 400)
    good = ref.build_file([dictb, D[:2000], D[2000:]], comp_type=2, hash_type=1, chunk_hash_type=3, level=3)[0]
    h = ref.parse_header(good)
    hdr = b"\0ZHR1" + good[5:h.hdr_total + h.entries[0]["clen"]]
    bad = bytearray(good); bad[h.hdr_total - 3] ^= 0x55; bad = bytes(bad)
    contents = {"zck:good": good, "zck:bad": bad, "other": b"a bystander file\n"}
    def classify(b):
        if b is None: return "absent"
        if b == good: return "zck:good"
        if b == bad: return "zck:bad"
        if b == contents["other"]: return "other"
        if b == b"": return "empty"
        if b == D: return "content"
        if b == dictb: return "dict"
        if b == hdr: return "hdr"
        return "unknown"
    cases = []
    for inp, mode, what, kind, by in itertools.product(("a.zck", "a"), ("file", "stdout"), ("data", "dict", "header"), ("zck:good", "zck:bad"), ("absent", "other")):
        if inp == "a" and by != "absent":
            continue
        d = os.path.join(wd, "u%d" % len(cases)); os.makedirs(d)
        before = {n: "absent" for n in NAMES}
        before[inp] = kind; open(os.path.join(d, inp), "wb").write(contents[kind])
        if inp == "a.zck" and by == "other":
            before["a"] = "other"; open(os.path.join(d, "a"), "wb").write(contents["other"])
        argv = [os.path.join(bd, "unzck")] + (["-c"] if mode == "stdout" else []) + ({"data": [], "dict": ["--dict"], "header": ["--header"]}[what]) + [inp]
        try:
            p = subprocess.run(argv, cwd=d, stdout=subprocess.PIPE, stderr=subprocess.DEVNULL, timeout=60); rc = p.returncode
        except subprocess.TimeoutExpired:
            rc = 124
        after = {n: classify(open(os.path.join(d, n), "rb").read() if os.path.exists(os.path.join(d, n)) else None) for n in NAMES}
        extra = sorted(set(os.listdir(d)) - set(NAMES))
        cases.append({"input": inp, "mode": mode, "what": what, "before": before, "after": after, "exit": "ok" if rc == 0 else "fail", "rc": rc, "extra": extra, "argv": " ".join(argv[1:])})
        ck.case(("unzck", inp, mode, what, kind, by))
    p = os.path.join(wd, "cases.ndjson"); common.write_ndjson(p, cases)
    r = common.tlc("Trace_Unzck", "Trace_Unzck.cfg", workers=2, env={"TRACE": p}, timeout=600)
    if not r.ok and "SuccessMeansOutput" not in (r.violation or ""):
        raise Broken("Trace_Unzck: %s\n%s" % (r.violation, r.out[-1200:]))
    ck.add_tlc("Trace_Unzck (real unzck runs replayed on UnzckTool)", r, "%d runs" % len(cases)); ck.traces += len(cases)
    mism = sorted({int(x) for x in re.findall(r'^<<"MISMATCH", (\d+)>>', r.out, re.M)})
    drift = 0
    for c in mism:
        x = cases[c - 1]
        out = "a" if x["what"] == "data" else None
        wrong_success = x["exit"] == "ok" and (x["extra"] or any(x["after"][n] not in (x["before"][n], "content", "dict", "hdr") for n in NAMES) or
                                               (x["mode"] == "stdout" and x["after"] != x["before"]))
        if wrong_success or x["rc"] in (124, 134, 139) or x["rc"] < 0:
            ck.violation("unzck %s in a directory holding %s: exit %s, directory afterwards %s %s - not what UnzckTool allows for a run that reports success" %
                         (x["argv"], json.dumps({k: v for k, v in x["before"].items() if v != "absent"}), x["rc"], json.dumps({k: v for k, v in x["after"].items() if v != "absent"}), x["extra"]),
                         "# unzck %s\n" % x["argv"])
        else:
            drift += 1
    ck.extra["unzck_runs_compared"] = len(cases); ck.extra["unzck_runs_differing_from_model_without_wrong_success"] = drift
    if drift:
        ck.notes.append("%d unzck runs differ from UnzckTool in ways the listed properties do not speak about (specification drift)" % drift)
    shutil.rmtree(wd, ignore_errors=True)
    return len(cases)
