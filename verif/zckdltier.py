"""The zckdl tier: the shipped downloader (statically linked with the I/O shim) against the loopback
server; observations are turned into Delta-contract events (DToolRun)."""
import os, subprocess, shutil
from . import common, ref, delta, server


def run_zckdl(bd, cwd, url, src=None, kill=None, timeout=60, fault=None, trace=None, extra=(), nofd=()):
    """fault: list of (kind, role, nth, action) with role tgt (the target) or src (the local source);
    nofd: standard descriptors the tool is started without (a daemon's or cron job's environment): the files it opens get those numbers"""
    env = dict(os.environ)
    name = os.path.basename(url)
    env["ZV_ROLES"] = "tgt=%s" % name + (";src=%s" % src if src else "")
    if kill:
        env["ZV_KILL"] = "tgt:%d:%d" % kill
    if fault:
        env["ZV_FAULT"] = ";".join("%s:%s:%d:%d" % f for f in fault)
    if trace:
        env["ZV_TRACE"] = trace
    args = [os.path.join(bd, "zckdl")] + list(extra) + (["-s", src] if src else []) + [url]
    try:
        pre = (lambda: [os.close(x) for x in nofd]) if nofd else None
        p = subprocess.run(args, cwd=cwd, env=env, stdout=subprocess.PIPE, stderr=subprocess.PIPE, timeout=timeout, preexec_fn=pre)
        return p.returncode
    except subprocess.TimeoutExpired:
        return "Hang"


def tool_event(B, h, A, before, after, ranges, status, full=False, must=False, bvalid=True):
    """one zckdl run -> a `toolrun` event with facts"""
    n = len(h.entries)
    ext = delta.extents(h)
    d0, _ = delta.disk_facts(before, B, h)
    usable = [False] * n
    if A is not None:
        m, u = delta.source_match(h, A); usable = u
    sized = [e["clen"] > 0 for e in h.entries]
    X = set(); whole = True
    for (a, b) in ranges:
        if b < h.hdr_total:
            continue                         # header bytes
        pos = a
        while pos <= b:
            hit = [c for c in range(n) if ext[c][0] == pos and ext[c][1] > ext[c][0]]
            if not hit or ext[hit[0]][1] - 1 > b:
                whole = False; break
            X.add(hit[0]); pos = ext[hit[0]][1]
        if not whole:
            break
    # all chunks right but the whole-data checksum wrong does not occur here (B is genuine)
    return {"op": "toolrun", "status": status if isinstance(status, int) else 98, "eqB": after == B, "X": sorted(c + 1 for c in X), "wholeChunks": whole,
            "disk": d0, "usable": usable, "sized": sized, "n": n, "full": bool(full), "must": bool(must), "bValid": bool(bvalid)}
