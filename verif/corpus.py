"""Small valid files built by the reference writer, and mutators (raw and structure-aware, re-sealed)."""
import random
from . import ref


def text(rnd, n):
    words = [b"alpha", b"beta", b"gamma", b"delta", b"<text:p>", b"</text:p>", b"\n", b" ", b"zchunk", b"0123456789"]
    out = bytearray()
    while len(out) < n:
        out += rnd.choice(words)
    return bytes(out[:n])


def rand(rnd, n):
    return bytes(rnd.getrandbits(8) for _ in range(n))


def seed_files(rnd, big=False):
    """list of (name, file bytes, chunks list) : small valid files of every flavour"""
    out = []
    k = 0
    for comp in (0, 2):
        for dic in (False, True):
            for (ht, cht, flags) in ((1, 3, 0), (0, 0, 0), (2, 2, 0), (3, 1, 0), (1, 1, 4)):
                d = text(rnd, 40) if dic else b""
                sizes = [rnd.choice([1, 5, 33, 200, 1000]) for _ in range(rnd.choice([1, 2, 3, 5]))]
                if big and k % 4 == 0:
                    sizes = [40000, 70000, 5, 33000]
                chunks = [d] + [(text(rnd, n) if rnd.random() < 0.6 else rand(rnd, n)) for n in sizes]
                if k % 7 == 3 and len(chunks) >= 3:
                    chunks.append(chunks[1]); chunks.insert(2, chunks[1])        # the same chunk three times (one checksum, three index entries)
                pad = (0, 0, 1, 0, 40)[k % 5]       # some with a padded header (stored header length larger than the sections)
                buf, stored = ref.build_file(chunks, comp_type=comp, hash_type=ht, chunk_hash_type=cht, flags=flags, level=rnd.choice([1, 3, 9]), pad=pad)
                out.append(("seed%d-c%d-d%d-h%d%d-f%d%s" % (k, comp, int(dic), ht, cht, flags, "-pad%d" % pad if pad else ""), buf, chunks))
                k += 1
    return out


BUF = 32768      # the library's internal copy / hash / read block size (BUF_SIZE)


def bufedge_chunks(rnd, comp):
    """data chunks whose STORED sizes sit exactly on, one below and one above the library's 32 KiB block size and its
    multiples, plus a one-byte chunk; uncompressed, the stored data is a whole number of blocks long"""
    if comp == 0:
        return [rand(rnd, n) for n in (BUF, BUF - 1, BUF + 1, 2 * BUF, 1, BUF - 1)]
    out = []
    for want in (BUF, BUF - 1, BUF + 1):
        got = None
        for n in range(want - 40, want + 1):
            c = rand(rnd, n)
            if len(ref.zstd_compress(c, 3, None)) == want:
                got = c; break
        out.append(got if got is not None else rand(rnd, want))
    out.append(text(rnd, 70000)); out.append(rand(rnd, 1))
    return out


def special_files(rnd):
    """valid-looking files with unusual but legal content"""
    out = []
    # a dictionary chunk whose content carries the zstd dictionary magic followed by junk: every checksum
    # is valid, but the decompressor refuses to load it as a dictionary
    for junk in (rand(rnd, 60), bytes(60), b"\x01" * 8):
        chunks = [b"\x37\xa4\x30\xec" + junk, text(rnd, 200), rand(rnd, 50)]
        stored = [ref.zstd_compress(c, 3, None) for c in chunks]
        ents = [{"clen": len(s_), "ulen": len(c), "digest": ref.digest(3, s_)} for c, s_ in zip(chunks, stored)]
        body = b"".join(stored)
        hb = ref.build_header(hash_type=1, chunk_hash_type=3, flags=0, comp_type=2, entries=ents, data_digest=ref.digest(1, body))
        out.append(("special-dictmagic-%d" % len(out), hb + body, chunks))
    # zstd frames that are valid but declare other sizes than the index (skippable frame, empty frame)
    empty_frame = ref.zstd_compress(b"", 3, None)
    chunks = [b"", b"abc"]
    stored = [b"", empty_frame]
    ents = [{"clen": 0, "ulen": 0, "digest": bytes(16)}, {"clen": len(empty_frame), "ulen": 3, "digest": ref.digest(3, empty_frame)}]
    hb = ref.build_header(hash_type=1, chunk_hash_type=3, flags=0, comp_type=2, entries=ents, data_digest=ref.digest(1, empty_frame))
    out.append(("special-emptyframe", hb + empty_frame, chunks))
    return out


def raw_mutants(rnd, buf, n):
    """bit flips, substitutions, insertions, deletions, truncations - no re-sealing"""
    out = []
    L = len(buf)
    for _ in range(n):
        kind = rnd.choice(["flip", "sub", "ins", "del", "trunc", "trunc", "dup"])
        b = bytearray(buf)
        p = rnd.randrange(L)
        if kind == "flip":
            b[p] ^= 1 << rnd.randrange(8)
        elif kind == "sub":
            b[p] = rnd.getrandbits(8)
        elif kind == "ins":
            b[p:p] = bytes([rnd.getrandbits(8)] * rnd.choice([1, 2, 7]))
        elif kind == "del":
            del b[p:p + rnd.choice([1, 2, 7])]
        elif kind == "trunc":
            del b[p:]
        elif kind == "dup":
            q = rnd.randrange(L); b[p:p] = b[q:q + rnd.randrange(1, 40)]
        out.append((kind + "@%d" % p, bytes(b)))
    return out


def struct_mutants(rnd, buf):
    """structure-aware mutations with the header re-sealed: sizes, digests, flags, compression type,
    count, chunk swaps (with and without their index entries), body damage under a valid header"""
    h = ref.parse_header(buf)
    if not h.ok:
        return []
    out = []
    body = buf[h.hdr_total:]
    E = [dict(e) for e in h.entries]

    def emit(name, entries=None, newbody=None, **kw):
        ents = entries if entries is not None else [dict(e) for e in E]
        nb = body if newbody is None else newbody
        try:
            hb = ref.rebuild_from_parse(h, buf[:h.hdr_total], entries=ents, **kw)
        except Exception:
            return
        out.append((name, hb + nb))
    n = len(E)
    for i in range(n):
        for d in (-1, 1, 5, 2**20, 2**40, 2**62):      # (2^31 really allocates 2 GiB: resource use, not a hang)
            e2 = [dict(e) for e in E]; e2[i]["ulen"] = max(0, E[i]["ulen"] + d); emit("ulen%d%+d" % (i, d), e2)
            e2 = [dict(e) for e in E]; e2[i]["clen"] = max(0, E[i]["clen"] + d); emit("clen%d%+d" % (i, d), e2)
        e2 = [dict(e) for e in E]; e2[i]["ulen"] = 0; emit("ulen%d=0" % i, e2)
        e2 = [dict(e) for e in E]; e2[i]["clen"] = 0; emit("clen%d=0" % i, e2)
        e2 = [dict(e) for e in E]; d_ = bytearray(e2[i]["digest"]); d_[rnd.randrange(len(d_))] ^= 0x10; e2[i]["digest"] = bytes(d_); emit("digest%d" % i, e2)
    if n >= 3:
        # swap two chunks' stored bytes, with and without swapping the index entries
        a, b = 1, 2
        sa = body[E[a]["start"]:E[a]["start"] + E[a]["clen"]]; sb = body[E[b]["start"]:E[b]["start"] + E[b]["clen"]]
        nb = body[:E[a]["start"]] + sb + sa + body[E[b]["start"] + E[b]["clen"]:]
        emit("swapbody", newbody=nb)
        e2 = [dict(e) for e in E]; e2[a], e2[b] = e2[b], e2[a]
        emit("swapindex", e2)
        dd = ref.digest(h.hash_type, nb[:sum(e["clen"] for e in E)])
        emit("swapboth", e2, newbody=nb, data_digest=dd if not (h.flags & 4) else h.data_digest)
        emit("swapboth-stale-datadigest", e2, newbody=nb)      # only the whole-data checksum can tell
    emit("comp0", comp_type=0); emit("comp2", comp_type=2); emit("comp1", comp_type=1)
    emit("flags4", flags=h.flags ^ 4)
    emit("count+1", count=n + 1); emit("count-1", count=max(0, n - 1))
    # an index size that claims more than the entries present, with and without unused bytes behind the signature section
    # for the parser to run into (one or two digest lengths of them)
    cds = ref.DIGEST_SIZE.get(h.chunk_hash_type, 16)
    for k in (1, cds, cds + 3, 2 * cds):
        for t in (0, cds, cds + 9, 2 * cds + 1):
            emit("isz+%d-tail%d" % (k, t), index_size=h.index_size + k, tail=bytes(t), keep_pad=False)
    dd = bytearray(h.data_digest); dd[0] ^= 1; emit("datadigest", data_digest=bytes(dd))
    emit("dropchunk", entries=[dict(e) for e in E[:-1]])
    emit("dupchunk", entries=[dict(e) for e in E] + [dict(E[-1])])
    # body damage under the valid header (not re-sealed since the header is untouched)
    if len(body) > 0:
        for _ in range(6):
            p = rnd.randrange(len(body)); nb = bytearray(body); nb[p] ^= 1 << rnd.randrange(8)
            out.append(("bodyflip@%d" % p, buf[:h.hdr_total] + bytes(nb)))
        out.append(("bodytrunc", buf[:h.hdr_total + len(body) // 2]))
        out.append(("bodyzero", buf[:h.hdr_total] + bytes(len(body))))
        out.append(("bodylong", buf + b"trailing garbage"))
        out.append(("nobody", buf[:h.hdr_total]))
    # the other identifier on a sample of the mutants (the header checksum is indifferent to it)
    for (nm, mb) in list(out):
        if nm in ("swapboth-stale-datadigest", "datadigest", "swapbody", "bodytrunc") or rnd.random() < 0.08:
            out.append((nm + "+zhr", b"\0ZHR1" + mb[5:]))
    # detached header forms
    out.append(("detached", b"\0ZHR1" + buf[5:h.hdr_total + E[0]["clen"]]))
    out.append(("detached-nodict", b"\0ZHR1" + buf[5:h.hdr_total]))
    out.append(("magic-zhr-full", b"\0ZHR1" + buf[5:]))
    return out
