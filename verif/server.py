"""Loopback HTTP/1.1 range server for the zckdl tier: single ranges, multipart/byteranges, an optional
limit on the number of ranges (more => 200 with the whole file, which makes zckdl reduce its request),
logging of every Range header."""
import http.server, socketserver, threading, os, json, re


class Handler(http.server.BaseHTTPRequestHandler):
    protocol_version = "HTTP/1.1"

    def log_message(self, *a):
        pass

    def do_GET(self):
        srv = self.server
        path = os.path.join(srv.root, os.path.basename(self.path))
        if not os.path.isfile(path):
            self.send_response(404); self.send_header("Content-Length", "0"); self.end_headers(); return
        data = open(path, "rb").read()
        rng = self.headers.get("Range")
        with srv.lock:
            srv.log.append({"path": os.path.basename(self.path), "range": rng})
        ranges = []
        if rng and rng.startswith("bytes="):
            for part in rng[6:].split(","):
                m = re.match(r"\s*(\d+)-(\d*)\s*$", part)
                if m:
                    a = int(m.group(1)); b = int(m.group(2)) if m.group(2) else len(data) - 1
                    ranges.append((a, min(b, len(data) - 1)))
        if not ranges or srv.no_ranges or (srv.max_ranges and len(ranges) > srv.max_ranges):
            self.send_response(200); self.send_header("Content-Length", str(len(data))); self.send_header("Connection", "close"); self.end_headers()
            self.wfile.write(data); return
        if len(ranges) == 1:
            a, b = ranges[0]
            body = data[a:b + 1]
            self.send_response(206); self.send_header("Content-Range", "bytes %d-%d/%d" % (a, b, len(data)))
            self.send_header("Content-Length", str(len(body))); self.end_headers(); self.wfile.write(body); return
        with srv.lock:
            srv.nresp = getattr(srv, "nresp", 0) + 1
            bnd = srv.boundary + b"%d" % srv.nresp          # a fresh boundary for every response, as real servers do
        body = b""
        for (a, b) in ranges:
            body += b"\r\n--" + bnd + b"\r\nContent-Type: application/octet-stream\r\nContent-Range: bytes %d-%d/%d\r\n\r\n" % (a, b, len(data)) + data[a:b + 1]
        body += b"\r\n--" + bnd + b"--\r\n"
        self.send_response(206); self.send_header("Content-Type", "multipart/byteranges; boundary=" + bnd.decode())
        self.send_header("Content-Length", str(len(body))); self.end_headers()
        # deliver in small pieces so that the client sees many fragments
        step = srv.piece or len(body)
        for i in range(0, len(body), step):
            self.wfile.write(body[i:i + step]); self.wfile.flush()


class Server(socketserver.ThreadingMixIn, http.server.HTTPServer):
    daemon_threads = True
    allow_reuse_address = True


def start(root, max_ranges=0, boundary=b"zckdlBOUNDARY+1", piece=0, no_ranges=False):
    """no_ranges: a server that ignores Range altogether (always 200 with the whole file)"""
    srv = Server(("127.0.0.1", 0), Handler)
    srv.root = root; srv.max_ranges = max_ranges; srv.boundary = boundary; srv.piece = piece; srv.no_ranges = no_ranges
    srv.log = []; srv.lock = threading.Lock()
    t = threading.Thread(target=srv.serve_forever, daemon=True); t.start()
    return srv


def requested_ranges(log, name):
    out = []
    for e in log:
        if e["path"] == name and e["range"] and e["range"].startswith("bytes="):
            for part in e["range"][6:].split(","):
                a, b = part.split("-"); out.append((int(a), int(b)))
    return out
