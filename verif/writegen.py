"""Generators for writer runs: contents, configurations, write segmentations, scripts."""
import os, random
from . import corpus, ref

OPT = {"full": 0, "chunk": 1, "uncomp": 4, "comp": 100, "manual": 101, "min": 102, "max": 103, "level": 1000}


def content(rnd, cls, n, split=b"<text:"):
    if cls == "empty":
        return b""
    if cls == "one":
        return bytes([rnd.getrandbits(8)])
    if cls == "rep":
        unit = corpus.rand(rnd, rnd.choice([1, 3, 64, 4096]))
        return (unit * (n // len(unit) + 1))[:n]
    if cls == "rand":
        return corpus.rand(rnd, n) if n < 200000 else os.urandom(n)
    if cls == "text":
        return corpus.text(rnd, n)
    if cls == "mixed":
        out = bytearray()
        while len(out) < n:
            k = rnd.choice([100, 5000, 40000, 200000])
            out += rnd.choice([corpus.text(rnd, min(k, 50000)) * (k // 50000 + 1), bytes(k), os.urandom(k), b"ab" * (k // 2)])[:k]
        return bytes(out[:n])
    if cls == "split":
        out = bytearray(corpus.text(rnd, n))
        for _ in range(max(1, n // 3000)):
            p = rnd.randrange(max(1, n)); out[p:p + len(split)] = split
        return bytes(out[:n])
    raise ValueError(cls)


def config(rnd, small):
    cfg = {"comp": rnd.choice([0, 2]), "manual": rnd.random() < 0.5, "full": rnd.choice([0, 1, 1, 2, 3]),
           "chunk": rnd.choice([0, 1, 2, 3]), "uncomp": rnd.random() < 0.2, "dict": rnd.random() < 0.3}
    if cfg["comp"] == 2:
        cfg["level"] = rnd.choice([0, 1, 3, 9, 19, 22]) if small else rnd.choice([1, 3, 9])
    r = rnd.random()
    if r < 0.35:
        pass                                    # defaults
    elif cfg["manual"]:
        mx = rnd.choice([1, 2, 7, 100, 4096, 40000])
        cfg["max"] = mx; cfg["min"] = rnd.choice([1, max(1, mx // 2), mx])
    else:
        mx = rnd.choice([100, 4096, 8191, 8192, 8193, 20000, 40000, 200000, 200000, 10485760])
        cfg["max"] = mx; cfg["min"] = rnd.choice([1, 100, min(mx, 8192), min(mx, 10000), mx, min(mx, 131073), min(mx, 150000)])
    return cfg


def cfg_lines(cfg, c, wd, tag):
    lines = []
    lines.append("ioption %d %d %d" % (c, OPT["comp"], cfg["comp"]))
    if "level" in cfg and cfg["comp"] == 2:
        lines.append("ioption %d %d %d" % (c, OPT["level"], cfg["level"]))
    lines.append("ioption %d %d %d" % (c, OPT["full"], cfg["full"]))
    lines.append("ioption %d %d %d" % (c, OPT["chunk"], cfg["chunk"]))
    if cfg.get("uncomp"):
        lines.append("ioption %d %d 1" % (c, OPT["uncomp"]))
    if cfg.get("manual"):
        lines.append("ioption %d %d 1" % (c, OPT["manual"]))
    if "max" in cfg:
        lines.append("ioption %d %d %d" % (c, OPT["max"], cfg["max"]))
    if "min" in cfg:
        lines.append("ioption %d %d %d" % (c, OPT["min"], cfg["min"]))
    if cfg.get("dict"):
        lines.append("soption %d 100 hex:%s" % (c, cfg.get("dictbytes", b"the quick brown fox <text:p> zchunk dictionary").hex()))
    return lines


def refused_lines(cfg, c, variant):
    """option calls the library refuses (a minimum above the maximum, a maximum below the minimum, a negative minimum), each
    followed by zck_clear_error: a refused call must leave nothing behind (the file is a function of content and ACCEPTED
    configuration)"""
    mx = cfg.get("max", 10485760); mn = cfg.get("min", 1)
    v = [["ioption %d %d %d" % (c, OPT["min"], mx + 1)],
         ["ioption %d %d %d" % (c, OPT["max"], mn - 1)] if mn > 1 else ["ioption %d %d %d" % (c, OPT["min"], mx + 4096)],
         ["ioption %d %d -1" % (c, OPT["min"])],
         # checksum types the library does not know (chunk / overall): refused, and the type in force stays what it was
         ["ioption %d %d 77" % (c, OPT["chunk"])],
         ["ioption %d %d 4" % (c, OPT["full"]), "clear_error %d" % c, "ioption %d %d 260" % (c, OPT["chunk"])]][variant % 5]
    return v + ["clear_error %d" % c]


def segmentation(rnd, n, style):
    if n == 0:
        return []
    if style == "whole":
        return [n]
    if style == "one":
        return [1] * n
    out = []; left = n
    choices = {"prime": [7, 13, 101, 4099, 32771], "blk": [32768], "mix": [1, 2, 100, 8191, 8192, 32768, 100000, 300000]}[style]
    while left > 0:
        k = min(left, rnd.choice(choices)); out.append(k); left -= k
    return out


def eff_minmax(cfg, avg=32768):
    """effective automatic minimum / maximum as documented: a quarter of and four times the average chunk size the
    rolling hash aims at (avg, read from the writer itself: 32 KiB by default), clamped by the configured limits"""
    mn = cfg.get("min", 1); mx = cfg.get("max", 10485760)
    lo = max(avg // 4, mn); hi = min(avg * 4, mx)
    if lo > hi:
        lo = hi
    return lo, hi


# ---------------------------------------------------------------- rolling hash (input generator only)
_TAB = None


def _table():
    global _TAB
    if _TAB is None:
        import re
        from .common import REPO
        src = open(os.path.join(REPO, "src/lib/buzhash/buzhash.c")).read()
        _TAB = [int(x, 16) for x in re.findall(r"0x([0-9a-f]{8})", src)][:256]
    return _TAB


def hash_matches(data, width=48, mask=0x7fff):
    """indices i such that the rolling hash of data[i-width+1 .. i] has its low bits zero.  Used only to
    *place* inputs near interesting boundaries; never as an oracle."""
    T = _table()
    def rol(v, s):
        s %= 32
        return v if s == 0 else ((v << s) | (v >> (32 - s))) & 0xffffffff
    out = []
    h = 0
    n = len(data)
    rolw = [rol(t, width) for t in T]
    for i in range(n):
        if i < width:
            h ^= rol(T[data[i]], width - 1 - i)
            if i == width - 1 and (h & mask) == 0:
                out.append(i)
        else:
            h = (((h << 1) | (h >> 31)) & 0xffffffff) ^ rolw[data[i - width]] ^ T[data[i]]
            if (h & mask) == 0:
                out.append(i)
    return out


def simulate_cuts(data, lo=8192, hi=131072, width=48, mask=0x7fff):
    """chunk end offsets the automatic chunker is expected to produce for one write of `data`, including the
    re-fed byte after a refused (below-minimum) match and the window reset at every chunk end.  Used only to
    *place* crafted inputs relative to chunk starts; the oracle stays the equality between runs."""
    T = _table()
    def rol(v, s):
        s %= 32
        return v if s == 0 else ((v << s) | (v >> (32 - s))) & 0xffffffff
    cuts = []; n = len(data)
    win = []; h = 0; start = 0; i = 0
    def feed(b):
        nonlocal h, win
        if len(win) < width:
            win.append(b)
            if len(win) < width:
                h ^= rol(T[b], width - len(win)); return 1
            h ^= T[b]; return h
        old = win.pop(0); win.append(b)
        h = rol(h, 1) ^ rol(T[old], width) ^ T[b]
        return h
    while i < n:
        r = feed(data[i])
        if (r & mask) == 0 or i - start >= hi:
            if i - start < lo:
                feed_again = True      # refused: the same byte is fed once more (loop continues with i unchanged)
                r2 = feed(data[i])
                # the second feed may itself match or not; the code loops until a non-matching feed advances i
                while (r2 & mask) == 0 and i - start < lo:
                    r2 = feed(data[i])
                i += 1
                continue
            cuts.append(i); start = i; win = []; h = 0
            continue                    # byte i is the first byte of the next chunk (fed to the fresh window)
        i += 1
    return cuts


def natural_hit_suffix(prefix48, rnd, width=48, mask=0x7fff):
    """two bytes (x, y) such that the plain rolling hash of the last `width` bytes of prefix48 + x + y is a match"""
    T = _table()
    def rol(v, s):
        s %= 32
        return v if s == 0 else ((v << s) | (v >> (32 - s))) & 0xffffffff
    w = prefix48[-(width - 2):]
    base = 0
    for k, b in enumerate(w):
        base ^= rol(T[b], width - 1 - k)
    order = list(range(256)); rnd.shuffle(order)
    for x in order:
        hx = base ^ rol(T[x], 1)
        for y in order:
            if ((hx ^ T[y]) & mask) == 0:
                return bytes([x, y])
    return None


def double_hit_contents(rnd, tier, lo=8192):
    """contents in which a chunk that does NOT start the stream has a natural match d1 bytes below the effective
    minimum (refused) and another one d2 bytes above it whose window overlaps the first: whether the second one
    ends the chunk depends on the exact hash state carried across the refused match"""
    out = []
    pairs = [(-20, 10), (-47, 0), (-1, 40), (-30, 1)] if tier == "quick" else [(a, b) for a in (-47, -40, -30, -20, -10, -1) for b in (0, 1, 10, 25, 40) if b - a < 48]
    for d1, d2 in pairs:
        for attempt in range(20):
            A = bytes(rnd.getrandbits(8) for _ in range(60000))
            cutsA = simulate_cuts(A)
            if not cutsA:
                continue
            c = cutsA[rnd.randrange(len(cutsA))]
            first = A[c]                              # the byte whose match ends A's last chunk is the first byte of the next one
            A = A[:c]
            B = bytearray(rnd.getrandbits(8) for _ in range(lo + d1 - 1)); B[0] = first
            s1 = natural_hit_suffix(bytes(B), rnd)
            if s1 is None:
                continue
            B += s1                                   # natural match at offset lo + d1 of the chunk
            B += bytes(rnd.getrandbits(8) for _ in range(d2 - d1 - 2))
            s2 = natural_hit_suffix(bytes(B), rnd)
            if s2 is None:
                continue
            B += s2                                   # natural match at offset lo + d2
            if any(c < lo + d1 for c in [x for x in hash_matches(bytes(B))]):
                continue                              # an earlier natural match would blur the picture
            tail = bytes(rnd.getrandbits(8) for _ in range(180000))
            whole = A + bytes(B) + tail
            if len(A) not in simulate_cuts(whole):
                continue
            out.append(("dbl%+d%+d" % (d1, d2), whole))
            break
    return out


def crafted_contents(rnd, tier):
    """contents whose first chunk boundary falls just above the effective minimum (8192 + d), and contents
    with an early (refused) match followed by a long run without matches (forced cut at the maximum)"""
    stream = os.urandom(1 << 20) if False else bytes(rnd.getrandbits(8) for _ in range(700000))
    ms = hash_matches(stream)
    out = []
    deltas = [0, 1, 5, 30, 45, 46, 47, 48, 60] if tier == "thorough" else [0, 1, 46, 47, 60]
    for d in deltas:
        for m in ms:
            start = m - 8192 - d
            if start < 100:
                continue
            # no other match inside the would-be first chunk
            if any(start + 47 <= x < m for x in ms):
                continue
            out.append(("min+%d" % d, stream[start:start + 60000]))
            break
    # early match (refused) then zeros: one chunk must be cut at the maximum
    for m in ms:
        if m > 5000:
            start = m - rnd.choice([300, 2000, 6000])
            piece = stream[start:start + 8000]
            out.append(("early-match-then-zeros", piece + bytes(300000) + stream[:50000]))
            break
    out += double_hit_contents(rnd, tier)
    return out
