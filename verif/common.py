"""Shared machinery: builds, driver runs, TLC runs, evidence, verdict plumbing."""
import json, os, subprocess, sys, time, tempfile, shutil, hashlib, re, random

VERIF = os.path.dirname(os.path.dirname(os.path.abspath(__file__)))
REPO = os.environ.get("VERIF_REPO", "/repo")
COV = bool(os.environ.get("VERIF_COV"))      # tools/coverage.sh: measure which repository lines the checks reach
BUILD = os.environ.get("VERIF_BUILD") or os.path.join(VERIF, ".build-cov" if COV else ".build")   # VERIF_BUILD/VERIF_EVID: scratch runs (tools/try_mutant_wt.sh)
SPEC = os.path.join(VERIF, "spec")
EVID = os.environ.get("VERIF_EVID") or os.path.join(VERIF, "evidence")
REPLAY = os.path.join(EVID, "replay")
NCPU = os.cpu_count() or 4


class Broken(Exception):
    """The machinery itself failed (build, TLC tool error, vacuity, negative control)."""


def seed():
    try:
        return int(os.environ.get("VERIF_SEED", "1"))
    except ValueError:
        return 1


def workdir(tag):
    base = os.environ.get("VERIF_TMP") or os.path.join(BUILD, "work")
    os.makedirs(base, exist_ok=True)
    return tempfile.mkdtemp(prefix=tag + "-", dir=base)


def build(variant="plain"):
    """(Re)build drivers and tools of one variant from the repository's current working tree."""
    os.makedirs(BUILD, exist_ok=True)
    t = time.time()
    p = subprocess.run(["make", "-s", "-j%d" % NCPU, "-C", os.path.join(VERIF, "harness"),
                        "VARIANT=" + variant, "REPO=" + REPO, "BUILDROOT=" + BUILD] + (["VERIF_COV=1"] if COV else []),
                       stdout=subprocess.PIPE, stderr=subprocess.STDOUT, text=True)
    if p.returncode != 0:
        raise Broken("harness build failed (%s):\n%s" % (variant, p.stdout[-3000:]))
    return os.path.join(BUILD, variant)


ASAN_ENV = {"ASAN_OPTIONS": "detect_leaks=0:abort_on_error=1:handle_segv=0:handle_sigbus=0:allocator_may_return_null=1:max_allocation_size_mb=4096",
            "UBSAN_OPTIONS": "print_stacktrace=1:halt_on_error=1:abort_on_error=1"}


def run_driver(script, variant="plain", env=None, timeout=600, stderr_path=None):
    """Feed a script (text) to zckdrive; return the list of events."""
    exe = os.path.join(BUILD, variant, "zckdrive")
    e = dict(os.environ)
    if variant.startswith("asan"):
        e.update(ASAN_ENV)
    if variant.startswith("tsan"):
        e["TSAN_OPTIONS"] = "halt_on_error=0:report_signal_unsafe=0:exitcode=0:history_size=7:io_sync=0"
    if env:
        e.update(env)
    err = open(stderr_path, "wb") if stderr_path else subprocess.DEVNULL
    try:
        p = subprocess.run([exe], input=script.encode(), stdout=subprocess.PIPE, stderr=err, env=e, timeout=timeout)
    except subprocess.TimeoutExpired:
        raise Broken("driver run exceeded %ds" % timeout)
    finally:
        if stderr_path:
            err.close()
    evs = []
    for line in p.stdout.splitlines():
        line = line.strip()
        if not line:
            continue
        try:
            evs.append(json.loads(line))
        except ValueError:
            evs.append({"op": "Garbled", "raw": line[:200].decode("latin1")})
    return evs


def run_driver_parallel(scripts, variant="plain", env=None, timeout=900):
    """Run several scripts concurrently (one driver process each); returns list of event lists."""
    from concurrent.futures import ThreadPoolExecutor
    with ThreadPoolExecutor(max_workers=NCPU) as ex:
        return list(ex.map(lambda s: run_driver(s, variant, env, timeout), scripts))


def by_case(events):
    d = {}
    for e in events:
        d.setdefault(e.get("case", ""), []).append(e)
    return d


# ------------------------------------------------------------------ TLC
class TlcResult:
    def __init__(self):
        self.ok = False; self.violation = None; self.states = 0; self.distinct = 0
        self.depth = 0; self.out = ""; self.coverage = {}; self.printed = []; self.rc = None; self.wall = 0.0


_TLC_JAR = "/opt/veriftools/tla/tla2tools.jar"
_CM_JAR = None


def _classpath():
    global _CM_JAR
    if _CM_JAR is None:
        # the `tlc` wrapper knows the CommunityModules jar; find it once
        cands = []
        for root in ("/opt/veriftools/tla",):
            for f in os.listdir(root):
                if f.endswith(".jar"):
                    cands.append(os.path.join(root, f))
        _CM_JAR = ":".join(sorted(cands, key=lambda x: (0 if x.endswith("tla2tools.jar") else 1, x)))
    return _CM_JAR


def tlc(module, cfg=None, workers=None, env=None, timeout=1500, extra=(), simulate=None, coverage=False, cwd=SPEC, deadlock=None, heap="4g", dfs=False):
    """Run TLC on spec/<module>.tla. Returns TlcResult. Raises Broken on tool failure."""
    meta = workdir("tlc")
    cmd = ["java", "-XX:+UseParallelGC", "-Xss512m", "-Xmx" + heap]
    if dfs:
        cmd.append("-Dtlc2.tool.queue.IStateQueue=StateDeque")
    cmd += ["-cp", _classpath(), "tlc2.TLC", "-noGenerateSpecTE", "-metadir", meta,
            "-workers", str(workers or "auto")]
    if cfg:
        cmd += ["-config", cfg]
    if coverage:
        cmd += ["-coverage", "1"]
    if simulate:
        cmd += ["-simulate", simulate]
    if deadlock is False:
        cmd += ["-deadlock"]
    cmd += list(extra) + [module]
    e = dict(os.environ)
    if env:
        e.update({k: str(v) for k, v in env.items()})
    t = time.time()
    r = TlcResult()
    for attempt in (1, 2):
        try:
            p = subprocess.run(cmd, cwd=cwd, env=e, stdout=subprocess.PIPE, stderr=subprocess.STDOUT, text=True, timeout=timeout)
        except subprocess.TimeoutExpired:
            shutil.rmtree(meta, ignore_errors=True)
            raise Broken("TLC timeout on %s" % module)
        r.out = p.stdout; r.rc = p.returncode
        # exit codes: 0 ok, 10..14 violations (safety/deadlock/liveness/assert), others tool errors
        if p.returncode in (0, 10, 11, 12, 13, 14):
            break
        if attempt == 2:
            shutil.rmtree(meta, ignore_errors=True)
            errs = "\n".join(x[:300] for x in p.stdout.splitlines() if x.startswith("Error") or "xception" in x)[:1500]
            raise Broken("TLC failed on %s (rc=%s):\n%s\n...\n%s" % (module, p.returncode, errs, p.stdout[-800:]))
    shutil.rmtree(meta, ignore_errors=True)
    r.wall = time.time() - t
    m = re.search(r"(\d+) states generated, (\d+) distinct states found", r.out)
    if m:
        r.states = int(m.group(1)); r.distinct = int(m.group(2))
    m = re.search(r"depth of the complete state graph search is (\d+)", r.out)
    if m:
        r.depth = int(m.group(1))
    r.ok = (r.rc == 0)
    if not r.ok:
        m = re.search(r"(Invariant \S+ is violated|Temporal properties were violated|Deadlock reached|The postcondition \S* ?is? ?false|Assumption .* is false|Action property \S+ is violated|The first argument of Assert evaluated to FALSE[^\n]*)", r.out)
        r.violation = m.group(1) if m else ("rc=%s" % r.rc)
    r.printed = re.findall(r"^(<<.*>>|\".*\")$", r.out, re.M)
    if coverage:
        for m in re.finditer(r"<(\w+) line \d+, col \d+ to line \d+, col \d+ of module (\w+)>: (\d+):(\d+)", r.out):
            r.coverage[m.group(1)] = (int(m.group(3)), int(m.group(4)))
    return r


def cfg_variant(cfgname, wd, **consts):
    """a copy of spec/<cfgname> in the run's work directory with some constants replaced (deeper bounds of the
    thorough tiers); returns its absolute path (TLC accepts it with -config)"""
    txt = open(os.path.join(SPEC, cfgname)).read()
    for k, v in consts.items():
        txt, n = re.subn(r"(^\s*%s\s*=\s*).*$" % re.escape(k), lambda m: m.group(1) + str(v), txt, flags=re.M)
        if n != 1:
            raise Broken("cfg_variant: constant %s not found exactly once in %s" % (k, cfgname))
    p = os.path.join(wd, "%s-%s" % ("-".join("%s%s" % (k, re.sub(r"[^0-9A-Za-z]", "", str(v))) for k, v in consts.items()), cfgname))
    open(p, "w").write(txt)
    return p


def tlc_printed_json(res, tag):
    """Extract JSON payloads printed by PrintT(<<tag, ToJson(x)>>)."""
    out = []
    pat = re.compile(r'^<<"%s", "(.*)">>$' % re.escape(tag))
    for line in res.out.splitlines():
        m = pat.match(line.strip())
        if m:
            s = m.group(1).encode().decode("unicode_escape") if "\\" in m.group(1) else m.group(1)
            try:
                out.append(json.loads(s))
            except ValueError:
                pass
    return out


def write_ndjson(path, events):
    with open(path, "w") as f:
        for e in events:
            f.write(json.dumps(e, separators=(",", ":")) + "\n")


def validate_trace(module, cfg, trace_path, env=None, timeout=900, heap="3g"):
    """Trace validation: TLC must consume the whole ndjson trace (POSTCONDITION in the cfg).
    Returns (accepted: bool, TlcResult)."""
    e = {"TRACE": trace_path}
    if env:
        e.update(env)
    r = tlc(module, cfg, workers=1, env=e, timeout=timeout, heap=heap)
    return r.ok, r


def validate_traces_parallel(module, cfg, trace_paths, env=None, timeout=900):
    from concurrent.futures import ThreadPoolExecutor
    with ThreadPoolExecutor(max_workers=max(1, NCPU // 2)) as ex:
        return list(ex.map(lambda p: validate_trace(module, cfg, p, env, timeout), trace_paths))


# ------------------------------------------------------------------ known findings
def known_findings():
    p = os.path.join(VERIF, "known_findings.json")
    if not os.path.exists(p):
        return []
    return json.load(open(p)).get("findings", [])


def known_for(prop):
    return [f for f in known_findings() if f.get("property") == prop and f.get("status") == "open"]


# ------------------------------------------------------------------ check result plumbing
class Check:
    """Collects what a check run did, and turns it into evidence + exit status."""

    def __init__(self, prop, tier, level="model_checking"):
        self.prop = prop; self.tier = tier; self.level = level
        self.t0 = time.time()
        self.states = 0; self.transitions = 0; self.traces = 0
        self.evaluations = 0; self.distinct = set(); self.samples = []
        self.violations = []          # (what, replay_path)
        self.known_seen = {}          # finding id -> text
        self.notes = []; self.models = []; self.assumptions = []
        self.exhaustive = False
        self.extra = {}
        os.makedirs(REPLAY, exist_ok=True)
        for fn in os.listdir(REPLAY):          # replays of earlier runs of this check are stale
            if fn.startswith(prop + "-"):
                try: os.remove(os.path.join(REPLAY, fn))
                except OSError: pass

    def add_tlc(self, name, res, constants=""):
        self.states += res.distinct; self.transitions += res.states
        self.models.append({"model": name, "distinct_states": res.distinct, "states_generated": res.states,
                            "depth": res.depth, "wall_s": round(res.wall, 1), "constants": constants})

    def require_ok(self, name, res):
        if not res.ok:
            raise Broken("model %s: %s\n%s" % (name, res.violation, res.out[-3000:]))

    def sample(self, s, limit=6):
        if len(self.samples) < limit:
            self.samples.append(s)

    def case(self, key, nontrivial=True):
        self.evaluations += 1
        if nontrivial:
            self.distinct.add(key if isinstance(key, (str, int, tuple)) else json.dumps(key, sort_keys=True))

    def violation(self, what, script_text=None, extra=None):
        n = len(self.violations) + 1
        path = os.path.join(REPLAY, "%s-%d.txt" % (self.prop, n))
        with open(path, "w") as f:
            f.write("# property %s: %s\n" % (self.prop, what))
            if extra:
                f.write("# " + json.dumps(extra)[:4000] + "\n")
            if script_text:
                f.write(script_text)
        self.violations.append((what, path))

    def known(self, fid, text):
        self.known_seen[fid] = text

    def finish(self):
        wall = time.time() - self.t0
        cov = {"states": self.states, "transitions": self.transitions,
               "traces_validated_against_impl": self.traces,
               "evaluations": self.evaluations, "distinct_nontrivial": len(self.distinct),
               "samples": self.samples or ["(none)"], "models": self.models,
               "exhaustive": self.exhaustive, "rule": self.extra.pop("rule", ""),
               "known_findings_observed": sorted(self.known_seen), "notes": self.notes[:20]}
        cov.update(self.extra)
        ev = {"property_id": self.prop, "tier": self.tier, "seed": seed(), "level": self.level,
              "coverage": cov, "assumptions": self.assumptions, "wall_s": round(wall, 1),
              "violations": len(self.violations)}
        os.makedirs(EVID, exist_ok=True)
        with open(os.path.join(EVID, self.prop + ".json"), "w") as f:
            json.dump(ev, f, indent=1)
        for fid, text in sorted(self.known_seen.items()):
            print("KNOWN-FINDING: property=%s %s" % (self.prop, text))
        for what, path in self.violations[:20]:
            print("VIOLATION property=%s replay=%s" % (self.prop, path))
            print("  " + what[:400])
        print("%s %s: %d states, %d traces validated, %d evaluations (%d distinct), %d violations, %.1fs" %
              (self.prop, self.tier, self.states, self.traces, self.evaluations, len(self.distinct), len(self.violations), wall))
        return 1 if self.violations else 0
