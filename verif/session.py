"""Reader sessions: every history of up to MaxOps public calls (streaming reads, validation calls, random-access chunk
requests, clear_error) that TLC generates from MC_Session, concretised on valid files and replayed on one context of the
real library; the recorded results are validated against the Session contract with the promises of ONE property judged
(Judge = read: C02, scan: C09, chunk: C14).  What is decided: the promise of each call holds whatever the same context
did before (state carried between public calls)."""
import os, json
from . import common, ref, corpus
from .common import Broken


def session_files(rnd, tier):
    out = []
    for name, comp, dic, flags, pad in (("n", 0, False, 0, 0), ("z", 2, True, 0, 0), ("zu", 2, False, 4, 0), ("np", 0, True, 0, 9)):
        chunks = [corpus.text(rnd, 30) if dic else b""] + [corpus.text(rnd, n) for n in (50, 20, 70)]
        buf, stored = ref.build_file(chunks, comp_type=comp, hash_type=1, chunk_hash_type=1 if flags else 3, flags=flags, pad=pad)
        out.append((name, buf, chunks, stored))
    # stored sizes on the 32 KiB block size, several blocks per chunk
    chunks = [b""] + corpus.bufedge_chunks(rnd, 0)
    buf, stored = ref.build_file(chunks, comp_type=0, hash_type=1, chunk_hash_type=3)
    out.append(("edge", buf, chunks, stored))
    return out


def lines_for(a, total, nchunks):
    if a == "rq": return ["readx 0 1"]
    if a == "rp": return ["readx 0 %d" % max(1, total // 3)]
    if a == "ra": return ["readx 0 32768"] * (total // 32768 + 3)
    if a == "vc": return ["validate_checksums 0"]
    if a == "fv": return ["find_valid 0"]
    if a == "vd": return ["validate_data 0"]
    if a == "clr": return ["clear_error 0"]
    k = {"0": 0, "1": 1, "L": nchunks - 1}[a[2:]]
    return ["%s 0 %d -1" % ("chunk_data" if a.startswith("cd") else "chunk_comp_data", k)]


def run_session(ck, prop, judge, tier, wd, rnd):
    cfg = "MC_Session.cfg" if tier != "thorough" else common.cfg_variant("MC_Session.cfg", wd, MaxOps=5)
    r = common.tlc("MC_Session", cfg, workers=4, timeout=900)
    ck.require_ok("MC_Session", r)
    hists = common.tlc_printed_json(r, "BEH")
    if len(hists) < 1000:
        raise Broken("MC_Session printed only %d histories" % len(hists))
    ck.add_tlc("MC_Session (history generator: reads, validations, chunk requests, clear_error in any order)", r, "up to %d calls over an alphabet of 11" % (3 if tier != "thorough" else 5))
    files = session_files(rnd, tier)
    scripts = {}; meta = []
    for fi, (fname, buf, chunks, stored) in enumerate(files):
        path = os.path.join(wd, "sess-%s.zck" % fname); open(path, "wb").write(buf)
        total = sum(len(c) for c in chunks[1:])
        hs = hists
        if fname == "edge":
            hs = [h for i, h in enumerate(hists) if i % (7 if tier != "thorough" else 23) == 3]
        elif tier == "quick" and fi > 0:
            hs = [h for i, h in enumerate(hists) if len(h) < 3 or i % 3 == fi % 3]
        elif tier == "thorough" and fi > 0:
            hs = [h for i, h in enumerate(hists) if len(h) < 5 or i % 4 == fi % 4]
        for hi, h in enumerate(hs):
            cid = "%s%s-%d" % (prop.lower(), fname, hi)
            sink = os.path.join(wd, cid + ".out")
            ls = ["case %s 30" % cid, "ctx 0", "open 0 %s r" % path, "sink 0 %s" % sink, "init_read 0 0"]
            for a in h:
                ls += lines_for(a, total, len(chunks))
            ls += ["end"]
            scripts[cid] = ("\n".join(ls) + "\n", "%s after %s" % (fname, ",".join(h)), path)
            meta.append((cid, fname, h, sink, chunks, stored, total))
    ids = list(scripts)
    nproc = 12
    evs = [e for part in common.run_driver_parallel(["".join(scripts[c][0] for c in ids[i::nproc]) for i in range(nproc)], "plain", timeout=2400) for e in part]
    by = common.by_case(evs)
    trace = []; owner = []
    for (cid, fname, h, sink, chunks, stored, total) in meta:
        D = b"".join(chunks[1:]); unit = fname.startswith("z")
        data = open(sink, "rb").read() if os.path.exists(sink) else b""
        off = 0; pos = 0
        for e in by.get(cid, []):
            op = e["op"]; t = None
            if op == "init_read":
                t = {"op": "sopen", "total": total, "unit": unit, "ret": e["ret"], "case": scripts[cid][1]}
            elif op == "read":
                rr = e["ret"]; eq = False
                if rr > 0:
                    eq = data[off:off + rr] == D[pos:pos + rr] and len(D[pos:pos + rr]) == rr
                    off += rr; pos += rr
                t = {"op": "sread", "n": min(e["n"], 2**31 - 1), "ret": rr, "eq": bool(eq), "es": e.get("err", 0)}
            elif op in ("validate_checksums", "find_valid", "validate_data"):
                t = {"op": "sscan", "call": op, "ret": e["ret"], "es": e.get("err", 0)}
            elif op in ("chunk_data", "chunk_comp_data"):
                exp = chunks[e["k"]] if op == "chunk_data" else stored[e["k"]]
                rr = e["ret"]; eq = False
                if rr > 0:
                    eq = data[off:off + rr] == exp; off += rr
                t = {"op": "schunk", "call": op, "k": e["k"], "want": len(exp), "ret": rr, "eq": bool(eq), "es": e.get("err", 0)}
            elif op == "clear_error":
                t = {"op": "sclear", "es": e.get("err", 0)}
            elif op in ("Crash", "Hang"):
                t = {"op": op, "sig": e.get("sig", 0)}
            if t is not None:
                trace.append(t); owner.append(cid)
        if not any(e["op"] == "done" for e in by.get(cid, [])) and not any(e["op"] in ("Crash", "Hang") for e in by.get(cid, [])):
            trace.append({"op": "Crash", "why": "case did not finish"}); owner.append(cid)
        trace.append({"op": "sclose"}); owner.append(cid)
        ck.case(("session", fname, tuple(h)))
    from .checks.c02 import validate_segments
    nv = len(ck.violations)
    validate_segments(ck, prop, trace, owner, wd, scripts_by=scripts, module="Trace_Session", cfg="Trace_Session_%s.cfg" % judge, start_ops=("sopen",))
    ck.extra["session_histories"] = len(meta)
    if len(ck.violations) == nv:
        # binding: a wrong result of the judged kind must be rejected
        neg = {"read": [{"op": "sopen", "total": 9, "unit": True, "ret": 1}, {"op": "sread", "n": 4, "ret": 4, "eq": False, "es": 0}],
               "scan": [{"op": "sopen", "total": 9, "unit": True, "ret": 1}, {"op": "sread", "n": 4, "ret": 4, "eq": True, "es": 0}, {"op": "sscan", "ret": -1, "es": 0}],
               "chunk": [{"op": "sopen", "total": 9, "unit": True, "ret": 1}, {"op": "sscan", "ret": 1, "es": 0}, {"op": "schunk", "want": 5, "ret": 5, "eq": False, "es": 0}]}[judge]
        p = os.path.join(wd, "sess-neg.ndjson"); common.write_ndjson(p, neg)
        ok, res = common.validate_trace("Trace_Session", "Trace_Session_%s.cfg" % judge, p)
        if ok:
            raise Broken("negative control: a wrong %s result was accepted by Trace_Session" % judge)
