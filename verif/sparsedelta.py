"""Local copy and ranged download at file offsets that do not fit 31 / 32 bits (C08, C05).

The new file B holds a chunk of 2^31+5 (thorough: also 2^32+7) zero bytes in front of three small chunks; the target is B's
header followed by a hole of B's length (so the big chunk is really there: a hole reads as zeros, and the scan finds it
valid after hashing it), the source A holds two of the small chunks behind the same big chunk at other offsets.  The
documented sequence (scan, reset, copy, one ranged round) is run on the real library; the facts of the Delta contract are
computed by reading the files at the extents (never whole), and TLC validates the trace (DScan, DCopy, DRound)."""
import os, hashlib
from . import common, ref, corpus

BLK = 1 << 22


def zeros_digest(n, kind):
    """chunk checksum type 3 (SHA-512/128) resp. the first 16 bytes of SHA-512 over n zero bytes"""
    h = hashlib.sha512(); z = bytes(BLK); left = n
    while left:
        k = min(left, BLK); h.update(z[:k]); left -= k
    return h.digest()[:16]


def pread(path, off, n):
    with open(path, "rb") as f:
        f.seek(off); return f.read(n)


def run(ck, prop, tier, wd, rnd, trace, owner, scripts_by, with_round=True):
    n0 = len(trace)
    for big in ((2**31 + 5,) if tier == "quick" else (2**31 + 5, 2**32 + 7)):
        cid = "sparse%d" % (big >> 31)
        name = "offsets beyond 2^%d: a chunk of %d zero bytes in front of the chunks that are %s" % (31 if big < 2**32 else 32, big, "fetched" if with_round else "copied")
        zd = zeros_digest(big, 3)
        s1, s2, s3, other = corpus.text(rnd, 300), corpus.rand(rnd, 700), corpus.text(rnd, 90), corpus.text(rnd, 1000)
        def ent(b): return {"clen": len(b), "ulen": len(b), "digest": ref.digest(3, b)}
        bigent = {"clen": big, "ulen": big, "digest": zd}
        entsB = [{"clen": 0, "ulen": 0, "digest": bytes(16)}, bigent, ent(s1), ent(s2), ent(s3)]
        entsA = [{"clen": 0, "ulen": 0, "digest": bytes(16)}, ent(other), bigent, ent(s1), ent(s3)]
        hB = ref.build_header(hash_type=1, chunk_hash_type=3, flags=0, comp_type=0, entries=entsB, data_digest=bytes(32))
        hA = ref.build_header(hash_type=1, chunk_hash_type=3, flags=0, comp_type=0, entries=entsA, data_digest=bytes(32))
        bpath = os.path.join(wd, cid + ".B"); apath = os.path.join(wd, cid + ".A"); tpath = os.path.join(wd, cid + ".T")
        with open(bpath, "wb") as f:
            f.write(hB); f.seek(len(hB) + big); f.write(s1 + s2 + s3)
        with open(apath, "wb") as f:
            f.write(hA + other); f.seek(len(hA) + len(other) + big); f.write(s1 + s3)
        total = len(hB) + big + len(s1 + s2 + s3)
        with open(tpath, "wb") as f:
            f.write(hB); f.truncate(total)
        offB = {2: len(hB) + big, 3: len(hB) + big + len(s1), 4: len(hB) + big + len(s1) + len(s2)}
        want = {2: s1, 3: s2, 4: s3}
        # (the facts are read from the files after the run: one step that writes per scenario - the copy, or the round)
        L = ["case %s 240" % cid, "ctx 0", "open 0 %s rw" % tpath, "init_read 0 0", "find_valid 0", "reset_failed 0"]
        if with_round:
            L += ["dl_init 0 0", "fetch 0 0 %s -1 977" % bpath]
        else:
            L += ["ctx 1", "open 1 %s r" % apath, "init_read 1 1", "copy_chunks 1 0", "reset_failed 0"]
        L += ["end"]
        scr = "\n".join(L) + "\n"
        asize = os.path.getsize(apath); ahead = pread(apath, 0, len(hA) + len(other)); atail = pread(apath, asize - len(s1 + s3), len(s1 + s3))
        ev = common.run_driver(scr, "plain", timeout=600)
        def facts():
            d = [True, True] + [pread(tpath, offB[k], len(want[k])) == want[k] for k in (2, 3, 4)]
            z = [False, False] + [pread(tpath, offB[k], len(want[k])) == bytes(len(want[k])) for k in (2, 3, 4)]
            return d, z
        def outside(touched):
            ok = os.path.getsize(tpath) == total and pread(tpath, 0, len(hB)) == hB
            for k in (2, 3, 4):
                if k not in touched:
                    ok = ok and pread(tpath, offB[k], len(want[k])) == bytes(len(want[k]))
            for off in (len(hB), len(hB) + big // 2, len(hB) + big - 65536):      # windows of the big chunk: still a hole of zeros
                ok = ok and pread(tpath, off, 65536) == bytes(65536)
            return bool(ok)
        trace.append({"op": "begin", "name": name, "scenario": name}); owner.append(cid)
        trace.append({"op": "start", "n": 5, "disk": [True, True, False, False, False]}); owner.append(cid)
        sized = [False, True, True, True, True]
        state = "scan"
        for e in ev:
            if e["op"] == "find_valid":
                trace.append({"op": "scan", "vec": e["valid"], "disk": [True, True, False, False, False], "sized": sized, "ret": e["ret"]}); owner.append(cid)
            elif e["op"] == "reset_failed":
                trace.append({"op": "resetfailed", "vec": e["valid"]}); owner.append(cid)
            elif e["op"] == "copy_chunks":
                d, z = facts()
                same = os.path.getsize(apath) == asize and pread(apath, 0, len(ahead)) == ahead and pread(apath, asize - len(atail), len(atail)) == atail
                trace.append({"op": "copy", "vec": e["valid"], "disk": d, "zero": z, "matchable": [True, True, True, False, True], "usable": [True, True, True, False, True],
                              "srcSame": bool(same), "outside": outside({2, 4}), "src": 0}); owner.append(cid)
            elif e["op"] == "fetch" and e.get("nranges", 0):
                d, z = facts()
                X = [x["src"] for x in e["ridx"]]
                trace.append({"op": "round", "X": [x + 1 for x in X], "vec": e["valid"], "disk": d, "zero": z, "payloadOk": [True] * len(X), "wellFormed": True,
                              "complete": bool(e["firstfail"] == -1 and e["delivered"] == e["bodylen"]), "anyErr": e["firstfail"] >= 0, "outside": outside({2, 3, 4}),
                              "limit": e["limit"], "nranges": e["nranges"]}); owner.append(cid)
            elif e["op"] in ("Crash", "Hang"):
                trace.append({"op": e["op"], "sig": e.get("sig", 0)}); owner.append(cid)
        scripts_by[cid] = (scr, name, None)
        ck.case(name)
        for p in (bpath, apath, tpath):
            os.remove(p)
    ck.extra["scenarios_at_offsets_beyond_31_bits"] = len([t for t in trace[n0:] if t["op"] == "begin"])
    return len(trace) - n0
