"""Allocation failures as an environment fault.  The harness compiles zchunk's own objects with calloc / malloc / realloc
renamed (harness/Makefile), so the shim can refuse the k-th allocation made by zchunk's code.  For a scenario the
fault-free run is made first (it counts the allocations), then every allocation number in turn is refused - once
(a transient failure) and from there on (memory exhausted) - and the execution is judged by the same contract as the
fault-free one: a successful close of a reader means the file's exact content was delivered (Reader!RClose), a
successful close of a writer means a valid file with exactly the accepted content (Writer!WClose).  A call that fails,
or a process that ends (zchunk calls exit() from uthash_fatal on a refused table allocation), promises nothing:
event `abort` (Reader!RAbort / Writer!WAbort)."""
import os
from . import common, ref, corpus, readtrace, writegen


def _arm(script, k, ln):
    return script.replace("ctx 0\n", "alloc_arm %d %d\nctx 0\n" % (k, ln), 1)


def _count(script, variant="plain"):
    s = _arm(script, 0, 1).replace("end\n", "alloc_stats\nend\n")
    ev = common.run_driver(s, variant)
    st = [e for e in ev if e["op"] == "alloc_stats"]
    return (st[0]["count"] if st else 0), ev


def _points(n, tier, rnd, cap):
    ks = list(range(1, n + 1))
    if tier == "quick" and n > cap:
        keep = set(ks[:cap // 2]) | set(rnd.sample(ks[cap // 2:], cap - cap // 2))
        ks = sorted(keep)
    return ks


def reader_files(rnd):
    out = []
    for i, (comp, dic, flags, sizes) in enumerate([(0, False, 0, [5000, 3000, 4000]), (0, False, 4, [5000, 3000, 4000]), (2, False, 0, [900, 700, 800]),
                                                   (2, True, 0, [300, 200, 500]), (0, True, 4, [40000, 100]), (2, False, 4, [70000, 10])]):
        ch = [corpus.text(rnd, 30) if dic else b""] + [corpus.text(rnd, n) for n in sizes]
        buf = ref.build_file(ch, comp_type=comp, hash_type=1, chunk_hash_type=1 if flags else 3, level=3, flags=flags)[0]
        out.append(("af%d-c%d-d%d-f%d" % (i, comp, int(dic), flags), buf))
    return out


def reader_family(ck, tier, wd, rnd):
    """returns (trace, owner, scripts_by) of Reader-contract executions under refused allocations"""
    trace = []; owner = []; scripts_by = {}
    jobs = []
    for (name, buf) in reader_files(rnd):
        p = os.path.join(wd, name + ".zck"); open(p, "wb").write(buf)
        rf = ref.RefFile(buf)
        if not rf.valid_strict:
            raise common.Broken("allocation family: the reference codec rejects its own file " + name)
        for st in (["blk"] if tier == "quick" else ["blk", "mix", "big"]):
            sizes = readtrace.read_sizes(rnd, len(rf.content), st) if st != "blk" else [4096] * (len(rf.content) // 4096 + 3)
            base = readtrace.read_script("%s-%s-base" % (name, st), p, os.path.join(wd, "%s-%s-base.out" % (name, st)), sizes)
            n, ev = _count(base)
            if not any(e["op"] == "close" and e["ret"] == 1 for e in ev):
                ck.notes.append("allocation family: the fault-free read of %s does not succeed on this tree; family skipped for it" % name); continue
            for k in _points(n, tier, rnd, 60):
                for ln in (1, 100000):
                    cid = "%s-%s-a%d-%d" % (name, st, k, ln)
                    sink = os.path.join(wd, cid + ".out")
                    s = _arm(readtrace.read_script(cid, p, sink, sizes), k, ln)
                    jobs.append((cid, s, sink, rf, p, "reader %s (%s reads), allocation %d of %d refused%s" % (name, st, k, n, "" if ln == 1 else " and every later one")))
    evs = common.by_case([e for part in common.run_driver_parallel(["".join(j[1] for j in jobs[i::12]) for i in range(12)], "plain", timeout=1800) for e in part])
    aborts = {}
    for (cid, s, sink, rf, p, name) in jobs:
        t = readtrace.enrich(evs.get(cid, []), sink, rf)
        if not t or t[0]["op"] != "open":
            t = [{"op": "open", "f": readtrace.facts(rf), "ret": 0}] + t
        for x in t:
            if x["op"] in ("Crash", "Hang"):
                how = "hang" if x["op"] == "Hang" else ("signal %s" % x.get("sig") if x.get("sig") else "exit")
                aborts[how] = aborts.get(how, 0) + 1
                if x["op"] == "Crash":
                    x.clear(); x["op"] = "abort"
        for x in t:
            trace.append(x); owner.append(cid)
        scripts_by[cid] = (s, name, p)
        ck.case(name)
    ck.extra["alloc_reader_runs"] = len(jobs); ck.extra["alloc_reader_process_ended"] = aborts
    return trace, owner, scripts_by


def writer_family(ck, tier, wd, rnd):
    trace = []; owner = []; scripts_by = {}
    jobs = []
    scen = [({"comp": 2, "manual": True, "full": 1, "chunk": 3, "level": 3}, 5000, [700, 1300, 3000]),
            ({"comp": 0, "manual": False, "full": 1, "chunk": 1, "max": 20000}, 90000, [32768, 32768, 24464]),
            ({"comp": 2, "manual": False, "full": 0, "chunk": 3, "level": 1, "dict": True}, 70000, [70000]),
            ({"comp": 0, "manual": True, "full": 1, "chunk": 0, "uncomp": False}, 300, [100, 100, 100])]
    for i, (cfg, n, seg) in enumerate(scen):
        D = corpus.text(rnd, n) if i != 1 else corpus.rand(rnd, n)
        src = os.path.join(wd, "aw%d.in" % i); open(src, "wb").write(D)
        def script(cid, cfg=cfg, seg=seg, src=src):
            out = os.path.join(wd, cid + ".zck")
            L = ["case %s 60" % cid, "ctx 0", "open 0 %s rwt" % out, "init_write 0 0"] + writegen.cfg_lines(cfg, 0, wd, cid)
            pos = 0
            for k in seg:
                L.append("write 0 file:%s:%d:%d" % (src, pos, k)); pos += k
                if cfg.get("manual"): L.append("end_chunk 0")
            L += ["close 0", "alloc_arm 0", "free 0", "end"]
            return "\n".join(L) + "\n", out
        s0, out0 = script("aw%d-base" % i)
        n_alloc, ev = _count(s0.replace("close 0\nalloc_arm 0\n", "close 0\n"))
        if not any(e["op"] == "close" and e["ret"] == 1 for e in ev):
            ck.notes.append("allocation family: the fault-free writer run %d does not succeed on this tree; skipped" % i); continue
        for k in _points(n_alloc, tier, rnd, 70):
            for ln in (1, 100000):
                cid = "aw%d-a%d-%d" % (i, k, ln)
                s, out = script(cid)
                jobs.append((cid, _arm(s, k, ln), out, D, src, "writer %d, allocation %d of %d refused%s" % (i, k, n_alloc, "" if ln == 1 else " and every later one")))
    evs = common.by_case([e for part in common.run_driver_parallel(["".join(j[1] for j in jobs[i::12]) for i in range(12)], "plain", timeout=1800) for e in part])
    aborts = {}
    for (cid, s, out, D, src, name) in jobs:
        trace.append({"op": "wstart", "case": name}); owner.append(cid)
        accepted = 0
        for e in evs.get(cid, []):
            if e["op"] == "write":
                trace.append({"op": "write", "n": e["n"], "ret": e["ret"]}); owner.append(cid)
                if e["ret"] > 0: accepted += e["ret"]
            elif e["op"] == "end_chunk":
                trace.append({"op": "endchunk", "ret": e["ret"]}); owner.append(cid)
            elif e["op"] == "close":
                buf = open(out, "rb").read() if os.path.exists(out) else b""
                rf = ref.RefFile(buf)
                f_ = {"valid": bool(rf.valid_strict), "contentEq": rf.content is not None and rf.content == D and accepted == len(D),
                      "total": len(rf.content) if rf.content is not None else -1, "cutsOk": True}
                trace.append({"op": "wclose", "ret": e["ret"], "f": f_}); owner.append(cid)
            elif e["op"] in ("Crash", "Hang"):
                how = "hang" if e["op"] == "Hang" else ("signal %s" % e.get("sig") if e.get("sig") else "exit")
                aborts[how] = aborts.get(how, 0) + 1
                trace.append({"op": "abort"} if e["op"] == "Crash" else {"op": "Hang"}); owner.append(cid)
        scripts_by[cid] = (s, name, [src])
        ck.case(name)
    ck.extra["alloc_writer_runs"] = len(jobs); ck.extra["alloc_writer_process_ended"] = aborts
    return trace, owner, scripts_by


def delta_family(ck, tier, wd, rnd):
    """the documented update (scan, copy from a local source, ranged rounds) with every allocation of zchunk's own code
    refused in turn; judged by the safety half of the Delta contract, as under I/O faults: a chunk marked valid has B's bytes
    on disk, nothing outside the extents being filled changes, the source is untouched (scanf / copyf / round with
    wellFormed = FALSE); completion is not demanded"""
    from . import delta
    trace = []; owner = []; scripts_by = {}
    cA = [b""] + [corpus.text(rnd, n) for n in (300, 33000, 200, 4010)]
    cB = [b""] + [cA[1], corpus.rand(rnd, 3500), cA[4], corpus.text(rnd, 150), cA[2], corpus.rand(rnd, 700)]
    jobs = []
    for comp in (0, 2):
        A = ref.build_file(cA, comp_type=comp, hash_type=1, chunk_hash_type=3, level=3)[0]
        B = ref.build_file(cB, comp_type=comp, hash_type=1, chunk_hash_type=3, level=3)[0]
        for limit in (2, -1):
            base = delta.Scenario("ad%d%s-base" % (comp, "L" if limit > 0 else "U"), wd, B, b"", sources=[A], limit=limit, frag=977)
            base.write_files()
            L = base.script().splitlines()
            i0 = [i for i, l in enumerate(L) if l.startswith("ctx ")][0]
            L.insert(i0, "alloc_arm 0"); L.insert(-1, "alloc_stats")
            ev = common.run_driver("\n".join(L) + "\n", "plain")
            st = [e for e in ev if e["op"] == "alloc_stats"]
            n = st[0]["count"] if st else 0
            if not n:
                ck.notes.append("allocation family (update): no allocation counted; skipped"); continue
            for k in _points(n, tier, rnd, 50):
                for ln in (1, 100000):
                    cid = "ad%d%s-a%d-%d" % (comp, "L" if limit > 0 else "U", k, ln)
                    sc = delta.Scenario(cid, wd, B, b"", sources=[A], limit=limit, frag=977,
                                        name="update (comp %d, limit %d), allocation %d of %d refused%s" % (comp, limit, k, n, "" if ln == 1 else " and every later one"))
                    sc.write_files()
                    lines = sc.script().splitlines()
                    j0 = [i for i, l in enumerate(lines) if l.startswith("ctx ")][0]
                    lines.insert(j0, "alloc_arm %d %d" % (k, ln))
                    jobs.append((cid, sc, "\n".join(lines) + "\n"))
    evs = common.by_case([e for part in common.run_driver_parallel(["".join(j[2] for j in jobs[i::12]) for i in range(12)], "plain", timeout=1800) for e in part])
    ended = 0
    for (cid, sc, s) in jobs:
        t = delta.enrich(sc, evs.get(cid, []))
        out = []
        for x in t:
            if x["op"] == "round":
                x["wellFormed"] = False; x.pop("firederrTotal", None)
            if x["op"] == "copy":
                x["op"] = "copyf"
            if x["op"] == "scan":
                x["op"] = "scanf"
            if x["op"] == "finish":
                continue
            if x["op"] == "Crash":
                ended += 1
                break                       # the process ended (or the header of B was refused): nothing more is promised
            out.append(x)
        for x in out:
            trace.append(x); owner.append(cid)
        scripts_by[cid] = (s, sc.name, delta.replay_files(sc))
        ck.case(sc.name)
    ck.extra["alloc_update_runs"] = len(jobs); ck.extra["alloc_update_process_ended"] = ended
    return trace, owner, scripts_by


def asan_reader_sweep(ck, tier, wd, rnd):
    """C03: reads of valid files (chunks stored in several 32 KiB pieces, a dictionary, uncompressed-source checksums) under
    ASan/UBSan while every allocation made by zchunk's own code is refused in turn.  A process that stops on a NULL pointer
    is zchunk's present out-of-memory behaviour and is recorded; corruption of the heap (double free, use after free, an
    access outside a block) is a memory-safety violation whatever caused the failing call.  Returns [(what, script)]"""
    import re
    from concurrent.futures import ThreadPoolExecutor
    files = []
    for i, (comp, dic, flags, sizes, kind) in enumerate([(0, False, 0, [70000, 3000], "rand"), (2, True, 0, [70000, 500], "rand"), (2, False, 4, [900, 700, 800], "text")]):
        ch = [corpus.text(rnd, 30) if dic else b""] + [(corpus.rand if kind == "rand" else corpus.text)(rnd, n) for n in sizes]
        buf = ref.build_file(ch, comp_type=comp, hash_type=1, chunk_hash_type=1 if flags else 3, level=3, flags=flags)[0]
        p = os.path.join(wd, "asw%d.zck" % i); open(p, "wb").write(buf); files.append((i, p, len(b"".join(ch[1:]))))
    jobs = []
    for (i, p, total) in files:
        sizes = [4096] * (total // 4096 + 3)
        for tail in (["close 0", "free 0"], ["chunk_data 0 1 -1", "validate_checksums 0", "free 0"]):
            body = readtrace.read_script("asw%d-%d" % (i, len(tail)), p, os.path.join(wd, "asw%d.out" % i), sizes, post=tuple(tail))
            n, _ev = _count(body, "asan")
            if any(e["op"] in ("Crash", "Hang") for e in _ev):
                ck.notes.append("allocation sweep (reader file %d) skipped: the run does not finish without any refused allocation on this tree" % i); continue
            for k in _points(n, tier, rnd, 40):
                jobs.append((i, k, n, _arm(body, k, 1)))
    def work(j):
        i, k, n, s = j
        errp = os.path.join(wd, "asw-%d-%d-%d.err" % (i, k, abs(hash(s)) % 100000))
        ev = common.run_driver(s, "asan", None, 120, errp)
        rep = open(errp, "rb").read().decode("latin1") if os.path.exists(errp) else ""
        return ev, rep
    with ThreadPoolExecutor(max_workers=common.NCPU) as ex:
        res = list(ex.map(work, jobs))
    out = []; ended = {}; seen = set()
    for (i, k, n, s), (ev, rep) in zip(jobs, res):
        ck.case(("alloc-asan", i, k, len(s)))
        m = re.search(r"ERROR: AddressSanitizer: ([a-z\-]+(?: on address which was not malloc)?)", rep)
        kind = m.group(1) if m else None
        if any(e["op"] == "Hang" for e in ev):
            kind = "hang"
        if kind in ("double-free", "heap-use-after-free", "heap-buffer-overflow", "stack-buffer-overflow", "global-buffer-overflow", "attempting", "bad-free", "hang") or (kind and kind.startswith("attempting")):
            summ = [x for x in rep.splitlines() if x.startswith("SUMMARY")]
            key = (kind, summ[0][:120] if summ else "")
            if key not in seen:
                seen.add(key)
                out.append(("reader file %d with allocation %d of %d refused: %s %s" % (i, k, n, kind, " | ".join(summ)[:300]), s))
        elif kind or any(e["op"] == "Crash" for e in ev):
            ended[kind or "exit"] = ended.get(kind or "exit", 0) + 1
    ck.extra["alloc_asan_runs"] = len(jobs); ck.extra["alloc_asan_process_ended"] = ended
    return out


def asan_update_sweep(ck, tier, wd, rnd):
    """C17 / C10: the documented update (scan, copy from a local source, missing ranges, their rendering, multipart rounds fed
    in fragments) under ASan/UBSan while every allocation made by zchunk's own code is refused in turn.  As in
    asan_reader_sweep: heap corruption is a memory-safety violation, a stop on NULL is recorded.  Returns [(what, script)]"""
    import re
    from concurrent.futures import ThreadPoolExecutor
    from . import delta
    cA = [b""] + [corpus.text(rnd, n) for n in (300, 3300, 200, 4010)]
    cB = [b""] + [cA[1], corpus.rand(rnd, 3500), cA[4], corpus.text(rnd, 150), cA[2], corpus.rand(rnd, 700), corpus.text(rnd, 90)]
    jobs = []
    for comp, limit, frag in ((0, 2, 977), (2, -1, 61)):
        A = ref.build_file(cA, comp_type=comp, hash_type=1, chunk_hash_type=3, level=3)[0]
        B = ref.build_file(cB, comp_type=comp, hash_type=1, chunk_hash_type=3, level=3)[0]
        base = delta.Scenario("au%d-base" % comp, wd, B, b"", sources=[A], limit=limit, frag=frag); base.write_files()
        L = base.script().splitlines()
        i0 = [i for i, l in enumerate(L) if l.startswith("ctx ")][0]
        body = "\n".join(L) + "\n"
        L2 = list(L); L2.insert(i0, "alloc_arm 0"); L2.insert(-1, "alloc_stats")
        ev0 = common.run_driver("\n".join(L2) + "\n", "asan")
        st = [e for e in ev0 if e["op"] == "alloc_stats"]
        n = st[0]["count"] if st and not any(e["op"] in ("Crash", "Hang") for e in ev0) else 0
        for k in _points(n, tier, rnd, 60):
            sc = delta.Scenario("au%d-a%d" % (comp, k), wd, B, b"", sources=[A], limit=limit, frag=frag); sc.write_files()
            lines = sc.script().splitlines(); lines.insert(i0, "alloc_arm %d 1" % k)
            jobs.append((comp, k, n, "\n".join(lines) + "\n", sc))
    def work(j):
        comp, k, n, s, _sc = j
        errp = os.path.join(wd, "au-%d-%d.err" % (comp, k))
        ev = common.run_driver(s, "asan", None, 180, errp)
        return ev, (open(errp, "rb").read().decode("latin1") if os.path.exists(errp) else "")
    with ThreadPoolExecutor(max_workers=common.NCPU) as ex:
        res = list(ex.map(work, jobs))
    out = []; ended = {}; seen = set()
    for (comp, k, n, s, sc), (ev, rep) in zip(jobs, res):
        ck.case(("alloc-asan-update", comp, k))
        m = re.search(r"ERROR: AddressSanitizer: ([a-z\-]+)", rep)
        kind = m.group(1) if m else None
        if any(e["op"] == "Hang" for e in ev):
            kind = "hang"
        if kind in ("double-free", "heap-use-after-free", "heap-buffer-overflow", "stack-buffer-overflow", "global-buffer-overflow", "attempting", "bad-free", "hang"):
            summ = [x for x in rep.splitlines() if x.startswith("SUMMARY")]
            key = (kind, summ[0][:120] if summ else "")
            if key not in seen:
                seen.add(key)
                frames = [x.strip()[:110] for x in rep.splitlines() if "/src/lib/" in x or "/src/zck" in x][:8]
                # a replay that stands alone: B, the source and the target as it was before the run, next to the script
                for item in delta.replay_files(sc):
                    src, data = (item if isinstance(item, tuple) else (item, None))
                    keep = os.path.join(common.REPLAY, "%s-%s" % (ck.prop, os.path.basename(src)))
                    open(keep, "wb").write(data if data is not None else open(src, "rb").read())
                    s = s.replace(src, keep)
                out.append(("update (compression %d) with allocation %d of %d refused: %s %s ; frames: %s" % (comp, k, n, kind, " | ".join(summ)[:300], " < ".join(frames)), s))
        elif kind or any(e["op"] == "Crash" for e in ev):
            ended[kind or "exit"] = ended.get(kind or "exit", 0) + 1
    ck.extra["alloc_asan_update_runs"] = len(jobs); ck.extra["alloc_asan_update_process_ended"] = ended
    return out


def asan_writer_sweep(ck, tier, wd, rnd):
    """C01: writer runs (zstd with and without a dictionary, uncompressed, manual and automatic chunking, the uncompressed-source
    flag) under ASan/UBSan while every allocation made by zchunk's own code is refused in turn; heap corruption is a
    memory-safety violation, a stop on NULL is recorded.  Returns [(what, script)]"""
    import re
    from concurrent.futures import ThreadPoolExecutor
    scen = [({"comp": 2, "manual": True, "full": 1, "chunk": 3, "level": 3}, 5000, [700, 1300, 3000]),
            ({"comp": 0, "manual": False, "full": 1, "chunk": 1, "max": 20000}, 90000, [32768, 32768, 24464]),
            ({"comp": 2, "manual": False, "full": 0, "chunk": 3, "level": 1, "dict": True}, 70000, [70000]),
            ({"comp": 2, "manual": True, "full": 1, "chunk": 1, "uncomp": True, "level": 3}, 3000, [1000, 1000, 1000])]
    jobs = []
    for i, (cfg, n, seg) in enumerate(scen):
        D = corpus.text(rnd, n) if i != 1 else rnd.randbytes(n)
        src = os.path.join(wd, "asww%d.in" % i); open(src, "wb").write(D)
        def script(cid, cfg=cfg, seg=seg, src=src):
            out = os.path.join(wd, cid + ".zck")
            L = ["case %s 60" % cid, "ctx 0", "open 0 %s rwt" % out, "init_write 0 0"] + writegen.cfg_lines(cfg, 0, wd, cid)
            pos = 0
            for k in seg:
                L.append("write 0 file:%s:%d:%d" % (src, pos, k)); pos += k
                if cfg.get("manual"): L.append("end_chunk 0")
            L += ["close 0", "free 0", "end"]
            return "\n".join(L) + "\n"
        n_alloc, _ev = _count(script("asww%d-base" % i), "asan")
        if any(e["op"] in ("Crash", "Hang") for e in _ev):
            ck.notes.append("allocation sweep (writer %d) skipped: the run does not finish without any refused allocation on this tree" % i); continue
        for k in _points(n_alloc, tier, rnd, 50):
            jobs.append((i, k, n_alloc, script("asww%d-a%d" % (i, k)).replace("ctx 0\n", "alloc_arm %d 1\nctx 0\n" % k, 1)))
    def work(j):
        i, k, n, s = j
        errp = os.path.join(wd, "asww-%d-%d.err" % (i, k))
        ev = common.run_driver(s, "asan", None, 120, errp)
        return ev, (open(errp, "rb").read().decode("latin1") if os.path.exists(errp) else "")
    with ThreadPoolExecutor(max_workers=common.NCPU) as ex:
        res = list(ex.map(work, jobs))
    out = []; ended = {}; seen = set()
    for (i, k, n, s), (ev, rep) in zip(jobs, res):
        ck.case(("alloc-asan-writer", i, k))
        m = re.search(r"ERROR: AddressSanitizer: ([a-z\-]+)", rep)
        kind = m.group(1) if m else None
        if any(e["op"] == "Hang" for e in ev):
            kind = "hang"
        if kind in ("double-free", "heap-use-after-free", "heap-buffer-overflow", "stack-buffer-overflow", "global-buffer-overflow", "attempting", "bad-free", "hang"):
            summ = [x for x in rep.splitlines() if x.startswith("SUMMARY")]
            frames = [x.strip()[:110] for x in rep.splitlines() if "/src/lib/" in x][:8]
            key = (kind, summ[0][:120] if summ else "")
            if key not in seen:
                seen.add(key)
                out.append(("writer run %d with allocation %d of %d refused: %s %s ; frames: %s" % (i, k, n, kind, " | ".join(summ)[:300], " < ".join(frames)), s))
        elif kind or any(e["op"] == "Crash" for e in ev):
            ended[kind or "exit"] = ended.get(kind or "exit", 0) + 1
    ck.extra["alloc_asan_writer_runs"] = len(jobs); ck.extra["alloc_asan_writer_process_ended"] = ended
    return out


def asan_tool_sweep(ck, tier, wd, rnd):
    """C03: the command-line tools (ASan/UBSan builds, statically linked with the shim) on valid files while every allocation made
    by zchunk's own code is refused in turn (ZV_ALLOCFAIL); heap corruption is a violation, a stop on NULL or on an assertion
    is recorded.  Returns [(what, replay text)]"""
    import re, subprocess
    from concurrent.futures import ThreadPoolExecutor
    bd = os.path.join(common.BUILD, "asan")
    D = corpus.text(rnd, 90000); dictb = corpus.text(rnd, 2000)
    d0 = os.path.join(wd, "astool"); os.makedirs(d0, exist_ok=True)
    open(os.path.join(d0, "input.bin"), "wb").write(D); open(os.path.join(d0, "dict.bin"), "wb").write(dictb)
    env0 = dict(os.environ); env0.update(common.ASAN_ENV)
    subprocess.run([os.path.join(bd, "zck"), "-D", "dict.bin", "-o", "withdict.zck", "input.bin"], cwd=d0, env=env0, stdout=subprocess.DEVNULL, stderr=subprocess.DEVNULL, timeout=60)
    subprocess.run([os.path.join(bd, "zck"), "-u", "-o", "flag4.zck", "input.bin"], cwd=d0, env=env0, stdout=subprocess.DEVNULL, stderr=subprocess.DEVNULL, timeout=60)
    if not os.path.exists(os.path.join(d0, "withdict.zck")):
        ck.notes.append("tool allocation sweep skipped: zck does not produce its output on this tree"); return []
    RUNS = [("zck -D", ["zck", "-D", "dict.bin", "-o", "out.zck", "input.bin"]), ("zck -u -s", ["zck", "-u", "-s", "the", "-o", "out2.zck", "input.bin"]),
            ("unzck", ["unzck", "-c", "withdict.zck"]), ("unzck flag4", ["unzck", "-c", "flag4.zck"]), ("unzck --dict", ["unzck", "-c", "--dict", "withdict.zck"]),
            ("unzck --header", ["unzck", "-c", "--header", "withdict.zck"]), ("zck_read_header -c -f", ["zck_read_header", "-c", "-f", "flag4.zck"]),
            ("zck_delta_size", ["zck_delta_size", "withdict.zck", "flag4.zck"])]
    jobs = []
    for ri, (name, argv) in enumerate(RUNS):
        tr = os.path.join(d0, "cnt%d" % ri)
        e = dict(env0); e["ZV_ALLOCTRACE"] = tr
        subprocess.run([os.path.join(bd, argv[0])] + argv[1:], cwd=d0, env=e, stdout=subprocess.DEVNULL, stderr=subprocess.DEVNULL, timeout=120)
        try:
            n = int(open(tr).read().split()[0])
        except (OSError, ValueError, IndexError):
            n = 0
        for k in _points(n, tier, rnd, 30):
            jobs.append((ri, k, n))
    def work(j):
        ri, k, n = j
        name, argv = RUNS[ri]
        e = dict(env0); e["ZV_ALLOCFAIL"] = "%d:1" % k
        try:
            p = subprocess.run([os.path.join(bd, argv[0])] + argv[1:], cwd=d0, env=e, stdout=subprocess.DEVNULL, stderr=subprocess.PIPE, timeout=120)
            return p.returncode, p.stderr.decode("latin1")
        except subprocess.TimeoutExpired:
            return "Hang", ""
    with ThreadPoolExecutor(max_workers=max(2, common.NCPU // 2)) as ex:
        res = list(ex.map(work, jobs))
    out = []; ended = {}; seen = set()
    for (ri, k, n), (rc, rep) in zip(jobs, res):
        name, argv = RUNS[ri]
        ck.case(("alloc-asan-tool", name, k))
        m = re.search(r"ERROR: AddressSanitizer: ([a-z\-]+)", rep)
        kind = "hang" if rc == "Hang" else (m.group(1) if m else None)
        if kind in ("double-free", "heap-use-after-free", "heap-buffer-overflow", "stack-buffer-overflow", "global-buffer-overflow", "attempting", "bad-free", "hang"):
            summ = [x for x in rep.splitlines() if x.startswith("SUMMARY")]
            frames = [x.strip()[:110] for x in rep.splitlines() if "/src/" in x][:8]
            key = (kind, summ[0][:120] if summ else name)
            if key not in seen:
                seen.add(key)
                out.append(("`%s` with allocation %d of %d refused: %s %s ; frames: %s" % (name, k, n, kind, " | ".join(summ)[:300], " < ".join(frames)),
                            "# in a directory with input.bin (90000 bytes of text) and dict.bin, withdict.zck = zck -D dict.bin, flag4.zck = zck -u:\n# ZV_ALLOCFAIL=%d:1 %s\n" % (k, " ".join(argv))))
        elif kind or (isinstance(rc, int) and (rc < 0 or rc in (134, 139))):
            ended[kind or "signal"] = ended.get(kind or "signal", 0) + 1
    ck.extra["alloc_asan_tool_runs"] = len(jobs); ck.extra["alloc_asan_tool_process_ended"] = ended
    return out
