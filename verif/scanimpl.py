"""Conformance of the real validity scan with the implementation-shaped model ScanImpl (C09, C11).

TLC first checks ScanImpl itself (ExactClassification, DataVerdict, Restored, termination; the documented
counterexamples of the variants).  Then members of the model's own family - index layout in cells, contents
pattern, what the descriptor shows (cut anywhere, one cell too long, damaged cells), flags, an earlier read on
the context, the call - are built as real files (one cell = 16 KiB, a block of the model = the library's 32 KiB
buffer), the real call is made, and Trace_Scan lets TLC run the model from exactly those states and compare the
verdict, the validity vector and the descriptor offset."""
import os, json, itertools, random, shutil
from . import common, ref, corpus
from .common import Broken

CELL = 16384
NC = 3
FLAGSETS = [(False, False, True), (False, False, False), (True, False, True), (False, True, True), (False, True, False)]   # uncomp, headerOnly, fullOk


def family(maxbad):
    for lens in itertools.product(range(4), repeat=NC):
        total = sum(lens)
        for pattern in ("same", "distinct"):
            for fl in FLAGSETS:
                for n in range(total + 2):
                    bads = [()] + [(p,) for p in range(n)]
                    if maxbad >= 2:
                        bads += list(itertools.combinations(range(n), 2))
                    for bad in bads:
                        for call in ("find_valid", "validate_checksums", "validate_data"):
                            for prefed in ((0,) if fl[1] else (0, 1)):     # no streaming read on a detached header
                                yield (lens, pattern, fl, n, bad, call, prefed)


def model_checks(ck, tier):
    """TLC on the model itself; thorough: three chunks of up to three cells, two damaged cells"""
    wd = common.workdir("scanimpl")
    if tier == "thorough":
        cfg = common.cfg_variant("MC_ScanImpl.cfg", wd, MaxBad=2)
        r = common.tlc("ScanImpl", cfg, timeout=3000, heap="12g")
        consts = "NC=3 MaxLen=3 B=2 MaxBad=2"
    else:
        cfg = common.cfg_variant("MC_ScanImpl.cfg", wd, MaxLen=2)
        r = common.tlc("ScanImpl", cfg, timeout=900)
        consts = "NC=3 MaxLen=2 B=2 MaxBad=1"
    ck.require_ok("ScanImpl", r); ck.add_tlc("ScanImpl (validate_checksums / zck_validate_data_checksum; fixed)", r, consts)
    from concurrent.futures import ThreadPoolExecutor
    vs = ("stale", "noreinit", "skipfirst")
    with ThreadPoolExecutor(max_workers=3) as ex:
        rvs = list(ex.map(lambda v: common.tlc("ScanImpl", common.cfg_variant("MC_ScanImpl_%s.cfg" % v, wd, MaxLen=2), workers=2, timeout=600), vs))
    for v, rv in zip(vs, rvs):
        if rv.ok or "violated" not in (rv.violation or ""):
            raise Broken("ScanImpl variant %s: the documented counterexample was not found (%s)" % (v, rv.violation))
        ck.models.append({"model": "ScanImpl variant %s" % v, "counterexample": rv.violation})
    shutil.rmtree(wd, ignore_errors=True)


def build_case(rnd, cache, lens, pattern, fl, n, bad):
    """file bytes for one member of the family, and the offset of its data"""
    uncomp, header_only, full_ok = fl
    key = (lens, pattern, fl)
    if key not in cache:
        total = sum(lens)
        if pattern == "same":
            R = rnd.randbytes(CELL); cells = [R] * (total + 1)
        else:
            cells = [rnd.randbytes(CELL) for _ in range(total + 1)]
        chunks = []; p = 0
        for L in lens:
            chunks.append(b"".join(cells[p:p + L])); p += L
        buf, _ = ref.build_file(chunks, comp_type=0, hash_type=1, chunk_hash_type=1 if uncomp else 3, flags=4 if uncomp else 0)
        h = ref.parse_header(buf)
        if not full_ok:
            dd = bytearray(h.data_digest); dd[-1] ^= 0x01
            buf = ref.rebuild_from_parse(h, buf, data_digest=bytes(dd)); h = ref.parse_header(buf)
        hdr = bytes(buf[:h.hdr_total])
        if header_only:
            hdr = b"\0ZHR1" + hdr[5:]
        cache[key] = (hdr, cells)
    hdr, cells = cache[key]
    body = bytearray()
    for p in range(n):
        cell = bytearray(cells[p])
        if p in bad:
            cell[(p * 977 + 13) % CELL] ^= 0x40
        body += cell
    return hdr + bytes(body), len(hdr)


def run(ck, prop, tier, rnd, with_models=True):
    if with_models:
        model_checks(ck, tier)
    common.build("plain")
    wd = common.workdir("scanfam")
    fam = list(family(2 if tier == "thorough" else 1))
    want = 9000 if tier == "thorough" else 1400
    fam = rnd.sample(fam, min(want, len(fam)))
    # members that a sample could miss: cuts inside repeated blocks, and the all-good files
    for lens in ((0, 3, 3), (3, 3, 0), (2, 3, 1)):
        for n in range(sum(lens) + 2):
            for call in ("find_valid", "validate_data"):
                fam.append((lens, "same", FLAGSETS[0], n, (), call, 0))
    cache = {}; scripts = []; meta = []
    for k, (lens, pattern, fl, n, bad, call, prefed) in enumerate(fam):
        cid = "sc%d" % k
        data, doff = build_case(rnd, cache, lens, pattern, fl, n, bad)
        path = os.path.join(wd, cid + ".zck"); open(path, "wb").write(data)
        L = ["case %s 60" % cid, "ctx 0", "open 0 %s r" % path, "init_read 0 0"]
        if prefed:
            L.append("read 0 100")
        L += ["%s 0" % call, "end"]
        scripts.append("\n".join(L) + "\n")
        meta.append((cid, path, doff, (lens, pattern, fl, n, bad, call, prefed)))
    nproc = 12
    evs = common.by_case([e for part in common.run_driver_parallel(["".join(scripts[i::nproc]) for i in range(nproc)], "plain", timeout=1800) for e in part])
    cases = []; owners = []; skipped = 0
    for k, (cid, path, doff, (lens, pattern, fl, n, bad, call, prefed)) in enumerate(meta):
        ce = evs.get(cid, [])
        dead = [e for e in ce if e["op"] in ("Crash", "Hang", "Killed")]
        if dead:
            ck.violation("ScanImpl family %s: %s during %s" % (cid, dead[0]["op"], call), scripts[k]); continue
        op = [e for e in ce if e["op"] == "init_read"]
        rd = [e for e in ce if e["op"] == "read"]
        cl = [e for e in ce if e["op"] == call]
        if not op or op[0]["ret"] != 1 or not cl or (rd and (rd[0].get("err") or rd[0]["ret"] < 0)):
            skipped += 1; continue          # the earlier read failed (a damaged dictionary): the context is in an error state
        e = cl[0]
        cases.append({"lens": list(lens), "pattern": pattern, "disk": ["x" if p in bad else "g" for p in range(n)],
                      "uncomp": fl[0], "headerOnly": fl[1], "fullOk": fl[2], "prefed": prefed,
                      "call": "valdata" if call == "validate_data" else "scan",
                      "ret": e["ret"], "vec": e.get("valid", []), "off": e.get("off", -1) - doff})
        owners.append(k)
        ck.case(("scanimpl", lens, pattern, fl, n, bad, call, prefed))
    if len(cases) < len(meta) // 2:
        ck.notes.append("ScanImpl family: only %d of %d cases comparable on this tree" % (len(cases), len(meta)))
    p = os.path.join(wd, "cases.ndjson"); common.write_ndjson(p, cases)
    r = common.tlc("Trace_Scan", "Trace_Scan.cfg", workers=4, env={"TRACE": p}, timeout=1500)
    if not r.ok:
        raise Broken("Trace_Scan: %s\n%s" % (r.violation, r.out[-1500:]))
    ck.add_tlc("Trace_Scan (real scans replayed on ScanImpl)", r, "%d executions" % len(cases)); ck.traces += len(cases)
    mism = sorted({int(x) for x in __import__("re").findall(r'^<<"MISMATCH", (\d+)>>', r.out, __import__("re").M)})
    for c in mism[:12]:
        k = owners[c - 1]; cid, path, doff, fam_k = meta[k]
        keep = os.path.join(common.REPLAY, "%s-%s.zck" % (prop, cid)); shutil.copy(path, keep)
        ck.violation("validity scan differs from ScanImpl (whose classification is the exact one): case %s observed %s" %
                     (json.dumps(fam_k), json.dumps({x: cases[c - 1][x] for x in ("ret", "vec", "off")})), scripts[k].replace(path, keep))
    if not mism and cases:
        # negative control: one wrong verdict in one recorded execution must be reported
        neg = [dict(x) for x in cases[:40]]
        j = next((i for i, x in enumerate(neg) if x["call"] == "scan" and x["vec"]), 0)
        neg[j]["vec"] = [(-v if v else 1) for v in neg[j]["vec"]]; neg[j]["ret"] = -neg[j]["ret"] if neg[j]["ret"] else 1
        pn = os.path.join(wd, "neg.ndjson"); common.write_ndjson(pn, neg)
        rn = common.tlc("Trace_Scan", "Trace_Scan.cfg", workers=1, env={"TRACE": pn}, timeout=600)
        if '"MISMATCH"' not in rn.out:
            raise Broken("Trace_Scan negative control: a corrupted verdict was accepted")
    ck.extra["scanimpl_cases_compared"] = len(cases); ck.extra["scanimpl_cases_not_comparable"] = skipped
    shutil.rmtree(wd, ignore_errors=True)
    return len(cases)
