"""The documented delta-update procedure as a driver script with snapshots after every step, and the
enrichment of its events into Delta-contract events (facts from the reference codec)."""
import os, hashlib
from . import ref

MIN_DL = 5 + 10 * 2 + 64      # zck_get_min_download_size()


class Scenario:
    def __init__(self, cid, wd, bbuf, tbytes, sources=(), limit=-1, frag=0, rounds=None, fetch_opts="", budget=120,
                 final=True, kill=None, round_opts=None, pre=(), name=""):
        self.cid = cid; self.wd = wd; self.B = bbuf; self.T0 = tbytes; self.sources = list(sources)
        self.limit = limit; self.frag = frag; self.rounds = rounds; self.fetch_opts = fetch_opts; self.budget = budget
        self.final = final; self.kill = kill; self.round_opts = round_opts or {}; self.pre = list(pre); self.name = name or cid
        self.h = ref.parse_header(bbuf)
        self.tpath = os.path.join(wd, cid + ".tgt"); self.bpath = os.path.join(wd, cid + ".B")
        self.spaths = [os.path.join(wd, "%s.A%d" % (cid, i)) for i in range(len(self.sources))]
        self.snaps = []
        # state carried on a SOURCE context before it is used (C08): per source index, script lines run between its open and
        # the copy ({c} = its context slot, {p} = its path), and optionally the bytes the file holds when it is opened
        # (self.sources[i] is what it holds when the copy runs - the facts are computed from that)
        self.src_prep = {}; self.src_initial = {}; self.aux = {}
        self.stocktake = False      # a validity scan between the requests, on the same context (moves the target's file offset)
        self.between = {}           # round -> what the client does after that response: "scan" | "copy" | "clear" | "none"

    def write_files(self, keep_target=False):
        if not keep_target:
            open(self.tpath, "wb").write(self.T0)
        open(self.bpath, "wb").write(self.B)
        for i, (p, a) in enumerate(zip(self.spaths, self.sources)):
            open(p, "wb").write(self.src_initial.get(i, a))
        for p, a in self.aux.items():
            open(p, "wb").write(a)

    def snap(self, tag):
        p = os.path.join(self.wd, "%s.snap.%s" % (self.cid, tag)); self.snaps.append((tag, p))
        return "snapshot 0 %s" % p

    def script(self):
        h = self.h; self._ncopy = len(self.spaths)
        first = min(MIN_DL, len(self.B))
        p1 = max(25, h.lead_size)
        L = ["case %s %d" % (self.cid, self.budget)] + self.pre
        L += ["ctx 0", "open 0 %s rw" % self.tpath, "init_adv_read 0 0", "dl_init 0 0"]
        if self.kill:
            L.append("shim_kill 0 %d %d" % self.kill)
        L += ["seek 0 0", "write_zck_header_cb 0 file:%s:0:%d" % (self.bpath, first), "seek 0 0", "read_lead 0"]
        if h.hdr_total > first:
            L += ["seek 0 %d" % first, "write_zck_header_cb 0 file:%s:%d:%d" % (self.bpath, first, h.hdr_total - first)]
        L += ["seek 0 %d" % p1, "read_header 0", self.snap("hdr"), "find_valid 0"]
        for i, sp in enumerate(self.spaths):
            L += ["ctx %d" % (i + 1), "open %d %s r" % (i + 1, sp), "init_read %d %d" % (i + 1, i + 1)]
            L += [l.format(c=i + 1, p=sp) for l in self.src_prep.get(i, [])]
            L += ["copy_chunks %d 0" % (i + 1), self.snap("copy%d" % i)]
        L += ["reset_failed 0"]
        n = len(h.entries)
        nr = self.rounds if self.rounds is not None else (n + 3 if self.limit != -1 else 3)
        for r in range(nr):
            L.append("fetch 0 0 %s %d %d %s %s" % (self.bpath, self.limit, self.frag, self.fetch_opts, self.round_opts.get(r, "")))
            L.append(self.snap("round%d" % r))
            if self.stocktake or self.between.get(r) == "scan":
                L.append("find_valid 0")
            elif self.between.get(r) == "copy" and self.spaths:
                L += ["copy_chunks 1 0", self.snap("copy%d" % self._ncopy)]; self._ncopy += 1
            elif self.between.get(r) == "clear":
                L.append("clear_error 0")
            L.append("reset_failed 0")
        if self.final:
            L += ["truncate_to_length 0 0", "validate_data 0", self.snap("final")]
        L += ["end"]
        return "\n".join(L) + "\n"


def replay_files(sc):
    """what a stored replay script needs: B, the sources, and the target as it was before the run"""
    return [sc.bpath] + [((p, sc.src_initial[i]) if i in sc.src_initial else p) for i, p in enumerate(sc.spaths)] + [(sc.tpath, sc.T0)] + [(p, a) for p, a in sc.aux.items()]


def extents(h):
    return [(h.hdr_total + e["start"], h.hdr_total + e["start"] + e["clen"]) for e in h.entries]


def disk_facts(tbytes, B, h):
    d = []; z = []
    for (a, b) in extents(h):
        d.append(len(tbytes) >= b and tbytes[a:b] == B[a:b])
        z.append(len(tbytes) >= b and tbytes[a:b] == bytes(b - a) and b > a)
    return d, z


def outside_same(before, after, h, touched):
    """every byte that existed before and lies outside the extents of the touched chunks is unchanged"""
    ext = extents(h)
    m = min(len(before), len(after))
    if len(after) < len(before):
        return False
    mask = bytearray(b"\x01") * m
    for c in touched:
        a, b = ext[c]
        for i in range(min(a, m), min(b, m)):
            mask[i] = 0
    # compare quickly: blank out touched ranges in both
    A = bytearray(before[:m]); Bf = bytearray(after[:m])
    for c in touched:
        a, b = ext[c]
        a = min(a, m); b = min(b, m)
        A[a:b] = bytes(b - a); Bf[a:b] = bytes(b - a)
    return A == Bf


def source_match(h, srcbuf):
    """per chunk of B: (matchable, usable) against one source file, with the library's lookup semantics:
    the first source chunk carrying that checksum is the candidate"""
    sh = ref.parse_header(srcbuf)
    n = len(h.entries)
    if not sh.ok:
        return [False] * n, [False] * n
    first = {}
    for e in sh.entries:
        first.setdefault(e["digest"], e)
    m = []; u = []
    for e in h.entries:
        c = first.get(e["digest"])
        ok = c is not None and c["clen"] == e["clen"] and c["ulen"] == e["ulen"] and len(c["digest"]) == len(e["digest"])
        m.append(bool(ok))
        if ok:
            a = sh.hdr_total + c["start"]; b = a + c["clen"]
            stored = srcbuf[a:b]
            good = len(stored) == c["clen"] and (ref.digest(sh.chunk_hash_type, stored) == c["digest"] if c["clen"] else True)
            u.append(bool(good))
        else:
            u.append(False)
    return m, u


def enrich(sc, ce):
    """driver events of one scenario -> Delta-contract events"""
    h = sc.h; B = sc.B; n = len(h.entries)
    snaps = dict(sc.snaps)
    def rd(tag):
        p = snaps.get(tag)
        return open(p, "rb").read() if p and os.path.exists(p) else None
    sized = [e["clen"] > 0 for e in h.entries]
    out = [{"op": "begin", "name": sc.name}]
    cur = None          # current target bytes (last snapshot)
    valid = [0] * n
    copy_i = 0; round_i = 0
    started = False; scanned = False
    opened = {}
    for e in ce:
        op = e["op"]
        if op == "init_read":
            opened[e["c"]] = (e["ret"] == 1)
        if op == "read_header" and e.get("c") == 0:
            if e["ret"] != 1:
                out.append({"op": "Crash", "why": "header of B not accepted", "ret": e["ret"]}); return out
        elif op == "snapshot" and e["path"].endswith(".hdr"):
            cur = rd("hdr"); d, z = disk_facts(cur, B, h)
            out.append({"op": "start", "n": n, "disk": d}); started = True
        elif op == "find_valid":
            d, z = disk_facts(cur, B, h)
            out.append({"op": "rescan" if scanned else "scan", "vec": e["valid"], "disk": d, "sized": sized, "ret": e["ret"]}); valid = e["valid"]; scanned = True
        elif op == "copy_chunks" and e.get("c", 0) == 0:
            after = rd("copy%d" % copy_i)
            si = min(max(e.get("src", copy_i + 1) - 1, 0), len(sc.sources) - 1)        # (a source may be used again later in the session)
            src = sc.sources[si]; sp = sc.spaths[si]
            m, u = source_match(h, src)
            if not opened.get(e.get("src"), True):
                m = [False] * n; u = [False] * n          # the library refused to open this source: nothing may be used from it
            d, z = disk_facts(after, B, h)
            touched = [c for c in range(n) if valid[c] != 1 and m[c]]
            same = open(sp, "rb").read() == src
            out.append({"op": "copy", "vec": e["valid"], "disk": d, "zero": z, "matchable": m, "usable": u, "srcSame": same,
                        "outside": outside_same(cur, after, h, touched), "src": si})
            cur = after; valid = e["valid"]; copy_i += 1
        elif op == "reset_failed":
            out.append({"op": "resetfailed", "vec": e["valid"]}); valid = e["valid"]
        elif op == "fetch":
            after = rd("round%d" % round_i)
            if e.get("nranges", 0) == 0:
                round_i += 1
                if after is not None:
                    cur = after
                continue
            X = [x["src"] for x in e["ridx"]]
            d, z = disk_facts(after, B, h)
            opts = sc.fetch_opts + " " + sc.round_opts.get(round_i, "")
            pok = [True] * len(X)
            if "corrupt=" in opts:
                cbs = opts.split("corrupt=")[1].split()[0]
                cb = int(cbs) if cbs != "last" else sum(int(x["clen"]) for x in e["ridx"]) - 1; acc = 0
                for k, x in enumerate(e["ridx"]):
                    L = int(x["clen"])
                    if acc <= cb < acc + L:
                        pok[k] = False
                    acc += L
            complete = e["firstfail"] == -1 and e["delivered"] == e["bodylen"]
            out.append({"op": "round", "X": [x + 1 for x in X], "vec": e["valid"], "disk": d, "zero": z, "payloadOk": pok, "wellFormed": "stop=" not in opts,
                        "complete": bool(complete), "anyErr": e["firstfail"] >= 0, "firederrTotal": e.get("firederr", 0), "outside": outside_same(cur, after, h, X),
                        "ranges": e["items"], "calls": e["calls"], "limit": e["limit"], "nranges": e["nranges"]})
            cur = after; valid = e["valid"]; round_i += 1
        elif op == "validate_data" and e.get("c") == 0:
            fin = rd("final")
            # the snapshot is taken after validate_data; use the file itself
            fin = open(sc.tpath, "rb").read()
            out.append({"op": "finish", "valRet": e["ret"], "eqB": fin == B, "sized": sized, "must": bool(getattr(sc, "must", False)), "bValid": bool(getattr(sc, "bvalid", True))})
        elif op == "Killed":
            out.append({"op": "killed"})
        elif op in ("Crash", "Hang"):
            out.append({"op": op, "sig": e.get("sig", 0)})
    return out


def sha(b):
    return hashlib.sha256(b).hexdigest()[:24]
