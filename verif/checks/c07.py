"""C07 pinned header validation: TLC enumerates every option/validate/read history of the Pin
contract (MC_Pin); each is concretised on real files of all four overall checksum types (plus the
256-byte-value sweep at four position classes of the digest string) and run on the real library;
TLC validates the recorded trace against the contract (Trace_Pin)."""
import os, json, random
from .. import common, ref
from ..common import Check, Broken

HEX = set(b"0123456789abcdefABCDEF")


def make_files(wd):
    files = []
    for ht in (0, 1, 2, 3):
        chunks = [b"", b"hello world %d" % ht, b"second chunk" * 3]
        buf, _ = ref.build_file(chunks, comp_type=0, hash_type=ht, chunk_hash_type=1)
        p = os.path.join(wd, "pin%d.zck" % ht); open(p, "wb").write(buf)
        files.append((p, buf, True))
    # a file whose header body was altered without re-sealing: the lead is fine, the header is not
    buf = bytearray(files[1][1]); h = ref.parse_header(bytes(buf)); off, n = h.fields["e1.digest"]; buf[off] ^= 0x40
    p = os.path.join(wd, "pinbad.zck"); open(p, "wb").write(buf); files.append((p, bytes(buf), False))
    # a lead whose stored header length exceeds 32 bits (the header itself is absent): a pinned total length
    # must be compared in full width, not modulo 2^32
    b1 = files[1][1]; h1 = ref.parse_header(b1)
    for big in (2**32, 2**33 + 2**32, 2**35, 2**42 + 2**35):
        lead = b1[:5] + ref.ci_enc(h1.hash_type) + ref.ci_enc(h1.header_length + big) + h1.header_digest
        buf = lead + b1[h1.lead_size:]
        p = os.path.join(wd, "pinwrap%d.zck" % (big >> 32)); open(p, "wb").write(buf); files.append((p, buf, False))      # names 1, 3, 8, 1032
    # candidates that end inside the lead (an empty file, an interrupted download, something that is not a zchunk file)
    # and exactly after it: pins are taken from the complete file, the lead itself is not there to be accepted
    for fi in (1, 2):
        full = files[fi][1]; hf = ref.parse_header(full)
        for n in sorted({0, 1, 5, 6, 13, 24, 25, 26, hf.lead_size - 1, hf.lead_size}):
            if n > hf.lead_size:
                continue
            p = os.path.join(wd, "pincut%d-%d.zck" % (fi, n)); open(p, "wb").write(full[:n]); files.append((p, full[:n], False, full))
    return [f if len(f) == 4 else f + (f[1],) for f in files]


def digest_strings(kind, fdig, size, rnd, sweep=None):
    """concrete digest strings (bytes) for an abstract (rightlen, allhex, eq)"""
    rl, ah, eq = kind
    good = fdig.hex().encode()
    if len(good) != 2 * size:          # pinned type differs from the file's: build a right-length hex string
        good = (good * 8)[:2 * size]
    out = []
    if rl and ah and eq:
        out = [good.lower(), good.upper(), bytes(c.upper() if i % 2 else c for i, c in enumerate(good.decode())) if False else good.swapcase()]
        mixed = bytes((ch - 32 if (97 <= ch <= 102 and i % 3 == 0) else ch) for i, ch in enumerate(good)); out.append(mixed)
    elif rl and ah and not eq:
        for pos in (0, len(good) - 1, len(good) // 2):
            c = good[pos:pos + 1]; n = b"0" if c != b"0" else b"1"
            out.append(good[:pos] + n + good[pos + 1:])
        out.append(good[::-1] if good[::-1] != good else b"0" * len(good))
    elif rl and not ah:
        for pos in (0, 1, len(good) - 2, len(good) - 1):
            for c in (b"g", b"G", b":", b"@", b"/", b"`", b" ", b"\x00", b"\xff", b"x"):
                out.append(good[:pos] + c + good[pos + 1:])
    elif not rl and ah:
        out = [good[:-1], good + b"0", good[:-2], good + b"00", b"", good[:1], good * 2]
    else:
        out = [good[:-1] + b"g", b"zz", good + b"g", b"g"]
    return out


def concretise(hist, path, buf, sealed, rnd, expand, refbuf=None):
    """abstract history -> list of (script lines, enriched events template) ; may expand to several.
    refbuf: the complete file the pinned values are taken from (buf itself unless buf is a truncated candidate)"""
    h = ref.parse_header(refbuf if refbuf is not None else buf)
    ft = h.hash_type; fdig = h.header_digest; flen = h.hdr_total
    variants = [[]]
    # each variant: list of dict(op=..., args...)
    pinned_t = None
    for step in hist:
        op = step["op"]
        if op == "settype":
            t = ft if step["t"] == "file" else (ft + 1 + rnd.randrange(3)) % 4
            for v in variants:
                v.append({"op": "settype", "type": t})
        elif op == "setdigest":
            kind = (step["rightlen"], step["allhex"], step["eq"])
            newv = []
            for v in variants:
                pt = None
                for s in v:
                    if s["op"] == "settype":
                        pt = s["type"]   # last settype (the contract says whether it was accepted; here order suffices)
                # the pinned type in force: first accepted settype before any digest
                size = ref.DIGEST_SIZE[pt if pt is not None else ft]
                if step["eq"] and pt is not None and pt != ft:
                    return []          # cannot be concretised (no two types share a digest size)
                strs = digest_strings(kind, fdig, size, rnd)
                if not expand:
                    strs = [rnd.choice(strs)]
                for s in strs:
                    newv.append(v + [{"op": "setdigest", "str": s}])
            variants = newv
        elif op == "setlen":
            others = [flen + 1, flen - 1, 0, flen + 1000]
            if flen >= 2**32:
                others = [flen % 2**32, flen - 2**32, flen % 2**31, flen + 1]
            ls = [flen] if step["l"] == "file" else (others if expand else [rnd.choice(others[:2])])
            variants = [v + [{"op": "setlen", "len": x}] for v in variants for x in ls]
        else:
            for v in variants:
                v.append({"op": op})
    return variants


def script_and_template(cid, path, steps):
    lines = ["case %s 20" % cid, "ctx 0", "open 0 %s r" % path, "init_adv_read 0 0"]
    for s in steps:
        if s["op"] == "settype":
            lines.append("ioption 0 2 %d" % s["type"])
        elif s["op"] == "setdigest":
            lines.append("soption 0 0 hex:%s" % s["str"].hex())
        elif s["op"] == "setlen":
            lines.append("ioption 0 3 %d" % s["len"])
        elif s["op"] == "reinit":
            lines.append("init_adv_read 0 0")
        elif s["op"] == "swap":
            lines += ["open 8 %s rw" % path, "pwrite 8 0 file:%s" % s["other"], "closefd 8", "seek 0 0"]
            continue
        else:
            lines.append("%s 0" % s["op"])
        lines.append("clear_error 0")
    lines.append("end")
    return "\n".join(lines) + "\n"


def enrich(evs, steps, buf, sealed, refbuf=None):
    """driver events + reference facts -> spec-level events"""
    h = ref.parse_header(refbuf if refbuf is not None else buf)
    lead_ok = ref.parse_header(buf).lead_size is not None         # the candidate's own bytes contain a complete lead
    ft = h.hash_type
    out = [{"op": "reset"}]
    calls = [e for e in evs if e["op"] in ("ioption", "soption", "validate_lead", "read_lead", "read_header", "clear_error") or (e["op"] == "init_adv_read" and e.get("i", 9) > 3)]
    i = 0
    pinned = None
    n0 = len(out)
    for s in steps:
        if s["op"] == "swap":
            out.append({"op": "swap"}); continue
        if i + 1 >= len(calls) + 1 and i >= len(calls):
            break
        e = calls[i]; ce = calls[i + 1] if i + 1 < len(calls) else {"err": 9}; i += 2
        es = ce.get("err", 9)      # error state after the caller's clear_error
        if e.get("afired", 0):     # a refused allocation hit this call or an earlier one on the context (allocation sweeps)
            for x in out[n0:]:
                x.setdefault("fault", False)
            n0 = len(out)
            faulted = True
        else:
            faulted = False
        if s["op"] == "settype":
            out.append({"op": "settype", "t": "file" if s["type"] == ft else "other", "ret": e["ret"], "es": es})
            if e["ret"] == 1:
                pinned = s["type"]
        elif s["op"] == "setdigest":
            st = s["str"]
            size = ref.DIGEST_SIZE[pinned] if pinned is not None else -1
            rl = len(st) == 2 * size
            ah = all(c in HEX for c in st)
            eq = rl and ah and pinned == ft and bytes.fromhex(st.decode()) == h.header_digest
            out.append({"op": "setdigest", "rightlen": rl, "allhex": ah, "eq": eq, "ret": e["ret"], "es": es})
        elif s["op"] == "setlen":
            out.append({"op": "setlen", "l": "file" if s["len"] == h.hdr_total else "other", "ret": e["ret"], "es": es})
        elif s["op"] == "reinit":
            out.append({"op": "reinit", "ret": e["ret"], "es": es})
        elif s["op"] == "validate_lead":
            out.append({"op": "validate_lead", "leadOk": lead_ok, "ret": e["ret"], "es": es, "pos": e.get("off", -1)})
        elif s["op"] == "read_lead":
            out.append({"op": "read_lead", "leadOk": lead_ok, "ret": e["ret"], "es": es})
        elif s["op"] == "read_header":
            out.append({"op": "read_header", "sealed": bool(h.sealed and sealed and buf is not None and len(buf) >= (h.hdr_total or 0)), "wf": bool(h.ok and h.supported), "ret": e["ret"], "es": es})
        if faulted and len(out) > n0:
            out[-1]["fault"] = True
    return out


def run(tier):
    ck = Check("C07", tier)
    rnd = random.Random(common.seed())
    common.build("plain")
    wd = common.workdir("c07")
    files = make_files(wd)
    r = common.tlc("MC_Pin", "MC_Pin.cfg", workers=1, timeout=600)
    ck.require_ok("MC_Pin", r)
    ck.add_tlc("MC_Pin (history generator; AcceptedImpliesEqual)", r, "MaxOps=3 option calls, then validate_lead/read_lead/read_header")
    hists = common.tlc_printed_json(r, "BEH")
    if len(hists) < 500:
        raise Broken("MC_Pin printed only %d histories" % len(hists))
    cases = []     # (cid, path, buf, sealed, steps, refbuf)
    n = 0
    for hi, hist in enumerate(hists):
        for fi, (path, buf, sealed, refbuf) in enumerate(files):
            if tier == "quick" and fi != hi % len(files):
                continue                      # quick: each history on one file (rotating); thorough: on all of them
            expand = (tier == "thorough" and hi % 5 == fi) or (tier == "quick" and hi % 6 == 0)
            vs = concretise(hist, path, buf, sealed, rnd, expand, refbuf)
            if len(vs) > 48:
                vs = rnd.sample(vs, 48)
            for steps in vs:
                cases.append(("h%d-f%d-%d" % (hi, fi, n), path, buf, sealed, steps, refbuf)); n += 1
    # every truncated candidate under fully matching pins (type, digest, total length of the complete file) and under none
    for fi, (path, buf, sealed, refbuf) in enumerate(files):
        if refbuf is buf:
            continue
        hf = ref.parse_header(refbuf)
        for pins in ([{"op": "settype", "type": hf.hash_type}, {"op": "setdigest", "str": hf.header_digest.hex().encode()}, {"op": "setlen", "len": hf.hdr_total}], [], [{"op": "setlen", "len": hf.hdr_total}]):
            for tail in (["validate_lead", "read_lead"], ["read_lead"], ["validate_lead", "validate_lead", "read_lead", "read_header"]):
                cases.append(("cut%d-%d" % (fi, n), path, buf, sealed, pins + [{"op": o} for o in tail], refbuf)); n += 1
    # every lead whose stored header length exceeds 32 bits: the true total must be accepted as a pin (by lead-only
    # validation and by the lead read), and totals that differ from it by a multiple of 2^31 .. 2^42 must not
    for fi, (path, buf, sealed, refbuf) in enumerate(files):
        if "pinwrap" not in path:
            continue
        hf = ref.parse_header(buf); tl = hf.hdr_total
        for pl in [tl] + [tl - d for d in (2**31, 2**32, 2**33, 2**35, 2**42) if tl - d > 0] + [tl % 2**32, tl % 2**35, tl + 2**35]:
            for withtype in (False, True):
                pins = ([{"op": "settype", "type": hf.hash_type}] if withtype else []) + [{"op": "setlen", "len": pl}]
                for tail in (["validate_lead", "read_lead"], ["read_lead"]):
                    cases.append(("wrap%d-%d" % (fi, n), path, buf, sealed, pins + [{"op": o} for o in tail], refbuf)); n += 1
    # the 256-value sweep at four position classes of the digest string
    for fi, (path, buf, sealed, _rb) in enumerate(files[:4]):
        h = ref.parse_header(buf); good = h.header_digest.hex().encode()
        for pos in (0, 1, len(good) - 2, len(good) - 1):
            for c in range(256):
                s = good[:pos] + bytes([c]) + good[pos + 1:]
                steps = [{"op": "settype", "type": h.hash_type}, {"op": "setdigest", "str": s}, {"op": "validate_lead"}, {"op": "read_lead"}, {"op": "read_header"}]
                cases.append(("sw%d-%d-%d" % (fi, pos, c), path, buf, sealed, steps, buf))
    # the file behind the descriptor is replaced (same layout, another header checksum) after a lead-only validation that
    # matched the pins: the pins stay in force, the new bytes must be refused by every later lead read on the same context
    for fi, (path, buf, sealed, refbuf) in enumerate(files[:4]):
        h = ref.parse_header(buf)
        chunks2 = [b"", b"HELLO WORLD %d" % fi, b"second chunk" * 3]
        other, _ = ref.build_file(chunks2, comp_type=0, hash_type=h.hash_type, chunk_hash_type=1)
        if len(other) != len(buf) or ref.parse_header(other).header_digest == h.header_digest:
            continue
        op_ = os.path.join(wd, "pin%d.other" % fi); open(op_, "wb").write(other)
        pinsets = [[{"op": "settype", "type": h.hash_type}, {"op": "setdigest", "str": h.header_digest.hex().encode()}],
                   [{"op": "settype", "type": h.hash_type}, {"op": "setdigest", "str": h.header_digest.hex().encode()}, {"op": "setlen", "len": h.hdr_total}]]
        for pi, pins in enumerate(pinsets):
            for tail in (["validate_lead", "SWAP", "validate_lead", "read_lead"], ["validate_lead", "validate_lead", "SWAP", "read_lead", "read_header"], ["validate_lead", "SWAP", "validate_lead", "validate_lead", "read_lead"]):
                priv = os.path.join(wd, "pinswap%d-%d-%d.zck" % (fi, pi, n)); open(priv, "wb").write(buf)
                steps = pins + [({"op": "swap", "other": op_} if o == "SWAP" else {"op": o}) for o in tail]
                cases.append(("swap%d-%d" % (fi, n), priv, buf, sealed, steps, buf)); n += 1
    # state carried between calls: in every third case the context is initialised for reading AGAIN (same descriptor) after
    # the pins were set and before the lead is looked at; the pins stay in force (Pin!Reinit)
    for k, c in enumerate(cases):
        steps = c[4]
        firstlead = [j for j, s in enumerate(steps) if s["op"] in ("validate_lead", "read_lead", "read_header")]
        if k % 3 == 1 and firstlead and firstlead[0] > 0 and not c[0].startswith("swap"):
            cases[k] = (c[0] + "R", c[1], c[2], c[3], steps[:firstlead[0]] + [{"op": "reinit"}] + steps[firstlead[0]:], c[5])
    scripts = {}
    for (cid, path, buf, sealed, steps, refbuf) in cases:
        scripts[cid] = script_and_template(cid, path, steps)
    # allocation failures: in pinning histories with a wrong digest / wrong length / the right values, every allocation made
    # by zchunk's own code is refused in turn (once / from there on).  A call hit by the fault may fail, but a setter that
    # returns 1 has put its pin in force and an accepted lead carries the pinned values (the X actions of Pin with fault)
    from .. import allocfault
    nsweep = 0
    for fi, (path, buf, sealed, refbuf) in enumerate(files[:4]):
        h = ref.parse_header(buf); good = h.header_digest.hex().encode()
        wrong = good[:7] + (b"0" if good[7:8] != b"0" else b"1") + good[8:]
        bases = [[{"op": "settype", "type": h.hash_type}, {"op": "setdigest", "str": wrong}, {"op": "validate_lead"}, {"op": "read_lead"}, {"op": "read_header"}],
                 [{"op": "settype", "type": h.hash_type}, {"op": "setdigest", "str": good}, {"op": "setlen", "len": h.hdr_total + 1}, {"op": "validate_lead"}, {"op": "read_lead"}],
                 [{"op": "setlen", "len": h.hdr_total}, {"op": "settype", "type": (h.hash_type + 1) % 4}, {"op": "read_lead"}, {"op": "read_header"}],
                 [{"op": "settype", "type": h.hash_type}, {"op": "setdigest", "str": good.upper()}, {"op": "setlen", "len": h.hdr_total}, {"op": "validate_lead"}, {"op": "read_lead"}, {"op": "read_header"}]]
        if tier == "quick":
            bases = [bases[(fi + j) % 4] for j in (0, 1)] if fi else bases
        for bi, steps in enumerate(bases):
            base = script_and_template("af%d-%d-base" % (fi, bi), path, steps)
            na, _ev = allocfault._count(base)
            for k in range(1, na + 1):
                for ln in (1, 100000):
                    cid = "af%d-%d-a%d-%d" % (fi, bi, k, ln)
                    scripts[cid] = allocfault._arm(script_and_template(cid, path, steps), k, ln)
                    cases.append((cid, path, buf, sealed, steps, refbuf)); nsweep += 1
    ck.extra["allocation_sweep_runs"] = nsweep
    ids = list(scripts)
    nproc = 8
    parts = ["".join(scripts[c] for c in ids[i::nproc]) for i in range(nproc)]
    evs = [e for part in common.run_driver_parallel(parts, "plain") for e in part]
    bycase = common.by_case(evs)
    trace = []; owner = []
    for (cid, path, buf, sealed, steps, refbuf) in cases:
        ce = bycase.get(cid, [])
        if cid.startswith("af") and any(e["op"] == "Crash" for e in ce):
            t = enrich([e for e in ce if e["op"] != "Crash"], steps, buf, sealed, refbuf)      # a process that ends on a refused allocation promises nothing more
        elif any(e["op"] in ("Crash", "Hang") for e in ce):
            t = [{"op": "reset"}, {"op": "Crash", "case": cid}]
        else:
            t = enrich(ce, steps, buf, sealed, refbuf)
        ck.case(json.dumps([{k: (v.hex() if isinstance(v, bytes) else v) for k, v in s.items()} for s in steps]) + path)
        for x in t:
            trace.append(x); owner.append(cid)
    ck.sample({"script": scripts[ids[0]].splitlines(), "trace": [t for t, o in zip(trace, owner) if o == ids[0]]})
    ck.sample({"script": scripts[ids[-1]].splitlines(), "trace": [t for t, o in zip(trace, owner) if o == ids[-1]]})
    B = 40000
    # cut only at reset boundaries
    cuts = [0]
    for i in range(1, len(trace)):
        if trace[i]["op"] == "reset" and i - cuts[-1] >= B:
            cuts.append(i)
    cuts.append(len(trace))
    paths = []
    for a, b in zip(cuts, cuts[1:]):
        p = os.path.join(wd, "t%d.ndjson" % a); common.write_ndjson(p, trace[a:b]); paths.append((a, p))
    results = common.validate_traces_parallel("Trace_Pin", "Trace_Pin.cfg", [p for _, p in paths])
    for (base, p), (ok, res) in zip(paths, results):
        ck.add_tlc("Trace_Pin", res); ck.traces += 1
        if not ok:
            m = [x for x in res.out.splitlines() if "MATCHED" in x]
            k = int(m[-1].split(",")[1]) if m else 0
            bad = min(base + k, len(trace) - 1)
            cid = owner[bad]
            again = common.run_driver(scripts[cid], "plain")
            ck.violation("event %d of case %s not explained by the Pin contract: %s" % (bad, cid, json.dumps(trace[bad])),
                         scripts[cid], {"event": trace[bad], "case_trace": [t for t, o in zip(trace, owner) if o == cid], "rerun": again[:12]})
    # negative control: flip the verdict of one accepted lead
    acc = [i for i, t in enumerate(trace) if t["op"] == "read_lead" and t["ret"] == 1 and owner[i].startswith("h")]
    if acc and not ck.violations:
        i = acc[0]; cid = owner[i]
        seg = [dict(t) for t, o in zip(trace, owner) if o == cid]
        for t in seg:
            if t["op"] == "setdigest" or t["op"] == "settype":
                pass
        seg2 = [dict(t) for t in seg]
        for t in seg2:
            if t["op"] == "read_lead":
                t["ret"] = 0
        p = os.path.join(wd, "neg.ndjson"); common.write_ndjson(p, seg2)
        ok, res = common.validate_trace("Trace_Pin", "Trace_Pin.cfg", p)
        if ok:
            raise Broken("negative control: a wrongly rejected matching lead was accepted by Trace_Pin")
    ck.extra["rule"] = "one case = one concretised history (file x option order x concrete digest string/length); distinct by script"
    ck.extra["histories_from_tlc"] = len(hists); ck.extra["trace_events"] = len(trace)
    ck.assumptions = ["files are produced by the reference writer (verif/ref.py); digest-string facts (length, hex-ness, value) computed in Python"]
    import shutil; shutil.rmtree(wd, ignore_errors=True)
    return ck.finish()


def replay(path):
    for e in common.run_driver(open(path).read(), "plain"):
        print(json.dumps(e))
    return 0
