"""C06 the header checksum covers every header byte: TLC checks the coverage arithmetic
(HeaderCover); then, for sample files of every hash type / flag combination, EVERY header position
x all 255 substitute values is opened by the real library (in-process scan), plus insertions and
deletions with the length field adjusted, plus the identifier toggle; TLC validates the recorded
verdicts against the Header contract with the reference codec's `sealed` fact."""
import os, json, random
from .. import common, ref
from ..common import Check, Broken


def sample_files(rnd, tier):
    out = []
    combos = [(0, 1, 0, False), (1, 3, 0, True), (2, 2, 0, False), (3, 0, 0, True), (1, 1, 4, False), (1, 3, 2, False), (1, 2, 4, True), (3, 3, 2, True)]
    if tier == "quick":
        combos = combos[:8]
    for i, (ht, cht, flags, dic) in enumerate(combos):
        chunks = [bytes(rnd.getrandbits(8) for _ in range(17)) if dic else b""] + [b"chunk-%d-%d" % (i, j) * (j + 1) for j in range(2 + i % 3)]
        kw = {}
        if flags & 2:
            kw["opt"] = {"elems": [(1, None, b"xy"), (7, None, b"")]}
        if flags & 4 and cht in (0, 3):
            cht = 1
        buf, _ = ref.build_file(chunks, comp_type=0, hash_type=ht, chunk_hash_type=cht, flags=flags, **kw)
        out.append(("s%d" % i, buf))
    # files whose stored header checksum begins with a 0x00 byte (found by varying an optional element):
    # a comparison that stops at a NUL would accept changes to the rest of the checksum
    for ht in ((1, 3) if tier == "quick" else (0, 1, 2, 3)):
        for nonce in range(200000):
            buf, _ = ref.build_file([b"", b"zero-lead-digest"], comp_type=0, hash_type=ht, chunk_hash_type=1, flags=2,
                                    opt={"elems": [(3, None, nonce.to_bytes(4, "little"))]})
            if ref.parse_header(buf).header_digest[0] == 0:
                out.append(("s-nul%d" % ht, buf)); break
    # a file in which clearing the terminator bit of the header-length field makes that integer run on through the first
    # bytes of the stored checksum and end, without overflow, at a value no allocator can satisfy (>= 2^47): the open
    # path fails there without an I/O or checksum error - it must still be a failure
    for nonce in range(400000):
        buf, _ = ref.build_file([b"", b"huge-header-length"], comp_type=0, hash_type=1, chunk_hash_type=1, flags=2,
                                opt={"elems": [(3, None, nonce.to_bytes(4, "little"))]})
        h_ = ref.parse_header(buf); o2, n2 = h_.fields["header_length"]
        mb = bytearray(buf); mb[o2 + n2 - 1] &= 0x7f
        try:
            v, e_ = ref.ci_dec(bytes(mb), o2)
        except ref.CIError:
            continue
        if v >= 2**47:
            out.append(("s-hugelen", buf)); break
    # a detached header of the first file: header + dictionary, identifier switched
    name, buf = out[1]
    h = ref.parse_header(buf)
    det = b"\0ZHR1" + buf[5:h.hdr_total + h.entries[0]["clen"]]
    out.append(("s-detached", det))
    return out


def facts(buf):
    h = ref.parse_header(buf)
    return {"ok": bool(h.ok), "sealed": bool(h.sealed), "supported": bool(h.supported), "fits": True}, h


def run(tier):
    ck = Check("C06", tier)
    rnd = random.Random(common.seed())
    common.build("plain")
    wd = common.workdir("c06")
    r = common.tlc("HeaderCover", "MC_HeaderCover.cfg", workers=4)
    ck.require_ok("HeaderCover", r)
    ck.add_tlc("HeaderCover (EveryByteCovered, DigestNotSelfCovered)", r, "integer widths 1..10 x digest sizes {16,20,32,64} x body 1..6")
    files = sample_files(rnd, tier)
    trace = []; scripts = []; owner = []
    for name, buf in files:
        path = os.path.join(wd, name + ".zck"); open(path, "wb").write(buf)
        f, h = facts(buf)
        if not (f["ok"] and f["sealed"] and f["supported"]):
            raise Broken("reference writer produced a file its own parser rejects: %s" % name)
        hl = h.hdr_total
        # 1. exhaustive substitution, in-process
        nparts = 4
        step = (hl + nparts - 1) // nparts
        for a in range(0, hl, step):
            scripts.append((name, "scan", a, min(hl, a + step), "case %s-scan-%d 600\nhdrscan file:%s %d %d\nend\n" % (name, a, path, a, min(hl, a + step))))
            # the same through the pinned open path (type and the file's own stored checksum pinned)
            scripts.append((name, "scan", a, min(hl, a + step), "case %s-pscan-%d 600\nhdrscan file:%s %d %d pin %d %d %d\nend\n" %
                            (name, a, path, a, min(hl, a + step), h.hash_type, h.digest_loc, ref.DIGEST_SIZE[h.hash_type])))
        # the pinned path with the digest the caller authenticated (the ORIGINAL file's) over the lead - where the stored checksum
        # itself lies: a candidate whose stored checksum was altered is not the authenticated header
        scripts.append((name, "scan", 0, h.lead_size, "case %s-qscan-0 600\nhdrscan file:%s %d %d pinorig %d %d %d\nend\n" %
                        (name, path, 0, h.lead_size, h.hash_type, h.digest_loc, ref.DIGEST_SIZE[h.hash_type])))
        # the same where the context has already read the lead of the UNMODIFIED bytes (as a downloader that looks at the lead,
        # fetches the rest and reads the lead again does): what counts is the bytes now there.  Quick: the lead of every
        # file and the whole header of every third one
        fi = [n_ for n_, _ in files].index(name)
        rl_to = hl if (tier == "thorough" or fi % 3 == 0) else h.lead_size
        rstep = (rl_to + nparts - 1) // nparts
        for a in range(0, rl_to, rstep):
            scripts.append((name, "scan", a, min(rl_to, a + rstep), "case %s-rscan-%d 600\nhdrscan file:%s %d %d relead\nend\n" % (name, a, path, a, min(rl_to, a + rstep))))
        # the same on a context that was given an integer option before it was initialised for reading (accepted or refused -
        # the error is cleared): the uncompressed-source option, which is not restricted to writers, and the header-only option
        for (po, pv) in ((4, 1), (5, 1)):
            po_to = hl if (tier == "thorough" or fi % 3 == (po % 3)) else h.lead_size
            postep = (po_to + nparts - 1) // nparts
            for a in range(0, po_to, postep):
                scripts.append((name, "scan", a, min(po_to, a + postep), "case %s-oscan%d-%d 600\nhdrscan file:%s %d %d preopt %d %d\nend\n" % (name, po, a, path, a, min(po_to, a + postep), po, pv)))
        # the advanced open with the refused zck_read_header repeated after zck_clear_error on the same context (a caller that
        # clears the error and tries again): the second call must not accept what the first refused.  Quick: every second file
        rt_to = hl if (tier == "thorough" or fi % 2 == 1) else h.lead_size
        rtstep = (rt_to + nparts - 1) // nparts
        for a in range(0, rt_to, rtstep):
            scripts.append((name, "scan", a, min(rt_to, a + rtstep), "case %s-tscan-%d 600\nhdrscan file:%s %d %d retry\nend\n" % (name, a, path, a, min(rt_to, a + rtstep))))
        # 2. insertions / deletions with the header length field adjusted (not re-sealed)
        pos = list(range(h.lead_size, hl)) if tier == "thorough" else sorted(rnd.sample(range(h.lead_size, hl), min(40, hl - h.lead_size)))
        for p in pos:
            for kind in ("ins", "del"):
                if kind == "ins":
                    body = buf[h.lead_size:p] + bytes([rnd.getrandbits(8)]) + buf[p:hl]
                else:
                    body = buf[h.lead_size:p] + buf[p + 1:hl]
                lead = buf[:5] + ref.ci_enc(h.hash_type) + ref.ci_enc(len(body)) + h.header_digest
                nb = lead + body + buf[hl:]
                mp = os.path.join(wd, "%s-%s-%d.zck" % (name, kind, p)); open(mp, "wb").write(nb)
                scripts.append((name, kind, p, nb, "case %s-%s-%d 20\nctx 0\nopen 0 %s r\ninit_read 0 0\nend\n" % (name, kind, p, mp)))
        # 2b. the lead's two integers re-spelled in a longer, non-minimal form with the same value (digest untouched):
        # the checksum is over the bytes, not over the decoded values
        o1, n1 = h.fields["hash_type"]; o2, n2 = h.fields["header_length"]
        def nonmin(b):
            return bytes(b[:-1]) + bytes([b[-1] & 0x7f, 0x80])
        for tag, nb in (("type", buf[:o1] + nonmin(buf[o1:o1 + n1]) + buf[o1 + n1:]), ("hlen", buf[:o2] + nonmin(buf[o2:o2 + n2]) + buf[o2 + n2:]),
                        ("both", buf[:o1] + nonmin(buf[o1:o1 + n1]) + nonmin(buf[o2:o2 + n2]) + buf[o2 + n2:])):
            for mg in (b"\0ZCK1", b"\0ZHR1"):
                nb2 = mg + nb[5:]
                mp = os.path.join(wd, "%s-nonmin-%s-%s.zck" % (name, tag, mg[2:4].decode())); open(mp, "wb").write(nb2)
                scripts.append((name, "nonmin-" + tag, mg[2], nb2, "case %s-nonmin%s%s-0 20\nctx 0\nopen 0 %s r\ninit_read 0 0\nend\n" % (name, tag, mg[2:4].decode(), mp)))
        # 3. identifier toggle
        tog = (b"\0ZHR1" if buf[:5] == b"\0ZCK1" else b"\0ZCK1") + buf[5:]
        mp = os.path.join(wd, "%s-toggle.zck" % name); open(mp, "wb").write(tog)
        scripts.append((name, "toggle", 0, tog, "case %s-toggle-0 20\nctx 0\nopen 0 %s r\ninit_read 0 0\nend\n" % (name, mp)))
        # and the unmodified file must open
        scripts.append((name, "plain", 0, buf, "case %s-plain-0 20\nctx 0\nopen 0 %s r\ninit_read 0 0\nend\n" % (name, path)))
    # allocation failures: a header with one substituted byte is opened while every allocation made by zchunk's own code is
    # refused in turn (once / from there on): the open may fail in other ways, it must not succeed (Header!Open)
    from .. import allocfault
    nalloc = 0
    for fi, (name, buf) in enumerate(files[:3] if tier == "quick" else files):
        h = ref.parse_header(buf); hl = h.hdr_total
        o_d, n_d = h.fields["header_digest"] if "header_digest" in h.fields else (h.lead_size - len(h.header_digest), len(h.header_digest))
        for p in sorted({o_d, o_d + n_d - 1, h.lead_size + 1, (h.lead_size + hl) // 2, hl - 1}):
            nb = bytearray(buf); nb[p] ^= 0x01; nb = bytes(nb)
            if ref.parse_header(nb).sealed:
                continue
            mp = os.path.join(wd, "%s-af-%d.zck" % (name, p)); open(mp, "wb").write(nb)
            base = "case %s-af%d-base 20\nctx 0\nopen 0 %s r\ninit_read 0 0\nend\n" % (name, p, mp)
            na, _ev = allocfault._count(base)
            for k in range(1, na + 1):
                for ln in (1, 100000):
                    cid = "%s-af%d-a%d-%d" % (name, p, k, ln)
                    scripts.append((name, "subst-alloc", p, nb, allocfault._arm("case %s 20\nctx 0\nopen 0 %s r\ninit_read 0 0\nend\n" % (cid, mp), k, ln))); nalloc += 1
    ck.extra["allocation_sweep_opens"] = nalloc
    nproc = 12
    parts = ["".join(s[4] for s in scripts[i::nproc]) for i in range(nproc)]
    evs = [e for part in common.run_driver_parallel(parts, "plain") for e in part]
    bycase = common.by_case(evs)
    bufs = dict(files)
    for (name, kind, a, b, script) in scripts:
        cid = script.split()[1]
        ce = bycase.get(cid, [])
        if kind == "subst-alloc" and ce and not any(e["op"] == "Hang" for e in ce) and any(e["op"] == "Crash" for e in ce):
            continue                    # the process ended on the refused allocation: nothing was reported
        if any(e["op"] in ("Crash", "Hang") for e in ce) or not ce:
            trace.append({"op": "Crash", "case": cid}); owner.append(script); continue
        if kind == "scan":
            ev = [e for e in ce if e["op"] == "hdrscan"]
            if not ev:
                trace.append({"op": "Crash", "case": cid}); owner.append(script); continue
            acc = {}
            for p, v in ev[0]["accepted"]:
                acc.setdefault(p, []).append(v)
            buf = bufs[name]
            for p in range(a, b):
                sealed_vals = []
                mb = bytearray(buf)
                for v in range(256):
                    if v == buf[p]:
                        continue
                    mb[p] = v
                    hh = ref.parse_header(bytes(mb))
                    if hh.sealed and hh.ok:
                        sealed_vals.append(v)
                l1 = script.split("\n")[1]
                pinargs = l1.split(" pin ")[1] if " pin " in l1 else (l1.split(" pinorig ")[1] if " pinorig " in l1 else None)
                pinword = " pinorig " if " pinorig " in l1 else " pin "
                relead = script.split("\n")[1].endswith(" relead")
                preopt = (" preopt " + script.split("\n")[1].split(" preopt ")[1]) if " preopt " in script else (" retry" if script.split("\n")[1].endswith(" retry") else "")
                trace.append({"op": "hdrmut", "file": name, "pos": p, "pinned": pinargs is not None, "relead": relead, "accepted": acc.get(p, []), "sealedVals": sealed_vals})
                owner.append("case x 600\nhdrscan file:%s %d %d%s\nend\n" % (os.path.join(common.REPLAY, "C06-%s.zck" % name), p, p + 1, (pinword + pinargs) if pinargs else (" relead" if relead else preopt)))
                ck.case((name, p, pinargs is not None, relead, preopt))
                ck.evaluations += 254
        else:
            ev = [e for e in ce if e["op"] == "init_read"]
            ret = ev[0]["ret"] if ev else 0
            f, h = facts(b)
            if kind == "toggle":
                trace.append({"op": "toggle", "f": f, "ret": ret})
            else:
                trace.append({"op": "reset"}); owner.append(script)
                cur = {"lead": 0, "preface": 0, "index": 0, "sig": 0, "hsize": 0}
                trace.append({"op": "open", "plain": kind == "plain", "f": f, "ret": ret, "cur": cur})
            owner.append(script)
            ck.case((name, kind, a))
    ck.sample(trace[0]); ck.sample([t for t in trace if t["op"] == "open"][0]); ck.sample([t for t in trace if t["op"] == "toggle"][0])
    B = 20000
    paths = []
    for i in range(0, len(trace), B):
        p = os.path.join(wd, "t%d.ndjson" % i); common.write_ndjson(p, trace[i:i + B]); paths.append((i, p))
    results = common.validate_traces_parallel("Trace_Header", "Trace_Header.cfg", [p for _, p in paths])
    for (base, p), (ok, res) in zip(paths, results):
        ck.add_tlc("Trace_Header", res); ck.traces += 1
        if not ok:
            m = [x for x in res.out.splitlines() if "MATCHED" in x]
            k = int(m[-1].split(",")[1]) if m else 0
            bad = min(base + k, len(trace) - 1)
            ev = trace[bad]
            if ev.get("file"):
                open(os.path.join(common.REPLAY, "C06-%s.zck" % ev["file"]), "wb").write(bufs[ev["file"]])
            ck.violation("header mutation accepted although the header is not sealed: %s" % json.dumps(ev)[:400], owner[bad], {"event": ev})
    if not ck.violations:
        t0 = [t for t in trace if t["op"] == "hdrmut"][5]
        bad = dict(t0); bad["accepted"] = [1 if 1 not in t0["sealedVals"] else 2]
        p = os.path.join(wd, "neg.ndjson"); common.write_ndjson(p, [bad])
        ok, res = common.validate_trace("Trace_Header", "Trace_Header.cfg", p)
        if ok:
            raise Broken("negative control: an accepted unsealed header was not rejected by Trace_Header")
    ck.exhaustive = True
    ck.extra["rule"] = "one case = (sample file, header position) with all 255 substitute values tried in-process, or one insertion/deletion/toggle; exhaustive over positions of the 9 sample files"
    ck.assumptions = ["no second preimage: a mutated header that the reference codec finds sealed is counted as legitimately accepted"]
    import shutil; shutil.rmtree(wd, ignore_errors=True)
    return ck.finish()


def replay(path):
    for e in common.run_driver(open(path).read(), "plain"):
        print(json.dumps(e)[:2000])
    return 0
