"""C14 random access: every sequence of chunk-data / stored-data requests up to length 3 (and seeded
long sequences) on valid files of every flavour; the result of each request must be that chunk's slice
of the content (resp. its stored bytes) with its declared size, whatever was requested before.  TLC
validates the traces against the Reader contract (RGetChunk)."""
import os, json, random, shutil, itertools
from .. import common, ref, corpus, readtrace
from ..common import Check, Broken
from .c02 import validate_segments


def files_for(rnd):
    out = []
    for comp in (2, 0):
        for dic in (False, True):
            d = corpus.text(rnd, 25) if dic else b""
            chunks = [d] + [corpus.text(rnd, n) for n in (60, 35, 80)]
            buf, stored = ref.build_file(chunks, comp_type=comp, hash_type=1, chunk_hash_type=3, level=3)
            out.append(("ra-c%d-d%d" % (comp, int(dic)), buf, chunks, stored))
    # an incompressible zstd file: stored size larger than the data size
    chunks = [b""] + [corpus.rand(rnd, n) for n in (64, 33, 2048)]
    buf, stored = ref.build_file(chunks, comp_type=2, hash_type=1, chunk_hash_type=3, level=3)
    out.append(("ra-incompressible", buf, chunks, stored))
    # larger chunks (more than one 32 KiB block)
    chunks = [corpus.text(rnd, 100)] + [corpus.rand(rnd, 40000), corpus.text(rnd, 70000), corpus.rand(rnd, 10)]
    buf, stored = ref.build_file(chunks, comp_type=2, hash_type=1, chunk_hash_type=3, level=1)
    out.append(("ra-big", buf, chunks, stored))
    # padded header (the data does not start where the parsed sections end), with a dictionary
    chunks = [corpus.text(rnd, 25)] + [corpus.text(rnd, n) for n in (60, 35, 80)]
    for comp in (2, 0):
        buf, stored = ref.build_file(chunks, comp_type=comp, hash_type=1, chunk_hash_type=3, level=3, pad=13)
        out.append(("ra-padded-c%d" % comp, buf, chunks, stored))
    return out


def sparse_family(ck, tier, wd, rnd):
    """chunks that lie behind 2^31 and behind 2^32 bytes of data: the chunk in front of them declares that many stored bytes and
    the file has a hole there (it is never requested, so its checksum is never looked at); every request for the chunks
    behind it - data and stored bytes, uncompressed and zstd, any order - must return their exact bytes: the offsets the
    library seeks to do not fit 32 bits"""
    trace = []; owner = []; scripts = {}
    for comp in (0, 2):
        for big in (2**31 + 5, 2**32 + 7):
            small = [corpus.text(rnd, n) for n in (60, 35, 500)]
            stored = [(c if comp == 0 else ref.zstd_compress(c, 3, None)) for c in small]
            ents = [{"clen": 0, "ulen": 0, "digest": bytes(16)}, {"clen": big, "ulen": big if comp == 0 else big * 3, "digest": corpus.rand(rnd, 16)}] + \
                   [{"clen": len(s_), "ulen": len(c), "digest": ref.digest(3, s_)} for c, s_ in zip(small, stored)]
            hdr = ref.build_header(hash_type=1, chunk_hash_type=3, flags=0, comp_type=comp, entries=ents, data_digest=bytes(32))
            name = "ra-sparse-c%d-%d" % (comp, big >> 31)
            p = os.path.join(wd, name + ".zck")
            with open(p, "wb") as f:
                f.write(hdr); f.seek(len(hdr) + big); f.write(b"".join(stored))
            reqs = [(kd, k) for kd in ("d", "c") for k in (2, 3, 4)]
            seqs = [[r] for r in reqs] + [list(x) for x in itertools.product(reqs, repeat=2)][::(3 if tier == "quick" else 1)] + [[rnd.choice(reqs) for _ in range(12)]]
            for qi, seq in enumerate(seqs):
                cid = "%s-q%d" % (name, qi); sink = os.path.join(wd, cid + ".out")
                L = ["case %s 30" % cid, "ctx 0", "open 0 %s r" % p, "sink 0 %s" % sink, "init_read 0 0"] + \
                    ["%s 0 %d -1" % ("chunk_data" if kd == "d" else "chunk_comp_data", k) for kd, k in seq] + ["end"]
                scripts[cid] = ("\n".join(L) + "\n", "%s %s" % (name, seq[:6]), None, sink, small, stored)
    ids = list(scripts)
    evs = common.by_case([e for part in common.run_driver_parallel(["".join(scripts[c][0] for c in ids[i::8]) for i in range(8)], "plain", timeout=900) for e in part])
    for cid in ids:
        scr, name, _p, sink, small, stored = scripts[cid]
        ce = evs.get(cid, [])
        data = open(sink, "rb").read() if os.path.exists(sink) else b""; pos = 0
        op = [e for e in ce if e["op"] == "init_read"]
        trace.append({"op": "open", "f": {"valid": True, "total": sum(len(c) for c in small), "unit": True, "cok": [True] * 5, "dataok": True, "detached": False}, "ret": op[0]["ret"] if op else 0}); owner.append(cid)
        for e in ce:
            if e["op"] in ("chunk_data", "chunk_comp_data"):
                k = e["k"]; r = e["ret"]
                exp = small[k - 2] if e["op"] == "chunk_data" else stored[k - 2]
                got = data[pos:pos + r] if r > 0 else b""
                if r > 0: pos += r
                trace.append({"op": "getchunk", "kind": e["op"], "k": k, "fvalid": True, "want": len(exp), "ret": r, "eq": got == exp}); owner.append(cid)
            elif e["op"] in ("Crash", "Hang"):
                trace.append({"op": e["op"]}); owner.append(cid)
        ck.case(name)
    validate_segments(ck, "C14", trace, owner, wd, scripts_by={c: (scripts[c][0], scripts[c][1], None) for c in ids})
    ck.extra["requests_behind_2^31_and_2^32"] = len(ids)
    for f in os.listdir(wd):
        if f.startswith("ra-sparse") and f.endswith(".zck"):
            os.remove(os.path.join(wd, f))


def run(tier):
    ck = Check("C14", tier)
    rnd = random.Random(common.seed())
    common.build("plain")
    wd = common.workdir("c14")
    for cfgname in ("MC_ReaderUnit.cfg", "MC_ReaderStream.cfg"):
        r = common.tlc("ReaderImpl", cfgname if tier != "thorough" else common.cfg_variant(cfgname, wd, MaxCalls=5), workers=8, timeout=1800, heap="8g")
        ck.require_ok("ReaderImpl/" + cfgname, r); ck.add_tlc("ReaderImpl/" + cfgname + " (HistoryIndependence)", r, "3 chunks x 3 cells, reads 1..4 and chunk requests in any order, 4 calls")
    files = files_for(rnd)
    cases = []
    for (fname, buf, chunks, stored) in files:
        n = len(chunks)
        reqs = [("d", k) for k in range(n)] + [("c", k) for k in range(n)]
        seqs = []
        for L in (1, 2, 3):
            seqs += list(itertools.product(reqs, repeat=L))
        if tier == "quick":
            seqs = [s for s in seqs if len(s) < 3] + rnd.sample([s for s in seqs if len(s) == 3], 120)
        if fname == "ra-big":
            seqs = rnd.sample(seqs, min(len(seqs), 60))
        for s in seqs:
            cases.append((fname, buf, chunks, stored, list(s)))
        for _ in range(6 if tier == "quick" else 60):
            cases.append((fname, buf, chunks, stored, [rnd.choice(reqs) for _ in range(rnd.randrange(8, 40))]))
    scripts = []; meta = []
    paths = {}
    for (fname, buf, chunks, stored) in files:
        p = os.path.join(wd, fname + ".zck"); open(p, "wb").write(buf); paths[fname] = p
    for i, (fname, buf, chunks, stored, seq) in enumerate(cases):
        cid = "q%d" % i
        sink = os.path.join(wd, cid + ".out")
        lines = ["case %s 30" % cid, "ctx 0", "open 0 %s r" % paths[fname], "sink 0 %s" % sink, "init_read 0 0"]
        if i % 5 == 3:
            # from here on every read(2) on the input returns at most a few bytes (what a pipe, a network file system or a
            # signal does): each request must still return that chunk's exact data
            lines.append("shim_cap 0 %d" % (7, 60, 300, 5000, 33000)[(i // 5) % 5])
        # every fourth sequence with buffers 37 bytes larger than the chunk needs: still exactly that chunk comes back
        extra = -38 if (i % 4 == 2 and i % 5 != 3) else -1
        for (kind, k) in seq:
            lines.append("%s 0 %d %d" % ("chunk_data" if kind == "d" else "chunk_comp_data", k, extra))
        lines.append("end")
        scripts.append("\n".join(lines) + "\n"); meta.append((cid, fname, sink, seq))
    nproc = 12
    parts = ["".join(scripts[i::nproc]) for i in range(nproc)]
    evs = [e for part in common.run_driver_parallel(parts, "plain", timeout=2400) for e in part]
    bycase = common.by_case(evs)
    fmap = {f[0]: f for f in files}
    rfs = {f[0]: ref.RefFile(f[1]) for f in files}
    trace = []; owner = []
    for (cid, fname, sink, seq) in meta:
        ce = bycase.get(cid, [])
        rf = rfs[fname]; _, buf, chunks, stored = fmap[fname]
        if not rf.valid:
            raise Broken("reference writer produced an invalid file")
        data = open(sink, "rb").read() if os.path.exists(sink) else b""
        pos = 0
        ff = readtrace.facts(rf)
        op = [e for e in ce if e["op"] == "init_read"]
        trace.append({"op": "open", "f": ff, "ret": op[0]["ret"] if op else 0}); owner.append(cid)
        for e in ce:
            if e["op"] in ("chunk_data", "chunk_comp_data"):
                k = e["k"]; r = e["ret"]
                exp = chunks[k] if e["op"] == "chunk_data" else stored[k]
                got = data[pos:pos + r] if r > 0 else b""
                if r > 0:
                    pos += r
                if "shim_cap" in scripts[int(cid[1:])]:
                    trace.append({"op": "getchunkcap", "kind": e["op"], "k": k, "want": len(exp), "ret": r, "prefixOk": got == exp[:len(got)]}); owner.append(cid)
                else:
                    trace.append({"op": "getchunk", "kind": e["op"], "k": k, "fvalid": True, "want": len(exp), "ret": r, "eq": got == exp}); owner.append(cid)
            elif e["op"] in ("Crash", "Hang"):
                trace.append({"op": e["op"]}); owner.append(cid)
        ck.case((fname, tuple(seq)))
    ck.sample({"file": meta[0][1], "requests": meta[0][3], "trace": [t for t, o in zip(trace, owner) if o == meta[0][0]]})
    ck.sample({"file": meta[-1][1], "requests": meta[-1][3][:10]})
    validate_segments(ck, "C14", trace, owner, wd, scripts_by={m[0]: (scripts[i], "%s %s" % (m[1], m[3][:12]), paths[m[1]]) for i, m in enumerate(meta)})
    if not ck.violations:
        neg = [{"op": "open", "f": readtrace.facts(rfs[files[0][0]]), "ret": 1}, {"op": "getchunk", "kind": "chunk_data", "k": 1, "fvalid": True, "want": 60, "ret": 0, "eq": False}]
        p = os.path.join(wd, "neg.ndjson"); common.write_ndjson(p, neg)
        ok, res = common.validate_trace("Trace_Reader", "Trace_Reader.cfg", p)
        if ok:
            raise Broken("negative control: a wrong random-access result was accepted")
    sparse_family(ck, tier, wd, rnd)
    ck.exhaustive = tier == "thorough"
    # every history of reads, validations, chunk requests and clear_error on one context (MC_Session): the chunk requests judged
    from .. import session
    session.run_session(ck, "C14", "chunk", tier, wd, rnd)
    ck.extra["rule"] = "one case = (valid file, sequence of data/stored-data requests); all sequences of length <= 2 (quick) / <= 3 (thorough) over all chunks incl. the dictionary, plus seeded long sequences"
    ck.assumptions = ["files come from the reference writer; expected slices are the writer's own inputs and stored bytes"]
    shutil.rmtree(wd, ignore_errors=True)
    return ck.finish()


def replay(path):
    for e in common.run_driver(open(path).read(), "plain"):
        print(json.dumps(e)[:1000])
    return 0
