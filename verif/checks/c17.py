"""C17 arbitrary server responses: for parsed targets with missing chunks, adversarial header lines
(boundary parameters with regex metacharacters, quotes, empty, very long, missing CR, repeated) and body
byte strings (mutated well-formed multipart responses, malformed part headers, absurd / inverted /
overflowing content-range values, missing terminators, binary junk) are delivered to the real header and
write callbacks in fragments of at most 16 KiB under ASan/UBSan with a watchdog.  TLC validates against
the Delta contract (DRound with wellFormed = FALSE): every callback returned (no action for Crash/Hang),
nothing outside the requested extents changed, and a chunk is valid only if its bytes on disk are B's."""
import os, json, random, shutil
from .. import common, ref, corpus, delta
from ..common import Check, Broken
from .c02 import validate_segments


def response(B, h, X, boundary=b"zckBOUNDARYzck", extra=b"", lead=b"\r\n"):
    body = b""
    for i, c in enumerate(X):
        a, z = delta.extents(h)[c]
        body += (lead if i or lead else b"") + b"--" + boundary + b"\r\nContent-Type: application/octet-stream\r\n" + extra + \
            b"Content-Range: bytes %d-%d/%d\r\n\r\n" % (a, z - 1, len(B)) + B[a:z]
    body += b"\r\n--" + boundary + b"--\r\n"
    return body


HEADER_LINES = [b"Content-Type: multipart/byteranges; boundary=%s\r\n"]


def header_variants(rnd, bnd):
    v = [b"Content-Type: multipart/byteranges; boundary=" + bnd + b"\r\n",
         b"Content-Type: multipart/byteranges; boundary=\"" + bnd + b"\"\r\n",
         b"content-type: multipart/byteranges; BOUNDARY = " + bnd + b" \r\n",
         b"Content-Type: multipart/byteranges; boundary=" + bnd + b"\n",           # missing CR
         b"Content-Type: multipart/byteranges; boundary=\"\r\n", b"Content-Type: multipart/byteranges; boundary=\"\"\r\n",
         b"Content-Type: multipart/byteranges; boundary=\r\n", b"boundary=\r", b"boundary=" + b"A" * 9000 + b"\r\n",
         b"Content-Type: multipart/byteranges; boundary=a(b\r\n", b"Content-Type: multipart/byteranges; boundary=[z\r\n",
         b"Content-Type: multipart/byteranges; boundary=a{1,\r\n", b"Content-Type: multipart/byteranges; boundary=*+?\r\n",
         b"Content-Type: multipart/byteranges; boundary=\\\r\n", b"Content-Type: multipart/byteranges; boundary=%s%n%s\r\n",
         b"Content-Type: multipart/byteranges; boundary=\x00\x01\xff\r\n", b"\r\n", b"", b"X: " + corpus.rand(rnd, 50) + b"\r\n",
         b"Content-Range: bytes 0-5/10\r\n"]
    return v


def body_variants(rnd, good, bnd):
    out = [good, good[:len(good) // 2], good[1:], good.replace(b"\r\n\r\n", b"\r\n", 1), good.replace(b"\r\n\r\n", b"\n\n"),
           good.replace(b"Content-Range", b"Content-Rnage"), good.replace(b"bytes ", b"bytes -"),
           good + good, b"", b"\r\n", b"--", b"--" + bnd, b"\r\n--" + bnd + b"--\r\n", corpus.rand(rnd, 500), bytes(500), b"\r\n\r\n" * 50,
           b"\r\n--" + bnd + b"\r\nContent-Range: bytes 10-5/100\r\n\r\nxxxx",                                  # inverted
           b"\r\n--" + bnd + b"\r\nContent-Range: bytes 0-99999999999999999999999999/1\r\n\r\n" + b"y" * 300,   # overflowing
           b"\r\n--" + bnd + b"\r\nContent-Range: bytes 18446744073709551615-0/1\r\n\r\n" + b"y" * 300,
           b"\r\n--" + bnd + b"\r\nContent-Range: bytes 0-0/1\r\n\r\n" + b"z" * 2000,                            # more data than announced
           b"\r\n--" + bnd + b"\r\nContent-Range: bytes 5-4/1\r\n\r\n" + b"z" * 20,                              # length 0 by wrap
           b"\r\n--" + bnd + b"\r\n" + b"H: v\r\n" * 3000 + b"\r\n",                                             # very long part header
           b"\r\n--" + bnd + b"\r\nContent-Range: bytes 1-2/3",                                                  # never terminated
           b"\r\n--" + bnd + b"\r\nContent-Range: bytes 1-2/3\r\n\r", b"\r\n--" + bnd + b"\r\nContent-Range: bytes 1-2/3\r\n\r\n"]
    for _ in range(12):
        b = bytearray(good)
        for _ in range(rnd.randrange(1, 6)):
            if not b: break
            p = rnd.randrange(len(b)); k = rnd.choice(["flip", "del", "ins", "digit"])
            if k == "flip": b[p] ^= 1 << rnd.randrange(8)
            elif k == "del": del b[p:p + rnd.randrange(1, 9)]
            elif k == "ins": b[p:p] = rnd.choice([b"\r\n", b"--", b"\r\n\r\n", b"9" * 25, bnd, corpus.rand(rnd, 5)])
            else:
                ds = [i for i, ch in enumerate(b) if 48 <= ch <= 57]
                if ds: b[rnd.choice(ds)] = rnd.choice(b"0123456789")
        out.append(bytes(b))
    return out


def run(tier):
    ck = Check("C17", tier)
    rnd = random.Random(common.seed())
    common.build("asan")
    wd = common.workdir("c17")
    r = common.tlc("MC_Multipart", "MC_MultipartBad.cfg", workers=4, timeout=600)
    ck.require_ok("MultipartImpl/MC_MultipartBad.cfg", r); ck.add_tlc("MultipartImpl/MC_MultipartBad.cfg (ValidImpliesGood, FinalState with a corrupted part)", r)
    ch = [b""] + [corpus.text(rnd, n) for n in (30, 60, 25, 80, 45)]
    B = ref.build_file(ch, comp_type=0, hash_type=1, chunk_hash_type=3)[0]
    chb = [b""] + [corpus.rand(rnd, n) for n in (20000, 300, 40010)]
    Bbig = ref.build_file(chb, comp_type=2, hash_type=1, chunk_hash_type=3, level=1)[0]
    chz = [b""] + [(b"%d " % k) * n for k, n in enumerate((300, 150, 400, 200, 350), 1)]       # compressible: stored size far below the data size
    Bz = ref.build_file(chz, comp_type=2, hash_type=1, chunk_hash_type=3, level=3)[0]
    cases = []
    for (BB, missing) in ((B, [1, 3]), (B, [2, 3, 5]), (B, [4]), (Bbig, [1, 3]), (Bz, [1, 3]), (Bz, [2])):
        h = ref.parse_header(BB)
        T = bytearray(BB)
        for c in missing:
            a, z = delta.extents(h)[c]; T[a:z] = corpus.rand(rnd, z - a)
        T = bytes(T)
        for bnd in (b"zckBOUNDARYzck", b"a+b(c"):
            good = response(BB, h, missing, bnd)
            hv = header_variants(rnd, bnd); bv = body_variants(rnd, good, bnd)
            combos = [(hl, good) for hl in hv] + [(hv[0], b) for b in bv] + [(rnd.choice(hv), rnd.choice(bv)) for _ in range(30 if tier == "quick" else 300)]
            if BB is Bbig and tier == "quick":
                combos = rnd.sample(combos, 25)
            if BB is Bz:        # payload damage in every part (the server's bytes do not match the chunk checksums)
                for p_ in range(3):
                    b_ = bytearray(good); q = good.find(b"\r\n\r\n") + 6 + 17 * p_
                    if q < len(b_): b_[q] ^= 0x21
                    combos.append((hv[0], bytes(b_)))
                b_ = bytearray(good)
                for q in range(good.find(b"\r\n\r\n") + 4, len(b_), 11): b_[q] ^= 0x55
                combos.append((hv[0], bytes(b_)))
            for (hl, body) in combos:
                frag = rnd.choice([1, 3, 17, 1000, 16384, 16384]) if len(body) < 3000 else rnd.choice([1000, 16384])
                cases.append((BB, T, missing, hl, body, frag, 5))
            # the same with the library's logging turned up (the callbacks log what the server sent), incl. boundaries and
            # header lines far longer than any log line buffer (still within one 16 KiB transport buffer)
            for longb in (b"L" * 2100, b"M" * 12000, b"%s%n" * 600):
                cases.append((BB, T, missing, b"Content-Type: multipart/byteranges; boundary=" + longb + b"\r\n", response(BB, h, missing, longb), 16384, 0))
            for qi, (hl, body) in enumerate(rnd.sample(combos, 6)):
                cases.append((BB, T, missing, hl, body, rnd.choice([17, 16384]), 0 if qi % 2 else -1))      # ZCK_LOG_DEBUG / ZCK_LOG_DDEBUG
    # header lines of EXACT lengths around every power of two up to the transport's buffer size (and every length near 256,
    # where fixed line buffers like to sit): as an ordinary header line before the Content-Type line, and as the
    # Content-Type line itself (the boundary padded so that the whole line has that length, the exchange well formed)
    hB_ = ref.parse_header(B); T_ = bytearray(B)
    for c in (1, 3):
        a, z = delta.extents(hB_)[c]; T_[a:z] = corpus.rand(rnd, z - a)
    T_ = bytes(T_)
    lens = sorted({2 ** k + d for k in range(4, 15) for d in (-2, -1, 0, 1, 2)} | set(range(250, 263)))
    if tier == "quick":
        lens = [x for x in lens if x <= 4100] 
    ctpre = b"Content-Type: multipart/byteranges; boundary="
    for Ln in lens:
        if Ln <= 16384:
            pad = b"X-Pad: " + b"p" * max(0, Ln - 9) + b"\r\n"
            if len(pad) == Ln:
                # (an ordinary header line without a boundary parameter; every fourth one with the most verbose log level, at which the
                # library formats what it was handed: the block is exactly as long as the line, nothing follows it)
                cases.append((B, T_, [1, 3], (pad, ctpre + b"zckBOUNDARYzck\r\n"), response(B, hB_, [1, 3], b"zckBOUNDARYzck"), 16384, -1 if Ln % 4 == 1 else 5))
        nb = Ln - len(ctpre) - 2
        if 1 <= nb <= 16000:
            bnd = b"b" * nb
            cases.append((B, T_, [1, 3], ctpre + bnd + b"\r\n", response(B, hB_, [1, 3], bnd), 16384, 5))
    ck.extra["exact_header_line_lengths"] = len(lens)
    scripts = []; meta = []
    for i, (BB, T, missing, hl, body, frag, loglevel) in enumerate(cases):
        cid = "a%d" % i
        sc = delta.Scenario(cid, wd, BB, T, rounds=0, final=False, budget=40)
        sc.write_files()
        L = sc.script().splitlines()[:-1]
        if loglevel != 5:
            L.insert(1, "loglevel %d" % loglevel)          # ZCK_LOG_DDEBUG: every log statement formats its arguments (stderr is discarded)
        hls = list(hl) if isinstance(hl, tuple) else [hl]; hl = hls[-1]
        hp = os.path.join(wd, cid + ".hdr"); bp = os.path.join(wd, cid + ".body"); open(bp, "wb").write(body)
        L += ["missing_range 1 0 -1", "dl_set_range 0 1", "header_cb 0 hex:%s" % b"HTTP/1.1 206 Partial Content\r\n".hex()]
        for j_, one in enumerate(hls):
            open(hp + str(j_), "wb").write(one); L.append("header_cb 0 file:%s" % (hp + str(j_)))
        L += ["header_cb 0 hex:0d0a"]
        pos = 0
        while pos < len(body):
            n = min(frag, len(body) - pos); L.append("write_chunk_cb 0 file:%s:%d:%d" % (bp, pos, n)); pos += n
        snap = os.path.join(wd, cid + ".after")
        L += ["snapshot 0 %s" % snap, "valid 0", "dl_set_range 0 -1", "range_free 1", "dl_free 0", "free 0", "end"]
        scripts.append("\n".join(L) + "\n"); meta.append((cid, sc, missing, hl, body, frag, snap))
    nproc = 14
    parts = ["".join(scripts[i::nproc]) for i in range(nproc)]
    from concurrent.futures import ThreadPoolExecutor
    with ThreadPoolExecutor(max_workers=nproc) as ex:
        res = list(ex.map(lambda a: common.run_driver(a, "asan", None, 3000), parts))
    bycase = common.by_case([e for part in res for e in part])
    trace = []; owner = []
    for (cid, sc, missing, hl, body, frag, snap) in meta:
        ce = bycase.get(cid, [])
        t = delta.enrich(sc, ce)
        h = sc.h; n = len(h.entries)
        mr = [e for e in ce if e["op"] == "missing_range"]
        va = [e for e in ce if e["op"] == "valid"]
        before = open(dict(sc.snaps)["hdr"], "rb").read() if os.path.exists(dict(sc.snaps)["hdr"]) else b""
        if mr and va and os.path.exists(snap):
            after = open(snap, "rb").read()
            X = [x["src"] for x in mr[0]["ridx"]]
            d, z = delta.disk_facts(after, sc.B, h)
            rets = [e["ret"] for e in ce if e["op"] == "write_chunk_cb"]
            t.append({"op": "round", "X": [x + 1 for x in X], "vec": va[-1]["valid"], "disk": d, "zero": z, "payloadOk": [False] * len(X), "wellFormed": False,
                      "complete": False, "anyErr": any(r == 0 for r in rets), "outside": delta.outside_same(before, after, h, X), "limit": -1, "nranges": mr[0].get("count", 0),
                      "callbacks": len(rets)})
        elif not any(x["op"] in ("Crash", "Hang") for x in t):
            t.append({"op": "Crash", "why": "case did not reach the end", "last": [e["op"] for e in ce][-3:]})
        for x in t:
            trace.append(x); owner.append(cid)
        ck.case((hl[:60], hash(body), frag, tuple(missing)))
    ck.sample({"header_line": cases[3][3].decode("latin1"), "body_prefix": cases[3][4][:120].decode("latin1"), "fragment": cases[3][5]})
    ck.sample({"header_line": cases[-1][3][:80].decode("latin1"), "body_prefix": cases[-1][4][:120].decode("latin1"), "fragment": cases[-1][5]})
    sb = {m[0]: (scripts[i], "header %r body %r.. frag %d" % (m[3][:50], m[4][:40], m[5]), delta.replay_files(m[1]) + [os.path.join(wd, m[0] + ".hdr0"), os.path.join(wd, m[0] + ".hdr1"), os.path.join(wd, m[0] + ".body")]) for i, m in enumerate(meta)}
    validate_segments(ck, "C17", trace, owner, wd, scripts_by=sb, module="Trace_Delta", cfg="Trace_Delta.cfg", start_ops=("begin",))
    if not ck.violations:
        neg = [{"op": "begin"}, {"op": "start", "n": 2, "disk": [True, False]}, {"op": "scan", "vec": [1, -1], "disk": [True, False], "sized": [False, True], "ret": -1},
               {"op": "resetfailed", "vec": [1, 0]}, {"op": "Crash", "sig": 6}]
        p = os.path.join(wd, "neg.ndjson"); common.write_ndjson(p, neg)
        ok, res = common.validate_trace("Trace_Delta", "Trace_Delta.cfg", p)
        if ok:
            raise Broken("negative control: a Crash event was accepted by Trace_Delta")
    ck.extra["rule"] = "one case = (target with missing chunks, header line, body byte string, fragment size); under ASan+UBSan with a 40 s watchdog"
    ck.assumptions = ["memory errors are observed through ASan/UBSan/signals (DESIGN.md section 9)", "fragments of at most 16 KiB"]
    # allocation failures under the sanitizers (verif/allocfault.py): the whole documented update - ranges, their rendering,
    # multipart rounds in fragments - with every allocation of zchunk's own code refused in turn; heap corruption is a violation
    from .. import allocfault
    for what, scr in allocfault.asan_update_sweep(ck, tier, wd, rnd):
        ck.violation(what, scr)
    shutil.rmtree(wd, ignore_errors=True)
    return ck.finish()


def replay(path):
    for e in common.run_driver(open(path).read(), "asan"):
        print(json.dumps(e)[:1000])
    return 0
