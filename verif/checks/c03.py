"""C03 memory safety and termination on arbitrary file input: the header family and raw /
structure-aware (re-sealed) mutants of valid files are offered to sequences of public API calls under
ASan/UBSan with a watchdog, and to every command-line tool; every call must return.  TLC validates the
trace against the Header contract: there is no action for Crash, Hang or a sanitizer report, and the
parsed section cursors of an opened header must lie inside the header buffer."""
import os, json, random, subprocess, shutil
from concurrent.futures import ThreadPoolExecutor
from .. import common, ref, hdrfam, corpus
from ..common import Check, Broken

CALLS = ["dump 0", "read 0 100", "read 0 1", "read 0 100000", "validate_checksums 0", "validate_data 0", "find_valid 0",
         "chunk_data 0 0 -1", "chunk_data 0 1 -1", "chunk_data 0 99 -1", "chunk_comp_data 0 1 -1", "chunk_comp_data 0 0 17",
         "missing_range 0 0 -1", "range_char 0 0", "range_free 0", "setvalid 0 0,0,0,0,0,0,0,0", "missing_range 1 0 2", "range_char 0 1",
         "range_free 1", "reset_failed 0", "valid 0", "close 0"]


def script_for(cid, path, target_path, other_path, rnd, order=None, cap=0, loglevel=None):
    """cap: every read(2) on the input returns at most cap bytes (a pipe or socket delivers a file in pieces: short
    counts that are not the end of the file); loglevel: the library's logging turned up (stderr is discarded)"""
    calls = list(CALLS)
    if order == "shuffle":
        rnd.shuffle(calls)
    lines = ["case %s 10" % cid] + (["loglevel %d" % loglevel] if loglevel is not None else []) + ["ctx 0", "open 0 %s r" % path] + (["shim_cap 0 %d" % cap] if cap else []) + ["init_read 0 0"] + calls
    # as a delta source for a valid target, and as a target for a valid source
    lines += ["ctx 1", "open 1 %s rw" % target_path, "init_read 1 1", "copy_chunks 0 1", "find_matching 0 1",
              "ctx 2", "open 2 %s r" % other_path, "init_read 2 2",
              "ctx 3", "open 3 %s.rw rw" % path, "init_read 3 3", "find_valid 3", "copy_chunks 2 3", "valid 3",
              "ctx 4", "open 4 %s r" % other_path.replace("valid-other", "valid-flag4"), "init_read 4 4", "find_matching 4 3", "find_matching 3 4", "find_matching 4 2", "find_matching 2 4", "free 4",
              # as a delta source for a target with the SAME index (its own header without the data): every entry matches by
              # checksum and both sizes, whatever sizes the index declares
              "ctx 5", "open 5 %s.self rw" % path, "init_read 5 5", "ctx 6", "open 6 %s r" % path, "init_read 6 6", "copy_chunks 6 5", "valid 5",
              "clear_error 0", "copy_chunks 0 5", "free 6", "free 5",
              "dl_init 0 3", "missing_range 2 3 3", "dl_set_range 0 2", "write_chunk_cb 0 rep:41:300", "dl_free 0",
              "free 3", "free 2", "free 1", "free 0", "end"]
    return "\n".join(lines) + "\n"


def run_tool(args, timeout=12):
    e = dict(os.environ); e.update(common.ASAN_ENV)
    try:
        p = subprocess.run(args, stdout=subprocess.DEVNULL, stderr=subprocess.PIPE, env=e, timeout=timeout, cwd=os.path.dirname(args[-1]))
        rc = p.returncode; err = p.stderr[-3000:].decode("latin1")
    except subprocess.TimeoutExpired:
        return "Hang", ""
    if rc < 0 or "ERROR: AddressSanitizer" in err or "runtime error:" in err or rc in (134, 139):
        return "Crash", err
    return "ret", ""


def run(tier):
    ck = Check("C03", tier)
    rnd = random.Random(common.seed())
    bd = common.build("asan")
    wd = common.workdir("c03")
    r = common.tlc("HeaderImpl", "MC_HeaderImpl.cfg", workers=16, timeout=900, heap="8g")
    ck.require_ok("HeaderImpl", r); ck.add_tlc("HeaderImpl/MC_HeaderImpl.cfg (NoReadPastEnd, SectionsInside, IndexNonEmptyAndCounted)", r, "every header body of up to 10 cells over 5 byte classes")
    inputs = []   # (name, bytes)
    for (name, hb, plain) in hdrfam.family(rnd, tier):
        h = ref.parse_header(hb)
        inputs.append(("hdr-" + name, hb))
        if h.ok:
            tot = sum(e["clen"] for e in h.entries)
            if 0 < tot < 100000:
                inputs.append(("hdr-" + name + "+zeros", hb + bytes(tot)))
            inputs.append(("hdr-" + name + "+rand", hb + corpus.rand(rnd, 300)))
    seeds = corpus.seed_files(rnd)
    if tier == "quick":
        seeds = rnd.sample(seeds, 8)
    for (sname, buf, chunks) in seeds:
        inputs.append((sname, buf))
        for (mname, mb) in corpus.struct_mutants(rnd, buf):
            inputs.append((sname + "-" + mname, mb))
        for (mname, mb) in corpus.raw_mutants(rnd, buf, 10 if tier == "quick" else 60):
            inputs.append((sname + "-raw-" + mname, mb))
    for (sname, buf, chunks) in corpus.special_files(rnd):
        inputs.append((sname, buf))
    # otherwise valid files (empty first entry, real data of 100 KB behind the header) one of whose entries declares a stored
    # size at an integer-width boundary: as a reader's input and as delta source / target with the same index, the copy and
    # zero-fill loops work on the DECLARED size
    for comp in (0, 2):
        hb_ = ref.build_file([b"", corpus.rand(rnd, 100000), corpus.text(rnd, 50)], comp_type=comp, hash_type=1, chunk_hash_type=1)[0]
        hp_ = ref.parse_header(hb_)
        for v in (2**31 - 1, 2**31, 2**31 + 1, 2**32 - 1, 2**32, 2**32 + 5, 2**33, 2**63 - 1, 2**63):
            for k in (1, 2):
                ents = [dict(e) for e in hp_.entries]; ents[k]["clen"] = v
                if comp == 0: ents[k]["ulen"] = v
                inputs.append(("hugeclen-c%d-e%d-%d" % (comp, k, v), ref.rebuild_from_parse(hp_, hb_, entries=ents)))
    # degenerate inputs
    for name, b in (("empty", b""), ("one", b"\0"), ("magic", b"\0ZCK1"), ("magic-hdr", b"\0ZHR1"), ("ff", b"\xff" * 200), ("zeros", bytes(200)),
                    ("lead-only", seeds[0][1][:30]), ("text", b"not a zchunk file at all\n" * 10)):
        inputs.append((name, b))
    if tier == "quick" and len(inputs) > 1500:
        must = [x for x in inputs if x[0].startswith("special") or x[0].startswith("hugeclen")]
        keep = [x for x in inputs if x[0].startswith("hdr-") and "+" not in x[0]]
        rest = [x for x in inputs if x not in keep and x not in must]
        room = 1500 - len(must)
        inputs = must + (keep + rnd.sample(rest, room - len(keep)) if len(keep) < room else rnd.sample(keep + rest, room))
    valid = seeds[0][1]; valid2 = seeds[1][1]
    vt = os.path.join(wd, "valid-target.zck"); vo = os.path.join(wd, "valid-other.zck"); open(vo, "wb").write(valid2)
    # a valid uncompressed file that carries uncompressed-source checksums (pairs with zstd files by those)
    v4 = ref.build_file([b""] + [corpus.text(rnd, n) for n in (100, 300, 50)], comp_type=0, hash_type=1, chunk_hash_type=1, flags=4)[0]
    open(os.path.join(wd, "valid-flag4.zck"), "wb").write(v4)
    inputs.append(("valid-zstd-noflag", ref.build_file([b""] + [corpus.text(rnd, n) for n in (100, 300, 50)], comp_type=2, hash_type=1, chunk_hash_type=1)[0]))
    scripts = []; names = {}
    for i, (name, b) in enumerate(inputs):
        cid = "i%d" % i
        names[cid] = name
        path = os.path.join(wd, cid + ".zck"); open(path, "wb").write(b); open(path + ".rw", "wb").write(b)
        hh_ = ref.parse_header(b); open(path + ".self", "wb").write(b[:hh_.hdr_total] if (hh_.lead_size is not None and hh_.hdr_total and hh_.hdr_total <= len(b)) else b)
        tpath = os.path.join(wd, cid + ".tgt"); open(tpath, "wb").write(valid[:ref.parse_header(valid).hdr_total])
        scripts.append(script_for(cid, path, tpath, vo, rnd, "shuffle" if i % 3 == 2 else None,
                                  cap=(0, 0, 0, 0, 300, 0, 60, 0, 0, 7, 0)[i % 11], loglevel=(0 if i % 13 == 5 else None)))
    nproc = 14
    parts = ["".join(scripts[i::nproc]) for i in range(nproc)]
    errf = os.path.join(wd, "asan.err")
    from concurrent.futures import ThreadPoolExecutor
    with ThreadPoolExecutor(max_workers=nproc) as ex:
        res = list(ex.map(lambda a: common.run_driver(a[1], "asan", None, 3000, errf + str(a[0])), enumerate(parts)))
    evs = [e for part in res for e in part]
    bycase = common.by_case(evs)
    trace = []; owner = []
    for i, (name, b) in enumerate(inputs):
        cid = "i%d" % i
        ce = bycase.get(cid, [])
        h = ref.parse_header(b)
        f = {"ok": bool(h.ok), "sealed": bool(h.sealed), "supported": bool(h.supported), "fits": hdrfam.fits(h)}
        trace.append({"op": "reset", "input": name}); owner.append(cid)
        ck.case(name)
        first = True
        for e in ce:
            if e["op"] == "init_read" and first:
                first = False
                cur = {k2: min(int(e.get(k1, "0")), 2**31 - 1) for k1, k2 in (("lead_size", "lead"), ("preface_size", "preface"), ("index_size", "index"), ("sig_size", "sig"), ("header_size", "hsize"))}
                # C03 does not judge accept/reject verdicts (that is C06/C13): facts are forced permissive here
                trace.append({"op": "open", "plain": False, "f": {"ok": True, "sealed": True, "supported": True, "fits": True}, "ret": e["ret"], "cur": cur, "reffacts": f}); owner.append(cid)
            elif e["op"] in ("Crash", "Hang"):
                trace.append({"op": e["op"], "sig": e.get("sig", 0), "input": name, "after": [x["op"] for x in ce[-4:-1]]}); owner.append(cid)
            elif e["op"] not in ("begin", "done", "ctx", "open", "free"):
                trace.append({"op": "call", "name": e["op"], "ret": e.get("ret", 0)}); owner.append(cid)
        if not any(e["op"] == "done" for e in ce) and not any(e["op"] in ("Crash", "Hang") for e in ce):
            trace.append({"op": "Crash", "input": name, "why": "case did not finish"}); owner.append(cid)
    # ---- the command-line tools under ASan/UBSan
    tools = [["unzck", "-c"], ["unzck", "-c", "--dict"], ["unzck", "-c", "--header"], ["zck_read_header", "-c", "-f"], ["zck_read_header"], ["zck_gen_zdict"]]
    tsel = list(range(len(inputs)))
    if tier == "quick":
        tsel = rnd.sample(tsel, min(len(tsel), 260))
    jobs = []
    for i in tsel:
        path = os.path.join(wd, "i%d.zck" % i)
        for t in tools:
            if t[0] == "zck_gen_zdict" and i % 5:
                continue
            jobs.append((i, t, [os.path.join(bd, t[0])] + t[1:] + [path]))
        if i % 2 == 0:
            jobs.append((i, ["zck_delta_size", "src"], [os.path.join(bd, "zck_delta_size"), path, vo]))
            jobs.append((i, ["zck_delta_size", "tgt"], [os.path.join(bd, "zck_delta_size"), vo, path]))
    with ThreadPoolExecutor(max_workers=common.NCPU) as ex:
        tres = list(ex.map(lambda j: run_tool(j[2]), jobs))
    trace.append({"op": "reset", "input": "tools"}); owner.append("tools")
    tool_scripts = {}
    for (i, t, args), (kind, err) in zip(jobs, tres):
        ck.case(("tool", " ".join(t), inputs[i][0]))
        if kind == "ret":
            trace.append({"op": "call", "name": " ".join(t), "ret": 0}); owner.append("tool")
        else:
            key = "tool%d" % len(tool_scripts)
            tool_scripts[key] = (i, args, err)
            trace.append({"op": kind, "input": inputs[i][0], "tool": " ".join(t), "report": err[-600:]}); owner.append(key)
    ck.extra["inputs"] = len(inputs); ck.extra["tool_runs"] = len(jobs)
    ck.sample({"input": inputs[0][0], "script": scripts[0].splitlines()[:12]})
    ck.sample({"tool_run": " ".join(jobs[0][2])})
    # ---- validate: split at resets so that each rejected execution is reported
    segs = []; cur = []
    for t, o in zip(trace, owner):
        if t["op"] == "reset" and cur:
            segs.append(cur); cur = []
        cur.append((t, o))
    if cur:
        segs.append(cur)
    p = os.path.join(wd, "t.ndjson")
    remaining = segs
    seen_sigs = {}
    rounds = 0
    while remaining and rounds < 60:
        rounds += 1
        common.write_ndjson(p, [t for s in remaining for (t, o) in s])
        ok, res = common.validate_trace("Trace_Header", "Trace_Header.cfg", p)
        ck.add_tlc("Trace_Header", res); ck.traces += 1
        if ok:
            break
        m = [x for x in res.out.splitlines() if "MATCHED" in x]
        k = int(m[-1].split(",")[1]) if m else 0
        pos = 0; bad_i = None
        for i, s in enumerate(remaining):
            if pos + len(s) > k:
                bad_i = i; break
            pos += len(s)
        if bad_i is None:
            break
        s = remaining[bad_i]
        ev, own = s[min(k - pos, len(s) - 1)]
        if own.startswith("tool"):
            i, args, err = tool_scripts[own]
            keep = os.path.join(common.REPLAY, "C03-input-%d.zck" % i); open(keep, "wb").write(inputs[i][1])
            sig = (ev.get("tool"), err.split("SUMMARY")[-1][:120] if "SUMMARY" in err else ev["op"])
            if sig not in seen_sigs:
                seen_sigs[sig] = 1
                ck.violation("%s in tool run `%s` on input %s: %s" % (ev["op"], " ".join(args[:-1]), inputs[i][0], err[-500:].replace("\n", " | ")),
                             "# run: %s %s\n" % (" ".join(args[:-1]), keep))
            # drop just this event and continue
            s2 = [(t, o) for (t, o) in s if t is not ev]
            remaining = [s2] + remaining[bad_i + 1:] if len(s2) > 1 else remaining[bad_i + 1:]
            continue
        idx = int(own[1:]); name, b = inputs[idx]
        keep = os.path.join(common.REPLAY, "C03-input-%d.zck" % idx); open(keep, "wb").write(b); open(keep + ".rw", "wb").write(b)
        shutil.copy(os.path.join(wd, own + ".zck.self"), keep + ".self")
        for aux_ in (vo, os.path.join(wd, "valid-flag4.zck")):          # the fixed companions a replay needs
            shutil.copy(aux_, os.path.join(common.REPLAY, "C03-" + os.path.basename(aux_)))
        scr = scripts[idx].replace(os.path.join(wd, own + ".zck"), keep)
        for aux_ in (vo, os.path.join(wd, "valid-flag4.zck")):
            scr = scr.replace(aux_, os.path.join(common.REPLAY, "C03-" + os.path.basename(aux_)))
        if os.path.exists(os.path.join(wd, own + ".tgt")):
            shutil.copy(os.path.join(wd, own + ".tgt"), keep + ".tgt"); scr = scr.replace(os.path.join(wd, own + ".tgt"), keep + ".tgt")
        # re-run this case alone to make sure it repeats and to get the sanitizer's summary line
        errp = os.path.join(wd, "rerun.err")
        # (alone on the machine and with a budget of 90 s: a Hang must be a real non-termination, not load)
        again = common.run_driver(scr.replace("case %s 10" % own, "case %s 90" % own), "asan", None, 200, errp)
        repeats = any(e["op"] in ("Crash", "Hang") for e in again)
        report = open(errp, "rb").read().decode("latin1") if os.path.exists(errp) else ""
        summ = [x for x in report.splitlines() if x.startswith("SUMMARY") or "runtime error:" in x or "ERROR: AddressSanitizer" in x]
        lastcmd = [e["op"] for e in again if e["op"] not in ("Crash", "Hang")][-1:] if again else []
        sig = (ev["op"], summ[0][:160] if summ else "signal %s" % ev.get("sig"))
        if repeats and sig not in seen_sigs:
            seen_sigs[sig] = 1
            ck.violation("%s on input %s during the call after `%s`: %s" % (ev["op"], name, ",".join(lastcmd), " | ".join(summ)[:400] or json.dumps(ev)[:200]), scr, {"event": ev})
        remaining = remaining[bad_i + 1:]
    # allocation failures under the sanitizers (verif/allocfault.py): heap corruption is a violation, a stop on NULL is recorded
    from .. import allocfault
    for what, scr in allocfault.asan_reader_sweep(ck, tier, wd, rnd) + allocfault.asan_tool_sweep(ck, tier, wd, rnd):
        ck.violation(what, scr)
    if not ck.violations:
        common.write_ndjson(p, [{"op": "reset"}, {"op": "call", "name": "read", "ret": 1}, {"op": "Crash", "sig": 11}])
        ok, res = common.validate_trace("Trace_Header", "Trace_Header.cfg", p)
        if ok:
            raise Broken("negative control: a Crash event was accepted by Trace_Header")
    ck.extra["rule"] = "one case = one input byte string under the API call sequence, or one (tool, input) run; all under ASan+UBSan with a 25 s watchdog"
    ck.assumptions = ["memory errors are observed through ASan/UBSan and signals; an out-of-bounds access that trips neither is invisible", "allocation failure paths are not explored"]
    shutil.rmtree(wd, ignore_errors=True)
    return ck.finish()


def replay(path):
    for e in common.run_driver(open(path).read(), "asan"):
        print(json.dumps(e)[:1000])
    return 0
