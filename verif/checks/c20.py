"""C20 compressed-integer codec: TLC on CompIntImpl (refines the CompInt contract), then every
enumerated input is replayed on the real functions at a guard page and the recorded trace is
validated by TLC against the contract (Trace_CompInt)."""
import os, random, itertools, json
from .. import common
from ..common import Check, Broken

ALPHA3 = [0x00, 0x01, 0x02, 0x07, 0x08, 0x7f, 0x80, 0x81, 0x82, 0x87, 0x88, 0xff]


def digits(v):
    out = []
    while v:
        out.append(v & 0x7F); v >>= 7
    return out


def gen_decode(tier, rnd):
    """(buf bytes, off, lim) families; the driver places buf[:lim] flush against a PROT_NONE page"""
    fam = []
    # all strings of length 1 and (class alphabet)^2,3 ; thorough: all 65536 strings of length 2
    for b in range(256):
        fam.append((bytes([b]), 0, 1))
    two = range(256) if tier == "thorough" else sorted(set(ALPHA3 + [0x03, 0x0f, 0x10, 0x40, 0x7e, 0x83, 0x8f, 0x90, 0xc0, 0xfe]))
    for a in two:
        for b in two:
            fam.append((bytes([a, b]), 0, 2))
    for t in itertools.product(ALPHA3, repeat=3):
        fam.append((bytes(t), 0, 3))
        fam.append((bytes(t), 1, 3))
        fam.append((bytes(t), 0, 2))
    # length 4..11: prefix patterns x every value class in the last three positions, every offset/limit
    prefixes = {"zero": 0x00, "max": 0x7f}
    for n in range(4, 12):
        for pname, pb in prefixes.items():
            for t in itertools.product(ALPHA3, repeat=3):
                buf = bytes([pb] * (n - 3)) + bytes(t)
                offs = [0, 1] if tier == "quick" else range(0, min(n, 4))
                for off in offs:
                    for lim in ((n, n - 1) if tier == "quick" else range(max(off + 1, n - 3), n + 1)):
                        if lim > off:
                            fam.append((buf, off, lim))
        # alternating and random prefixes
        for _ in range(20 if tier == "quick" else 200):
            buf = bytes(rnd.choice([0, 1, 0x7f, 0x55, 0x2a]) for _ in range(n - 3)) + bytes(rnd.choice(ALPHA3) for _ in range(3))
            off = rnd.randrange(0, n); lim = rnd.randrange(off + 1, n + 1)
            fam.append((buf, off, lim))
    # the cursor already AT or PAST the limit when the decoder is called (a caller that advanced it by a declared size first, as
    # the preface parser does with an optional element): nothing may be read, the call fails
    for n in (1, 2, 8, 11):
        for pat in (bytes([0x81] * n), bytes([0x00] * (n - 1) + [0x80]), bytes([0x7f] * n)):
            for lim in sorted({n, max(0, n - 1), 0}):
                for d in (0, 1, 2, 9, 10, 11, 24):
                    fam.append((pat, lim + d, lim))
    # boundary values of the int destination: 2^31-1, 2^31, 2^32-1, 2^32, 2^32+1, 2^63, 2^64-1 (canonical encodings)
    from ..ref import ci_enc
    for v in [2**31 - 1, 2**31, 2**32 - 1, 2**32, 2**32 + 1, 2**35 - 1, 2**35, 2**62, 2**63 - 1, 2**63, 2**64 - 1]:
        e = ci_enc(v)
        fam.append((e, 0, len(e)))
        fam.append((b"\x00" + e, 1, len(e) + 1))
        if len(e) > 1:
            fam.append((e, 0, len(e) - 1))
    fam.append((bytes([0] * 9 + [0x82]), 0, 10))      # 2^64: tenth byte 2
    fam.append((bytes([0x7f] * 9 + [0x81]), 0, 10))   # 2^64-1
    fam.append((bytes([0] * 10 + [0x80]), 0, 11))     # eleven bytes
    return fam


def gen_encode(tier, rnd):
    vals = set(range(0, 3000 if tier == "quick" else 1 << 21))
    for k in range(64):
        for d in (-1, 0, 1):
            v = (1 << k) + d
            if 0 <= v < (1 << 64):
                vals.add(v)
    vals.add((1 << 64) - 1)
    for _ in range(2000 if tier == "quick" else 50000):
        vals.add(rnd.getrandbits(64)); vals.add(rnd.getrandbits(rnd.randrange(1, 64)))
    return sorted(vals)


def run(tier):
    ck = Check("C20", tier)
    rnd = random.Random(common.seed())
    common.build("plain")
    # ---- R1: the implementation-shaped model refines the contract on every small input
    r = common.tlc("CompIntImpl", "MC_CompIntImpl.cfg" if tier != "thorough" else common.cfg_variant("MC_CompIntImpl.cfg", common.workdir("c20m"), MaxBuf=5), workers=8, timeout=2400, heap="12g")
    ck.require_ok("CompIntImpl", r)
    ck.add_tlc("CompIntImpl/MC_CompIntImpl.cfg", r, "Alphabet 10 byte classes, MaxBuf 4, both destination kinds, every offset/limit")
    # ---- R3/R2: replay the enumerated family on the real code, validate the trace with TLC
    fam = gen_decode(tier, rnd)
    vals = gen_encode(tier, rnd)
    lines = ["case c20 600"]
    for kind in ("size", "int"):
        for (buf, off, lim) in fam:
            lines.append("compint_dec %s hex:%s %d %d" % (kind, buf[:lim].hex(), off, lim))
    for v in vals:
        lines.append("compint_enc size %d" % v)
        if v < (1 << 31):
            lines.append("compint_enc int %d" % v)
    for v in (-1, -2, -(1 << 31)):
        lines.append("compint_enc int %d" % v)
    lines.append("end")
    # split over several driver processes (each its own case) to use the cores
    body = lines[1:-1]
    nproc = 8
    chunks = [body[i::nproc] for i in range(nproc)]
    scripts = ["case c20-%d 900\n%s\nend\n" % (i, "\n".join(c)) for i, c in enumerate(chunks)]
    evs = [e for part in common.run_driver_parallel(scripts, "plain") for e in part]
    trace = []
    script_of = []
    for e in evs:
        op = e["op"]
        if op == "compint_dec":
            buf = list(bytes.fromhex(e["hex"]))
            t = {"op": "dec", "kind": e["kind"], "buf": buf, "off": e["off"], "lim": e["max"]}
            if "crash" in e:
                t = {"op": "Crash", "what": "compint_dec", "kind": e["kind"], "buf": buf, "off": e["off"], "lim": e["max"], "sig": e["crash"]}
            else:
                t.update(ret=e["ret"], val=digits(int(e["val"])), len=e["len"] - e["off"] if e["ret"] else 0)
            trace.append(t); script_of.append("compint_dec %s hex:%s %d %d" % (e["kind"], e["hex"], e["off"], e["max"]))
            ck.case(("dec", e["kind"], e["hex"], e["off"], e["max"]))
        elif op == "compint_enc":
            v = int(e["val"])
            if v < 0:
                trace.append({"op": "encneg", "ret": e["ret"]})
            else:
                trace.append({"op": "enc", "kind": e["kind"], "val": digits(v), "ret": e["ret"], "len": e["len"],
                              "bytes": list(bytes.fromhex(e["hex"])), "dret": e["dret"], "dval": digits(int(e["dval"])), "dlen": e["dlen"]})
            script_of.append("compint_enc %s %s" % (e["kind"], e["val"]))
            ck.case(("enc", e["kind"], e["val"]))
        elif op in ("Crash", "Hang", "Garbled"):
            trace.append({"op": op, "what": "driver", "sig": e.get("sig", 0)}); script_of.append("# %s" % json.dumps(e))
    expect = 2 * len(fam) + len(vals) + sum(1 for v in vals if v < (1 << 31)) + 3
    if len(trace) < expect:
        trace.append({"op": "Crash", "what": "trace shorter than script: %d < %d" % (len(trace), expect)}); script_of.append("# truncated")
    ck.sample(trace[0]); ck.sample(trace[len(trace) // 2]); ck.sample(trace[-1])
    wd = common.workdir("c20")
    B = 30000
    paths = []
    for i in range(0, len(trace), B):
        p = os.path.join(wd, "t%d.ndjson" % (i // B)); common.write_ndjson(p, trace[i:i + B]); paths.append((i, p))
    results = common.validate_traces_parallel("Trace_CompInt", "Trace_CompInt.cfg", [p for _, p in paths])
    for (base, p), (ok, res) in zip(paths, results):
        ck.add_tlc("Trace_CompInt", res)
        ck.traces += 1
        if not ok:
            m = [x for x in res.out.splitlines() if "MATCHED" in x]
            k = int(m[-1].split(",")[1]) if m else 0
            bad = base + k
            # re-run the single failing call to make sure it repeats
            again = common.run_driver("case again 60\n%s\nend\n" % script_of[bad], "plain")
            ck.violation("trace event %d not explained by the CompInt contract: %s" % (bad, json.dumps(trace[bad])[:300]),
                         "case c20 60\n%s\nend\n" % script_of[bad], {"event": trace[bad], "rerun": again[1:2]})
    # ---- negative control: one corrupted result must be rejected
    good = [t for t in trace if t["op"] == "dec" and t.get("ret") == 1 and t["val"]][:50]
    if good and not ck.violations:
        bad = dict(good[-1]); bad["val"] = bad["val"][:-1] + [(bad["val"][-1] + 1) % 128 or 1]
        p = os.path.join(wd, "neg.ndjson"); common.write_ndjson(p, good[:-1] + [bad])
        ok, res = common.validate_trace("Trace_CompInt", "Trace_CompInt.cfg", p)
        if ok:
            raise Broken("negative control: a corrupted decode result was accepted by Trace_CompInt")
    ck.extra["rule"] = ("decode: every (buffer, offset, limit) of the enumerated family x {size,int}, buffer flush against a PROT_NONE page; "
                        "encode: value set; a case is one distinct call")
    ck.extra["trace_events"] = len(trace)
    ck.assumptions = ["guard page catches any read past the given limit", "TLC evaluates the CompInt contract correctly"]
    import shutil; shutil.rmtree(wd, ignore_errors=True)
    return ck.finish()


def replay(path):
    txt = open(path).read()
    evs = common.run_driver(txt, "plain")
    for e in evs:
        print(json.dumps(e))
    return 0
