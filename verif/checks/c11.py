"""C11 interrupted updates: the update procedure is killed at EVERY write system call to the target
(after 0, half or all of that call's bytes; exhaustive for small scenarios, sampled for large ones,
thorough: a second interruption during the resume), then resumed by a fresh process with fresh contexts
on the partially written target.  TLC validates the whole history against the Delta contract: after the
restart the scan trusts no partially written chunk (DScan), no chunk whose bytes were completely and
correctly on disk is requested again (DRound), and the update converges to B (DFinish)."""
import os, json, random, shutil
from .. import common, ref, corpus, delta, server, zckdltier
from ..common import Check, Broken
from .c02 import validate_segments
from .c04 import make_pair


def bases(rnd, tier):
    out = []
    def mk(nch, sizes, comp, dic=False):
        d = corpus.text(rnd, 30) if dic else b""
        cA = [d] + [corpus.text(rnd, rnd.choice(sizes)) for _ in range(nch)]
        cB = list(cA); cB[2] = corpus.text(rnd, rnd.choice(sizes)); cB.insert(4, corpus.rand(rnd, rnd.choice(sizes))); cB[-1] = corpus.text(rnd, rnd.choice(sizes))
        kw = dict(comp_type=comp, hash_type=1, chunk_hash_type=3, level=3)
        return ref.build_file(cA, **kw)[0], ref.build_file(cB, **kw)[0]
    A, B = mk(5, [30, 60, 120], 0); out.append(("small nocomp, limit 1, frag 7", A, B, b"", 1, 7, ""))
    out.append(("small nocomp, unlimited multipart, frag 16", A, B, b"", -1, 16, ""))
    A, B = mk(6, [40, 90], 2, True); out.append(("small zstd+dict, limit 2, frag 25", A, B, b"", 2, 25, "extra=1"))
    out.append(("small zstd+dict, old file as target, whole fragments", A, B, A, -1, 0, ""))
    A, B = mk(5, [33000, 40010, 500], 0); out.append(("multi-block chunks, limit 1, 16 KiB fragments", A, B, b"", 1, 16384, ""))
    out.append(("multi-block chunks, unlimited, 1000-byte fragments", A, B, corpus.rand(rnd, 1000), -1, 1000, ""))
    return out


def zckdl_scenarios(rnd):
    """(A, B, initial target or None, label)"""
    cA = [b""] + [corpus.text(rnd, n) for n in (300, 20000, 200, 500)] + [corpus.rand(rnd, 40000)]
    cB = [b""] + [cA[1], corpus.rand(rnd, 9000), cA[3], corpus.text(rnd, 150), cA[2]]
    kw = dict(comp_type=2, hash_type=1, chunk_hash_type=3, level=1)
    A = ref.build_file(cA, **kw)[0]; B = ref.build_file(cB, **kw)[0]
    assert len(A) > len(B)
    return [(A, B, None, "no target"), (A, B, A, "longer old file as target")]


def run(tier):
    ck = Check("C11", tier)
    rnd = random.Random(common.seed())
    common.build("plain")
    wd = common.workdir("c11")
    r = common.tlc("DeltaImpl", "MC_DeltaImpl.cfg" if tier != "thorough" else common.cfg_variant("MC_DeltaImpl.cfg", wd, NC=5, Local="{2, 4}", MaxCrash=3), workers=8, timeout=1800, heap="8g")
    ck.require_ok("DeltaImpl", r); ck.add_tlc("DeltaImpl/MC_DeltaImpl.cfg (PartialNeverValid, NoRefetch, Converges after up to 2 crashes at any step)", r)
    plans = []
    for bi, (name, A, B, T, limit, frag, opts) in enumerate(bases(rnd, tier)):
        # count the writes of an uninterrupted run
        sc0 = delta.Scenario("b%d-count" % bi, wd, B, T, sources=[A], limit=limit, frag=frag, fetch_opts=opts)
        sc0.write_files()
        L = sc0.script().splitlines(); L.insert(-1, "shim_stats")
        evs = common.run_driver("\n".join(L) + "\n", "plain")
        st = [e for e in evs if e["op"] == "shim_stats"]
        W = [f["wcalls"] for f in st[0]["fdstats"] if f["f"] == 0][0] if st else 0
        if W == 0:
            ck.notes.append("scenario skipped, the uninterrupted update wrote nothing on this tree: %s" % name); continue
        ks = list(range(1, W + 1))
        if W > 60 and tier == "quick":
            ks = sorted(rnd.sample(ks, 60))
        elif W > 400:
            ks = sorted(rnd.sample(ks, 400))
        for k in ks:
            for j in ((0, -1, None) if tier == "thorough" or k % 3 == 0 else (None,)):
                plans.append((bi, name, A, B, T, limit, frag, opts, k, j, W))
    scripts = []; meta = []
    for pi, (bi, name, A, B, T, limit, frag, opts, k, j, W) in enumerate(plans):
        cid = "k%d" % pi
        jj = j
        sc1 = delta.Scenario(cid + "-run", wd, B, T, sources=[A], limit=limit, frag=frag, fetch_opts=opts)
        sc1.write_files()
        sc2 = delta.Scenario(cid + "-resume", wd, B, T, sources=[A], limit=limit, frag=frag, fetch_opts=opts)
        sc2.tpath = sc1.tpath; sc2.bpath = sc1.bpath; sc2.spaths = sc1.spaths
        sc2.must = True          # the restart runs undisturbed against a well-behaved server: it has to converge
        # the kill: after j bytes of the k-th write (None = half of it: the shim clamps to the call's size)
        s1 = sc1.script().replace("dl_init 0 0\n", "dl_init 0 0\nshim_kill 0 %d %d\n" % (k, {0: 0, -1: -1, None: 3}[jj] if jj is not None else 0), 1) if False else None
        lines = sc1.script().splitlines()
        idx = lines.index("dl_init 0 0")
        half = -2
        lines.insert(idx + 1, "shim_kill 0 %d %d" % (k, 0 if jj == 0 else (-1 if jj == -1 else half)))
        s1 = "\n".join(lines) + "\n"
        scripts.append(s1 + sc2.script())
        meta.append((cid, sc1, sc2, "%s: killed at write %d/%d after %s bytes" % (name, k, W, {0: "0", -1: "all", None: "half"}[jj]), s1))
    nproc = 14
    parts = ["".join(scripts[i::nproc]) for i in range(nproc)]
    evs = [e for part in common.run_driver_parallel(parts, "plain", timeout=2400) for e in part]
    bycase = common.by_case(evs)
    trace = []; owner = []
    nkilled = 0
    for (cid, sc1, sc2, name, s1) in meta:
        c1 = bycase.get(sc1.cid, []); c2 = bycase.get(sc2.cid, [])
        t1 = delta.enrich(sc1, c1)
        killed = any(x["op"] == "killed" for x in t1)
        nkilled += killed
        # a round that was cut by the kill has no snapshot/valid facts: drop incomplete trailing events of run 1
        t1 = [x for x in t1 if x["op"] in ("begin", "start", "scan", "copy", "resetfailed", "round", "killed", "Crash", "Hang", "finish")]
        t2 = [x for x in delta.enrich(sc2, c2) if x["op"] != "begin"]
        if not any(x["op"] == "finish" for x in t2) and not any(x["op"] in ("Crash", "Hang") for x in t2):
            t2.append({"op": "Crash", "why": "resume did not finish"})
        for x in t1 + t2:
            x = dict(x); x["scenario"] = name
            trace.append(x); owner.append(cid)
        ck.case(name)
    # ---- the shipped downloader killed at its k-th write to the target, then simply run again
    bd = os.path.join(common.BUILD, "plain")
    zscripts = {}
    zk = 0
    for si, (A, B, T0, label) in enumerate(zckdl_scenarios(rnd)):
        hB = ref.parse_header(B)
        root = os.path.join(wd, "zsrv%d" % si); os.makedirs(root); open(os.path.join(root, "B.zck"), "wb").write(B)
        srv = server.start(root, max_ranges=2, piece=1000)
        url = "http://127.0.0.1:%d/B.zck" % srv.server_address[1]
        def fresh(tag):
            cwd = os.path.join(wd, "zcl%d-%s" % (si, tag)); os.makedirs(cwd)
            open(os.path.join(cwd, "A.zck"), "wb").write(A)
            if T0 is not None: open(os.path.join(cwd, "B.zck"), "wb").write(T0)
            return cwd
        # count the writes of an uninterrupted run
        cwd = fresh("count"); trf = os.path.join(cwd, "calls.ndjson")
        e = dict(os.environ); e.update({"ZV_ROLES": "tgt=B.zck", "ZV_TRACE": trf})
        import subprocess
        subprocess.run([os.path.join(bd, "zckdl"), "-s", "A.zck", url], cwd=cwd, env=e, stdout=subprocess.DEVNULL, stderr=subprocess.DEVNULL, timeout=60)
        W = len([1 for l in (open(trf) if os.path.exists(trf) else []) if '"k":"w"' in l and '"role":"tgt"' in l])
        # ftruncate is not a write: also kill "after the last write" by asking for write W+1 (never reached) -> plain run
        ks = list(range(1, W + 1))
        if tier == "quick" and len(ks) > 10:
            ks = sorted(set(rnd.sample(ks, 8) + [W, W - 1, 1, 2]))
        for k in ks:
            # (the first two writes carry the header: a kill inside them leaves 1, 24, 39 bytes - less than a lead - or half of it)
            for j in ((-1, 0) if (tier == "thorough" or k >= W - 1) else (-1,)) + ((1, 24, 39, -2) if k <= 2 and (tier == "thorough" or si % 2 == 0) else ()):
                cwd = fresh("k%d_%d" % (k, j + 1))
                del srv.log[:]
                # (not exercised: C04/C11 do not quantify over the process environment, and the shipped tool itself writes its
                # progress lines into the target when it is started without descriptor 1 - DESIGN.md section 13)
                nofd, srcn = (), "A.zck"
                st1 = zckdltier.run_zckdl(bd, cwd, url, src=srcn, kill=(k, j), nofd=nofd)
                mid = open(os.path.join(cwd, "B.zck"), "rb").read() if os.path.exists(os.path.join(cwd, "B.zck")) else b""
                r1 = server.requested_ranges(srv.log, "B.zck"); del srv.log[:]
                twice = None
                if j == -1 and (k % 3 == 0 or tier == "thorough"):
                    # repeated interruptions: the restart is killed too (at its 1st .. 4th write to the target), and only the
                    # third run is left alone
                    k2 = 1 + (k + si) % 4
                    stb = zckdltier.run_zckdl(bd, cwd, url, src=srcn, kill=(k2, -2 if k % 2 else -1), nofd=nofd)
                    midb = open(os.path.join(cwd, "B.zck"), "rb").read() if os.path.exists(os.path.join(cwd, "B.zck")) else b""
                    rb_ = server.requested_ranges(srv.log, "B.zck"); del srv.log[:]
                    twice = (mid, midb, rb_, stb, k2); mid = midb
                    ck.extra["zckdl_restarts_killed_too"] = ck.extra.get("zckdl_restarts_killed_too", 0) + 1
                st2 = zckdltier.run_zckdl(bd, cwd, url, src=srcn, nofd=nofd)
                fin = open(os.path.join(cwd, "B.zck"), "rb").read() if os.path.exists(os.path.join(cwd, "B.zck")) else b""
                r2 = server.requested_ranges(srv.log, "B.zck")
                cid = "zk%d" % zk; zk += 1
                name = "zckdl %s%s: killed at target write %d/%d after %s bytes, then run again" % (label, (" (started without descriptors %s%s)" % (",".join(map(str, nofd)), "" if srcn else ", no local source")) if nofd else "", k, W, "all" if j == -1 else ("half the" if j == -2 else str(j)))
                Ause = A if srcn else None
                ev1 = zckdltier.tool_event(B, hB, Ause, T0 or b"", twice[0] if twice else mid, r1, 99 if st1 == 99 else (st1 if isinstance(st1, int) else 98))
                if twice:
                    name += ", the restart killed at its write %d" % twice[4]
                ev2 = zckdltier.tool_event(B, hB, Ause, mid, fin, r2, st2, must=True)          # the restart runs undisturbed: it has to converge
                for ev in (ev1, ev2):
                    ev["name"] = name
                trace.append({"op": "begin", "name": name, "scenario": name}); owner.append(cid)
                trace.append(dict(ev1, scenario=name)); owner.append(cid)
                if twice:
                    evb = zckdltier.tool_event(B, hB, Ause, twice[0], twice[1], twice[2], 99 if twice[3] == 99 else (twice[3] if isinstance(twice[3], int) else 98))
                    evb["name"] = name
                    trace.append(dict(evb, scenario=name, restarted=True)); owner.append(cid)
                trace.append(dict(ev2, scenario=name, restarted=True)); owner.append(cid)
                zscripts[cid] = ("# ZV_ROLES=tgt=B.zck ZV_KILL=tgt:%d:%d zckdl -s A.zck <url> ; then zckdl -s A.zck <url>\n" % (k, j), name, [os.path.join(root, "B.zck"), (os.path.join(cwd, "A.zck"), A), (os.path.join(cwd, "B.zck.initial"), T0 or b"")])
                ck.case(name)
        srv.shutdown(); srv.server_close()
    ck.extra["zckdl_kill_points"] = zk
    ck.extra["kill_points"] = len(meta); ck.extra["actually_killed"] = nkilled
    ck.sample({"scenario": meta[len(meta) // 2][3], "trace": [ {k: v for k, v in t.items() if k in ("op", "vec", "X", "disk")} for t, o in zip(trace, owner) if o == meta[len(meta) // 2][0]][:12]})
    sb = {m[0]: (scripts[i], m[3], delta.replay_files(m[1])) for i, m in enumerate(meta)}; sb.update(zscripts)
    validate_segments(ck, "C11", trace, owner, wd, scripts_by=sb, module="Trace_Delta", cfg="Trace_Delta.cfg", start_ops=("begin",))
    if nkilled < len(meta) // 2:
        raise Broken("only %d of %d kill points fired" % (nkilled, len(meta)))
    if not ck.violations:
        neg = [{"op": "begin"}, {"op": "start", "n": 3, "disk": [True, True, False]}, {"op": "scan", "vec": [1, 1, -1], "disk": [True, True, False], "sized": [False, True, True], "ret": -1},
               {"op": "resetfailed", "vec": [1, 1, 0]}, {"op": "killed"}, {"op": "start", "n": 3, "disk": [True, True, False]},
               {"op": "scan", "vec": [1, -1, -1], "disk": [True, True, False], "sized": [False, True, True], "ret": -1}]
        p = os.path.join(wd, "neg.ndjson"); common.write_ndjson(p, neg)
        ok, res = common.validate_trace("Trace_Delta", "Trace_Delta.cfg", p)
        if ok:
            raise Broken("negative control: a complete chunk distrusted after restart was accepted")
    ck.extra["rule"] = "one case = (scenario, k-th write to the target, bytes of that write that reach the disk before the kill), resumed to completion"
    ck.assumptions = ["completed writes persist in order (no power-loss reordering)", "kill = _exit inside the write wrapper after a prefix of the call's bytes"]
    shutil.rmtree(wd, ignore_errors=True)
    return ck.finish()


def replay(path):
    for e in common.run_driver(open(path).read(), "plain"):
        print(json.dumps(e)[:1000])
    return 0
