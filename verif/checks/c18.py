"""C18 checksum backends: the library sources are built twice (OpenSSL backend and bundled SHA code).
TLC enumerates the (digest type, length class around block/padding boundaries, segmentation) cases
(MC_HashCases); they, all lengths 0..300 in one call and byte by byte, and random long messages with
random segmentations are digested by BOTH builds through the library's own hash_init/update/finalize;
Python's hashlib supplies the standard value.  Then each build writes files that the other validates and
reads, and the files must be byte-identical.  TLC validates the trace against HashIface."""
import os, json, random, shutil, hashlib
from .. import common, ref, corpus, writegen, readtrace
from ..common import Check, Broken


def std(t, data):
    return ref.digest(t, data).hex()


def run(tier):
    ck = Check("C18", tier)
    rnd = random.Random(common.seed())
    common.build("plain"); common.build("bundled")
    wd = common.workdir("c18")
    r = common.tlc("MC_HashCases", "MC_HashCases.cfg", workers=1, timeout=300)
    ck.require_ok("MC_HashCases", r); ck.add_tlc("MC_HashCases (case enumeration)", r)
    cases = [(c["t"], c["len"], sorted(c["cuts"])) for c in common.tlc_printed_json(r, "CASE")]
    if len(cases) < 1000:
        raise Broken("MC_HashCases printed only %d cases" % len(cases))
    if tier == "quick":
        cases = rnd.sample(cases, 700)
    for t in range(4):
        for n in range(0, 301 if tier == "thorough" else 200):
            cases.append((t, n, []))
            if n and (tier == "thorough" or n % 3 == 0):
                cases.append((t, n, list(range(1, n))))          # one byte per update
        for _ in range(10 if tier == "quick" else 100):
            n = rnd.choice([1000, 4096, 65536, 100001, 300000])
            cases.append((t, n, sorted(rnd.sample(range(1, n), rnd.randrange(0, 12)))))
        for n in (55, 56, 63, 64, 111, 112, 119, 120, 127, 128, 129, 191, 192, 255, 256):
            for _ in range(3):
                cases.append((t, n, sorted(rnd.sample(range(1, n), rnd.randrange(1, 4)))))
            cases.append((t, n, [n - 28] if n > 28 else []))
    stream = bytes(rnd.getrandbits(8) for _ in range(300000))
    msgf = os.path.join(wd, "stream.bin"); open(msgf, "wb").write(stream)
    lines = []
    for i, (t, n, cuts) in enumerate(cases):
        off = (i * 7919) % 1000
        lines.append("hash %d file:%s:%d:%d %s" % (t, msgf, off, n, ",".join(map(str, cuts)) if cuts else "-"))
    nproc = 8
    scripts = ["case h%d 600\n%s\nend\n" % (k, "\n".join(lines[k::nproc])) for k in range(nproc)]
    trace = []
    for backend in ("plain", "bundled"):
        evs = [e for part in common.run_driver_parallel(scripts, backend, timeout=1200) for e in part]
        hs = {}
        for k in range(nproc):
            part = [e for e in evs if e.get("case") == "h%d" % k and e["op"] == "hash"]
            for j, e in enumerate(part):
                hs[k + j * nproc] = e
        if any(e["op"] in ("Crash", "Hang") for e in evs):
            trace.append({"op": "Crash", "backend": backend})
        for i, (t, n, cuts) in enumerate(cases):
            e = hs.get(i)
            off = (i * 7919) % 1000
            data = stream[off:off + n]
            if e is None or e.get("ret") != 1:
                trace.append({"op": "Crash", "backend": backend, "why": "no digest", "case": [t, n, cuts[:5]]}); continue
            trace.append({"op": "digest", "backend": "openssl" if backend == "plain" else "bundled", "t": t, "msg": "%d+%d" % (off, n), "hex": e["digest"], "std": std(t, data),
                          "dsize": e["dsize"], "nseg": e["nseg"]})
            ck.case((backend, t, n, tuple(cuts[:6]), len(cuts)))
    # ---- messages whose length in bits does not fit 32 bits (512 MiB and more): zeros, fed in 16 MiB updates; quick: SHA-256 and
    # SHA-512/128, thorough: also SHA-512 and a length above 2^32 bits by more than a block
    import hashlib
    def zstd_digest(t, n):
        hh = hashlib.new({0: "sha1", 1: "sha256", 2: "sha512", 3: "sha512"}[t]); z = bytes(1 << 22); left = n
        while left:
            k = min(left, len(z)); hh.update(z[:k]); left -= k
        d = hh.hexdigest(); return d[:32] if t == 3 else d
    bigs = [(1, 2**29 + 17), (3, 2**29 + 17)] + ([(2, 2**29 + 17), (0, 2**29 + 17), (1, 2**29 + 2**20 + 55)] if tier == "thorough" else [])
    bscript = "case big 900\n" + "".join("hash %d zero:%d %s\n" % (t, n, ",".join(str(k << 24) for k in range(1, (n >> 24) + 1))) for t, n in bigs) + "end\n"
    for backend in ("plain", "bundled"):
        bev = [e for e in common.run_driver(bscript, backend, timeout=1500) if e["op"] in ("hash", "Crash", "Hang")]
        for (t, n), e in zip(bigs, bev + [{"op": "Crash"}] * len(bigs)):
            if e["op"] != "hash" or e.get("ret") != 1:
                trace.append({"op": "Crash", "backend": backend, "why": "no digest", "case": [t, n]}); continue
            trace.append({"op": "digest", "backend": "openssl" if backend == "plain" else "bundled", "t": t, "msg": "zeros:%d" % n, "hex": e["digest"], "std": zstd_digest(t, n),
                          "dsize": e["dsize"], "nseg": e["nseg"]})
            ck.case((backend, t, n, "zeros"))
    ck.sample(trace[0]); ck.sample(trace[len(trace) // 2])
    # ---- cross-build files
    ncross = 0
    for i in range(6 if tier == "quick" else 30):
        cfg = writegen.config(rnd, True); cfg["manual"] = rnd.random() < 0.5
        if cfg.get("uncomp") and cfg["chunk"] in (0, 3): cfg["chunk"] = 1
        D = writegen.content(rnd, rnd.choice(["text", "rand", "mixed"]), rnd.choice([100, 5000, 70000]))
        src = os.path.join(wd, "x%d.in" % i); open(src, "wb").write(D)
        outs = {}
        for backend in ("plain", "bundled"):
            out = os.path.join(wd, "x%d.%s.zck" % (i, backend))
            L = ["case x%d 120" % i, "ctx 0", "open 0 %s rwt" % out, "init_write 0 0"] + writegen.cfg_lines(cfg, 0, wd, "x") + ["write 0 file:%s" % src, "close 0", "free 0", "end"]
            common.run_driver("\n".join(L) + "\n", backend)
            outs[backend] = out
        a = open(outs["plain"], "rb").read() if os.path.exists(outs["plain"]) else b"a"
        b = open(outs["bundled"], "rb").read() if os.path.exists(outs["bundled"]) else b"b"
        ok_val = True; ok_read = True
        for (reader, path) in (("bundled", outs["plain"]), ("plain", outs["bundled"])):
            sink = os.path.join(wd, "x%d.%s.out" % (i, reader))
            evs = common.run_driver(readtrace.read_script("r", path, sink, [65536] * (len(D) // 65536 + 3), pre=("validate_checksums 0",)), reader)
            v = [e for e in evs if e["op"] == "validate_checksums"]; c = [e for e in evs if e["op"] == "close"]
            ok_val = ok_val and bool(v and v[0]["ret"] == 1)
            got = open(sink, "rb").read() if os.path.exists(sink) else None
            ok_read = ok_read and (got == D) and bool(c and c[0]["ret"] == 1)
        trace.append({"op": "crossfile", "sameBytes": a == b, "otherValidates": ok_val, "otherReadsSame": ok_read, "cfg": json.dumps(cfg, default=str)})
        ncross += 1; ck.case(("cross", i))
    ck.extra["digests"] = len([t for t in trace if t["op"] == "digest"]); ck.extra["cross_files"] = ncross
    B = 30000
    paths = []
    # keep digests of the same message in the same trace (both backends): sort by msg
    dig = sorted([t for t in trace if t["op"] == "digest"], key=lambda x: (x["t"], x["msg"]))
    rest = [t for t in trace if t["op"] != "digest"]
    allt = dig + rest
    for i in range(0, len(allt), B):
        p = os.path.join(wd, "t%d.ndjson" % i); common.write_ndjson(p, allt[i:i + B]); paths.append((i, p))
    for (base, p), (ok, res) in zip(paths, common.validate_traces_parallel("Trace_Hash", "Trace_Hash.cfg", [p for _, p in paths])):
        ck.add_tlc("Trace_Hash", res); ck.traces += 1
        if not ok:
            m = [x for x in res.out.splitlines() if "MATCHED" in x]
            k = int(m[-1].split(",")[1]) if m else 0
            ev = allt[min(base + k, len(allt) - 1)]
            ck.violation("not explained by HashIface: %s" % json.dumps(ev)[:500], "# digest case: %s\n" % json.dumps(ev), {"event": ev})
    if not ck.violations and dig:
        bad = dict(dig[0]); bad["hex"] = "00" + bad["hex"][2:]
        p = os.path.join(wd, "neg.ndjson"); common.write_ndjson(p, [bad])
        ok, res = common.validate_trace("Trace_Hash", "Trace_Hash.cfg", p)
        if ok:
            raise Broken("negative control: a wrong digest was accepted")
    ck.extra["rule"] = "one case = (backend, digest type, message length, segmentation into update calls) or one cross-build file"
    ck.assumptions = ["equality with the standard algorithms is decided by agreement with Python's hashlib, not by TLA+ (DESIGN.md section 9)",
                      "the two builds are the harness's own compilations of the repository sources with and without -DZCHUNK_OPENSSL (same source selection as src/lib/hash/meson.build)"]
    shutil.rmtree(wd, ignore_errors=True)
    return ck.finish()


def replay(path):
    print(open(path).read())
    return 0
