"""C15 a unit-decoded chunk is verified before any of its bytes are released: every single-bit flip
of every body byte of small zstd files (those that still decompress and those that do not) is read with
buffer sizes below / equal to / above the chunk size, the bad chunk being first, middle or last; plus
the history "validate the intact file, damage it through another descriptor, then read".  TLC validates
each trace against the Reader contract (a successful read never returns a byte of a chunk whose stored
bytes do not match its checksum, nor do later reads)."""
import os, json, random, shutil
from .. import common, ref, corpus, readtrace
from ..common import Check, Broken
from .c02 import validate_segments


def zstd_files(rnd):
    out = []
    for dic in (False, True):
        for flags in (0, 4):
            d = corpus.text(rnd, 30) if dic else b""
            chunks = [d] + [corpus.text(rnd, n) for n in (90, 40, 120)]
            buf, stored = ref.build_file(chunks, comp_type=2, hash_type=1, chunk_hash_type=1 if flags else 3, flags=flags, level=3)
            out.append(("z-d%d-f%d" % (int(dic), flags), buf, chunks))
    # repeated identical chunks (one checksum several times in the index): every copy is verified on its own
    rep = corpus.text(rnd, 90)
    chunks = [b""] + [rep, corpus.text(rnd, 40), rep, corpus.text(rnd, 70), rep]
    out.append(("z-dup", ref.build_file(chunks, comp_type=2, hash_type=1, chunk_hash_type=3, level=3)[0], chunks))
    chunks = [b""] + [corpus.text(rnd, n) for n in (90, 40, 120)]
    out.append(("z-padded", ref.build_file(chunks, comp_type=2, hash_type=1, chunk_hash_type=3, level=3, pad=9)[0], chunks))
    return out


def run(tier):
    ck = Check("C15", tier)
    rnd = random.Random(common.seed())
    common.build("plain")
    wd = common.workdir("c15")
    for cfgname in ("MC_ReaderUnit.cfg",):
        r = common.tlc("ReaderImpl", cfgname if tier != "thorough" else common.cfg_variant(cfgname, wd, MaxCalls=5), workers=8, timeout=1800, heap="8g")
        ck.require_ok("ReaderImpl/" + cfgname, r); ck.add_tlc("ReaderImpl/" + cfgname + " (NoReleaseBeforeVerify, HistoryIndependence, SequentialPrefix, EveryCallReturns)", r, "3 chunks x 3 cells, statuses ok/flip/undec, reads 1..4, chunk requests, 4 calls")
    files = zstd_files(rnd)
    cases = []   # (name, path-bytes, sizes, pre-lines, rf)
    ndec = 0
    for (fname, buf, chunks) in files:
        h = ref.parse_header(buf)
        positions = []
        for p in range(h.hdr_total, len(buf)):
            for bit in range(8):
                positions.append((p, bit))
        if tier == "quick":
            positions = rnd.sample(positions, 260)
        for (p, bit) in positions:
            b = bytearray(buf); b[p] ^= 1 << bit; b = bytes(b)
            rf = ref.RefFile(b)
            # which chunk was hit and its size
            hit = [i for i, e in enumerate(h.entries) if h.hdr_total + e["start"] <= p < h.hdr_total + e["start"] + e["clen"]]
            ci = hit[0] if hit else 1
            if rf.chunks[ci]["decodes"]:
                ndec += 1
            csz = h.entries[ci]["ulen"] or 1
            styles = [[1] * 400, [csz - 1 or 1] * 20, [csz] * 12, [csz + 1] * 12, [100000] * 3, [7] * 80, [csz // 2 or 1] * 30]
            for st in (styles if tier == "thorough" else rnd.sample(styles, 3)):
                cases.append(("%s-flip%d.%d-r%d" % (fname, p, bit, st[0]), b, st, (), rf, None))
    # history: validate the intact file (every chunk is marked valid), then damage it through another
    # descriptor, then read: a remembered verdict must not replace the check of the bytes actually read
    for (fname, buf, chunks) in files:
        h = ref.parse_header(buf)
        for ci in range(1, len(h.entries)):
            p = h.hdr_total + h.entries[ci]["start"] + h.entries[ci]["clen"] // 2
            b = bytearray(buf); b[p] ^= 0x04; b = bytes(b)
            rf = ref.RefFile(b)
            for st in ([100000] * 3, [1] * 400, [h.entries[ci]["ulen"]] * 12):
                cases.append(("%s-revalidate-c%d-r%d" % (fname, ci, st[0]), buf, st,
                              ("validate_checksums 0", "open 1 {path} rw", "pwrite 1 %d hex:%02x" % (p, b[p]), "closefd 1"), rf, None))
                cases.append(("%s-readthendamage-c%d-r%d" % (fname, ci, st[0]), buf, st,
                              ("chunk_data 0 %d -1" % ci, "open 1 {path} rw", "pwrite 1 %d hex:%02x" % (p, b[p]), "closefd 1",
                               "free 0", "ctx 0", "open 0 {path} r", "init_read 0 0"), rf, "reopen"))
    scripts = []; meta = []
    for i, (name, b, sizes, pre, rf, mode) in enumerate(cases):
        cid = "k%d" % i
        path = os.path.join(wd, cid + ".zck"); open(path, "wb").write(b)
        sink = os.path.join(wd, cid + ".out")
        pre2 = [x.replace("{path}", path) for x in pre]
        if mode == "reopen":
            # the first context's output goes to a different sink
            lines = ["case %s 30" % cid, "ctx 0", "open 0 %s r" % path, "sink 0 %s.pre" % sink, "init_read 0 0"] + pre2[:-3] + \
                    ["ctx 0", "open 0 %s r" % path, "sink 0 %s" % sink, "init_read 0 0"] + ["read 0 %d" % n for n in sizes] + ["close 0", "end"]
            scr = "\n".join(lines) + "\n"
        else:
            scr = readtrace.read_script(cid, path, sink, sizes, pre=pre2)
        scripts.append(scr); meta.append((cid, name, path, sink, rf, mode))
    # allocation failures: reads of files with a damaged chunk that still decompresses while every allocation made by zchunk's
    # own code is refused in turn (once / from there on): a read may fail, no byte of the damaged chunk may be released
    from .. import allocfault
    nsweep = 0; seen_files = {}
    for i, (name, b, sizes, pre, rf, mode) in list(enumerate(cases)):
        fkey = name.split("-flip")[0]
        if "-flip" not in name or pre or seen_files.get(fkey, 0) >= (2 if tier == "quick" else 6) or sizes[0] not in (100000,) + tuple(e["ulen"] for e in rf.h.entries):
            continue
        bad = [c for c in rf.chunks[1:] if c["present"] and not c["digest_ok"] and c["decodes"]]
        if not bad:
            continue
        seen_files[fkey] = seen_files.get(fkey, 0) + 1
        path = meta[i][2]
        base = readtrace.read_script("k%d-afbase" % i, path, os.path.join(wd, "k%d-afbase.out" % i), sizes)
        na, _ev = allocfault._count(base)
        for k in range(1, na + 1):
            for ln in (1, 100000):
                cid = "k%d-a%d-%d" % (i, k, ln); sink = os.path.join(wd, cid + ".out")
                scripts.append(allocfault._arm(readtrace.read_script(cid, path, sink, sizes), k, ln))
                meta.append((cid, name + ", allocation %d of %d refused%s" % (k, na, "" if ln == 1 else " and every later one"), path, sink, rf, "alloc")); nsweep += 1
    ck.extra["allocation_sweep_runs"] = nsweep
    nproc = 12
    parts = ["".join(scripts[i::nproc]) for i in range(nproc)]
    evs = [e for part in common.run_driver_parallel(parts, "plain", timeout=2400) for e in part]
    bycase = common.by_case(evs)
    trace = []; owner = []
    for (cid, name, path, sink, rf, mode) in meta:
        ce = bycase.get(cid, [])
        if mode == "alloc":
            ce = [({"op": "abort"} if e["op"] == "Crash" else e) for e in ce]
        if mode == "reopen":
            # keep only the second execution (after the second init_read)
            idx = [j for j, e in enumerate(ce) if e["op"] == "init_read"]
            ce = ce[idx[-1]:] if idx else ce
        t = readtrace.enrich(ce, sink, rf)
        if mode == "alloc" and any(e["op"] == "abort" for e in ce):
            t.append({"op": "abort"})
        if not t or t[0]["op"] != "open":
            t = [{"op": "open", "f": readtrace.facts(rf), "ret": 0}] + ([{"op": "Crash", "why": "no events"}] if mode != "alloc" else t)
        for x in t:
            trace.append(x); owner.append(cid)
        ck.case(name)
    ck.extra["flips_that_still_decompress"] = ndec; ck.extra["cases"] = len(meta)
    ck.sample({"case": meta[0][1], "trace": [t for t, o in zip(trace, owner) if o == meta[0][0]][:6]})
    ck.sample({"case": meta[-1][1], "trace": [t for t, o in zip(trace, owner) if o == meta[-1][0]][:6]})
    validate_segments(ck, "C15", trace, owner, wd, scripts_by={m[0]: (scripts[i], m[1], m[2]) for i, m in enumerate(meta)})
    if not ck.violations:
        neg = [{"op": "open", "f": {"valid": False, "total": 3, "unit": True, "cok": [True, False], "dataok": False, "detached": False}, "ret": 1},
               {"op": "read", "n": 1, "ret": 1, "eq": True, "bad": True}]
        p = os.path.join(wd, "neg.ndjson"); common.write_ndjson(p, neg)
        ok, res = common.validate_trace("Trace_Reader", "Trace_Reader.cfg", p)
        if ok:
            raise Broken("negative control: release of a byte of an unverified chunk was accepted")
    ck.extra["rule"] = "one case = (zstd file, bit flip in a chunk body or damage-after-validation history, read buffer-size sequence)"
    ck.assumptions = ["returned bytes are attributed to chunks through the index's declared sizes", "reference verdict per chunk = hashlib digest of the stored bytes"]
    shutil.rmtree(wd, ignore_errors=True)
    return ck.finish()


def replay(path):
    for e in common.run_driver(open(path).read(), "plain"):
        print(json.dumps(e)[:1000])
    return 0
