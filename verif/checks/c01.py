"""C01 round trip: TLC exhausts the chunker model (WriterImpl: tiling, min/max, segmentation
independence, termination) and the zck tool's split-string scanner model (ZckTool); then seeded
(content x configuration x write segmentation x descriptor situation) runs of the real writer are
checked by the reference codec and read back under several buffer-size sequences, and the zck / unzck
tools are run end to end (including split strings at every alignment of the 32 KiB read blocks, with the
input delivered in capped reads).  TLC validates all traces against the Writer contract."""
import os, json, random, shutil, subprocess
from concurrent.futures import ThreadPoolExecutor
from .. import common, ref, corpus, readtrace, writegen
from ..common import Check, Broken
from .c02 import validate_segments


def models(ck, tier):
    r = common.tlc("MC_ZckTool", "MC_ZckTool.cfg" if tier != "thorough" else common.cfg_variant("MC_ZckTool.cfg", common.workdir("c01m"), MaxLen=7), workers=8, timeout=1800, heap="8g")
    ck.require_ok("ZckTool", r); ck.add_tlc("ZckTool/MC_ZckTool.cfg", r, "alphabet {a,b,x}, split strings a, ab, aba, aab, inputs <= 6, blocks 1..3")
    for cfg in ("MC_WriterAuto.cfg", "MC_WriterManual.cfg", "MC_WriterAutoTight.cfg", "MC_WriterAutoBigMin.cfg"):
        r = common.tlc("MC_WriterImpl", cfg if tier != "thorough" else common.cfg_variant(cfg, common.workdir("c01m"), MaxLen=8), workers=8, timeout=1800, heap="8g")
        ck.require_ok("WriterImpl/" + cfg, r); ck.add_tlc("WriterImpl/" + cfg, r)
    # the assumption of the chunker model: no byte value whose constant window matches the mask
    import re
    src = open(os.path.join(common.REPO, "src/lib/buzhash/buzhash.c")).read()
    tab = [int(x, 16) for x in re.findall(r"0x([0-9a-f]{8})", src)][:256]
    if len(tab) == 256:
        def rol(v, s):
            s %= 32
            return v if s == 0 else ((v << s) | (v >> (32 - s))) & 0xffffffff
        for x in range(256):
            h = 0
            for r_ in range(16, 32):
                h ^= rol(tab[x], r_)
            if h & 0x7fff == 0:
                ck.notes.append("constant window of byte %d matches the mask: the refused-cut loop can repeat" % x)


def writer_case(rnd, i, wd, tier):
    small = rnd.random() < 0.6
    cls = rnd.choice(["empty", "one", "rep", "rand", "text", "mixed", "split", "text", "rand"])
    n = rnd.choice([2, 10, 300, 5000]) if small else rnd.choice([40000, 131072, 200001, 600000 if tier == "thorough" else 300000])
    cfg = writegen.config(rnd, small)
    if cfg.get("max", 1 << 30) < 100 and n > 20000:
        n = 20000          # hundreds of thousands of one-byte chunks terminate, but not within a watchdog's patience under ASan
    D = writegen.content(rnd, cls, n)
    if cfg.get("uncomp") and cfg["chunk"] in (0, 3):
        cfg["chunk"] = 1
    style = rnd.choice(["whole", "prime", "blk", "mix"] + (["one"] if len(D) <= 3000 else []))
    seg = writegen.segmentation(rnd, len(D), style)
    fdmode = rnd.choice([0, 0, 0, 1, 3])
    return D, cfg, seg, fdmode, cls


def run(tier):
    ck = Check("C01", tier)
    rnd = random.Random(common.seed())
    bd = common.build("plain")
    wd = common.workdir("c01")
    models(ck, tier)
    ncase = 90 if tier == "quick" else 700
    scripts = []; meta = []; nowrite = []
    for i in range(ncase):
        D, cfg, seg, fdmode, cls = writer_case(rnd, i, wd, tier)
        cid = "w%d" % i
        src = os.path.join(wd, cid + ".in"); open(src, "wb").write(D)
        out = os.path.join(wd, cid + ".zck")
        lines = ["case %s 45" % cid]
        # descriptors 0..fdmode-1 are closed before the output is opened (the output gets a low number) or, every second
        # time, after it (the library's temporary file gets descriptor 0)
        if fdmode and i % 2 == 0:
            lines.append("closelow %d" % fdmode)
        lines += ["ctx 0", "open 0 %s rwt" % out]
        if fdmode and i % 2 == 1:
            lines.append("closelow %d" % fdmode)
        lines += ["init_write 0 0"] + writegen.cfg_lines(cfg, 0, wd, cid)
        if i % 3 == 1:
            # option calls that are refused (minimum above the maximum, maximum below the minimum, a negative minimum), the
            # error cleared, and the writer used on: a refused call must leave nothing behind
            mx = cfg.get("max", 10485760); mn = cfg.get("min", 1)
            rej = [["ioption 0 %d %d" % (writegen.OPT["min"], mx + 1)], ["ioption 0 %d %d" % (writegen.OPT["max"], mn - 1)] if mn > 1 else ["ioption 0 %d -1" % writegen.OPT["min"]],
                   ["ioption 0 %d -1" % writegen.OPT["min"], "clear_error 0", "ioption 0 %d %d" % (writegen.OPT["min"], mx + 7)],
                   # options that do not exist, values that are not allowed, options of the reading side on a writer
                   ["ioption 0 50 1", "clear_error 0", "ioption 0 999 1", "clear_error 0", "ioption 0 5 7", "clear_error 0", "ioption 0 3 -1", "clear_error 0", "ioption 0 2 1", "clear_error 0", "ioption 0 %d 0" % writegen.OPT["max"]],
                   ["ioption 0 5 0", "ioption 0 1001 3", "clear_error 0", "ioption 0 100 77"],
                   # checksum types the library does not know, as chunk and as overall type: the type in force stays what it was
                   ["ioption 0 1 77", "clear_error 0", "ioption 0 0 4"],
                   ["ioption 0 0 77", "clear_error 0", "ioption 0 1 260", "clear_error 0", "ioption 0 1 -1"]][(i // 3) % 7]
            lines += rej + ["clear_error 0"]
        pos = 0; cuts = []
        for k in seg:
            lines.append("write 0 file:%s:%d:%d" % (src, pos, k)); pos += k
            if cfg.get("manual") and rnd.random() < 0.3:
                lines.append("end_chunk 0"); cuts.append(pos)
        lines += ["close 0", "free 0", "closefd 0"]
        if i % 5 == 0:
            # the same writes as a header-only run (ZCK_NO_WRITE): nothing reaches the output, the header is computed in memory
            nw = out + ".nowrite"; nwh = out + ".nowrite.hdr"
            lines += ["echo nowrite", "ctx 2", "open 2 %s rwt" % nw, "init_write 2 2"] + [l.replace(" 0 ", " 2 ", 1) for l in writegen.cfg_lines(cfg, 0, wd, cid)] + ["ioption 2 5 1"]
            lines += [l.replace("write 0 ", "write 2 ").replace("end_chunk 0", "end_chunk 2") for l in lines if l.startswith("write 0 ") or l == "end_chunk 0"]
            lines += ["close 2", "dump_header 2 %s" % nwh, "free 2", "closefd 2"]
        # read back under several buffer-size sequences
        styles = rnd.sample(["one", "seven", "mix", "blk", "big"], 2 if tier == "quick" else 4)
        sinks = []
        for j, st in enumerate(styles):
            if st in ("one", "seven") and len(D) > 4000:
                st = "mix"
            sink = os.path.join(wd, "%s.rb%d" % (cid, j)); sinks.append(sink)
            lines += ["echo readback", "ctx 1", "open 1 %s r" % out, "sink 1 %s" % sink, "init_read 1 1", "validate_checksums 1"]
            lines += ["read 1 %d" % n for n in readtrace.read_sizes(rnd, len(D), st)]
            lines += ["close 1", "free 1", "closefd 1"]
        lines.append("end")
        scripts.append("\n".join(lines) + "\n"); meta.append((cid, D, cfg, seg, fdmode, cls, out, sinks, cuts))
    nproc = 12
    parts = ["".join(scripts[i::nproc]) for i in range(nproc)]
    evs = [e for part in common.run_driver_parallel(parts, "plain", timeout=3000) for e in part]
    bycase = common.by_case(evs)
    # the same runs under ASan/UBSan (another allocator, poisoned freed/shrunk memory) for the configurations with
    # the less common overall checksum types and a sample of the rest: behaviour must not depend on the allocator
    common.build("asan")
    sel = [i for i, m in enumerate(meta) if m[2]["full"] in (2, 3) or i % 6 == 0]
    ascripts = []
    for i in sel:
        cid = meta[i][0]
        s_ = scripts[i].replace("case %s " % cid, "case %sA " % cid).replace(meta[i][6], meta[i][6] + ".asan")
        for sk in meta[i][7]:
            s_ = s_.replace(sk, sk + ".asan")
        ascripts.append(s_)
        m = meta[i]
        meta.append((cid + "A", m[1], m[2], m[3], m[4], m[5] + "/asan", m[6] + ".asan", [x + ".asan" for x in m[7]], m[8]))
        scripts.append(s_)
    aevs = [e for part in common.run_driver_parallel(["".join(ascripts[i::nproc]) for i in range(nproc)], "asan", timeout=3000) for e in part]
    bycase.update(common.by_case(aevs))
    ck.extra["asan_runs"] = len(sel)
    trace = []; owner = []
    for (cid, D, cfg, seg, fdmode, cls, out, sinks, cuts) in meta:
        ce = bycase.get(cid, [])
        trace.append({"op": "wstart", "case": cid, "cfg": {k: (v if not isinstance(v, bytes) else v.hex()) for k, v in cfg.items()}, "len": len(D), "cls": cls, "fd": fdmode}); owner.append(cid)
        accepted = 0; rb = None; acc_cuts = []
        phase = "w"; nw_ret = 0
        for e in ce:
            op = e["op"]
            if op in ("Crash", "Hang"):
                trace.append({"op": op, "sig": e.get("sig", 0)}); owner.append(cid); continue
            if phase == "w":
                if op == "ioption" or op == "soption":
                    trace.append({"op": "option", "opt": e["opt"], "ret": e["ret"]}); owner.append(cid)
                elif op == "write":
                    trace.append({"op": "write", "n": e["n"], "ret": e["ret"]}); owner.append(cid)
                    if e["ret"] > 0: accepted += e["ret"]
                elif op == "end_chunk":
                    trace.append({"op": "endchunk", "ret": e["ret"]}); owner.append(cid)
                    if e["ret"] > 0 and (cfg.get("min", 1) <= e["ret"]):
                        acc_cuts.append(accepted)
                elif op == "close" and e["c"] == 0:
                    buf = open(out, "rb").read() if os.path.exists(out) else b""
                    rf = ref.RefFile(buf)
                    ends = set()
                    if rf.h.ok:
                        u = 0
                        for en in rf.h.entries[1:]:
                            u += en["ulen"]; ends.add(u)
                    f = {"valid": bool(rf.valid_strict), "contentEq": rf.content is not None and rf.content == D[:accepted] and accepted == len(D),
                         "total": len(rf.content) if rf.content is not None else -1, "cutsOk": all(c in ends or c == 0 for c in acc_cuts)}
                    trace.append({"op": "wclose", "ret": e["ret"], "f": f}); owner.append(cid)
                    phase = "r"
            elif phase == "n":
                # the header-only twin: judged apart (beyond the listed properties: specification drift, not a violation)
                if op == "close": nw_ret = e["ret"]
                elif op == "dump_header":
                    real = open(out, "rb").read() if os.path.exists(out) else b""
                    hreal = ref.parse_header(real)
                    hdr = open(out + ".nowrite.hdr", "rb").read() if os.path.exists(out + ".nowrite.hdr") else b""
                    nowrite.append({"op": "wstart", "case": cid + " (ZCK_NO_WRITE twin)"})
                    nowrite.append({"op": "nowrite", "ret": nw_ret, "hdrEq": bool(hreal.ok and hdr == real[:hreal.hdr_total]),
                                    "outEmpty": os.path.exists(out + ".nowrite") and os.path.getsize(out + ".nowrite") == 0})
                    phase = "r"
            else:
                if op == "echo" and e.get("s") == "nowrite":
                    phase = "n"; nw_ret = 0
                elif op == "echo":
                    if rb: 
                        trace.append(rb); owner.append(cid)
                    rb = {"op": "readback", "openRet": 0, "valRet": 0, "delivered": 0, "eq": True, "closeRet": 0, "_sink": sinks[len([t for t, o in zip(trace, owner) if o == cid and t["op"] == "readback"])]}
                elif rb is not None:
                    if op == "init_read": rb["openRet"] = e["ret"]
                    elif op == "validate_checksums": rb["valRet"] = e["ret"]
                    elif op == "read":
                        if e["ret"] > 0: rb["delivered"] += e["ret"]
                        elif e["ret"] < 0: rb["eq"] = False
                    elif op == "close": rb["closeRet"] = e["ret"]
        if rb:
            trace.append(rb); owner.append(cid)
        for t, o in zip(trace, owner):
            if o == cid and t["op"] == "readback" and "_sink" in t:
                s = t.pop("_sink")
                data = open(s, "rb").read() if os.path.exists(s) else b""
                t["eq"] = bool(t["eq"] and data == D)
        if not any(e["op"] == "done" for e in ce) and not any(e["op"] in ("Crash", "Hang") for e in ce):
            trace.append({"op": "Crash", "why": "case did not finish"}); owner.append(cid)
        ck.case((cls, len(D), json.dumps({k: (v.hex() if isinstance(v, bytes) else v) for k, v in cfg.items()}, sort_keys=True), len(seg), fdmode))
    ck.sample({"case": meta[0][0], "trace": [t for t, o in zip(trace, owner) if o == meta[0][0]][:12]})
    # the header-only twins against WNoWrite: a rejection is recorded as specification drift
    if nowrite:
        pnw = os.path.join(wd, "nowrite.ndjson"); common.write_ndjson(pnw, nowrite)
        okn, resn = common.validate_trace("Trace_Writer", "Trace_Writer.cfg", pnw); ck.add_tlc("Trace_Writer (ZCK_NO_WRITE twins)", resn)
        ck.extra["nowrite_twins"] = len(nowrite) // 2
        ck.extra["nowrite_contract_deviation"] = (not okn)
        if not okn:
            ck.notes.append("a ZCK_NO_WRITE run did not compute the header of the real run, or wrote to its output (beyond the listed properties)")
    # ---------------- tools end to end
    tool_cases(ck, rnd, tier, bd, wd, trace, owner)
    validate_segments(ck, "C01", trace, owner, wd, scripts_by={m[0]: (scripts[i], "writer %s" % m[0], [os.path.join(wd, m[0] + ".in")]) for i, m in enumerate(meta)},
                      module="Trace_Writer", cfg="Trace_Writer.cfg", start_ops=("wstart",))
    # the real writer with every allocation of zchunk's own code refused in turn (once / from there on), judged by WClose
    from .. import allocfault
    atrace, aowner, ascripts = allocfault.writer_family(ck, tier, wd, rnd)
    validate_segments(ck, "C01", atrace, aowner, wd, scripts_by=ascripts, module="Trace_Writer", cfg="Trace_Writer.cfg", start_ops=("wstart",))
    if not ck.violations:
        neg = [{"op": "wstart"}, {"op": "write", "n": 5, "ret": 5}, {"op": "wclose", "ret": 1, "f": {"valid": True, "contentEq": False, "total": 4, "cutsOk": True}}]
        p = os.path.join(wd, "neg.ndjson"); common.write_ndjson(p, neg)
        ok, res = common.validate_trace("Trace_Writer", "Trace_Writer.cfg", p)
        if ok:
            raise Broken("negative control: a lossy close was accepted by Trace_Writer")
    ck.extra["rule"] = "one case = (content class and size, writer configuration, write segmentation, descriptor situation) or one zck/unzck tool pipeline"
    ck.assumptions = ["zstd's own fidelity", "reference decoder defines validity and content of the produced file"]
    shutil.rmtree(wd, ignore_errors=True)
    # what unzck does to the files of its working directory: the model UnzckTool and every one of its initial states as a real run
    from .. import unzcktool
    unzcktool.run(ck, tier, rnd)
    # allocation failures under the sanitizers (verif/allocfault.py): writer runs with every allocation of zchunk's own code
    # refused in turn; heap corruption is a violation, a stop on NULL is recorded
    from .. import allocfault as _af
    _wd = common.workdir("c01asan")
    common.build("asan")
    for what, scr in _af.asan_writer_sweep(ck, tier, _wd, rnd):
        ck.violation(what, scr)
    shutil.rmtree(_wd, ignore_errors=True)
    return ck.finish()


def tool_cases(ck, rnd, tier, bd, wd, trace, owner):
    zck = os.path.join(bd, "zck"); unzck = os.path.join(bd, "unzck")
    jobs = []
    splits = [b"<text:", b"ab", b"a", b"\n", b"xyzxyzw"]
    n = 40 if tier == "quick" else 300
    for i in range(n):
        sp = rnd.choice(splits)
        kind = rnd.choice(["align", "align", "rand", "tail", "capped"])
        if kind == "align":
            # the split string at every alignment around the tool's 32 KiB read-block edges
            base = bytearray(corpus.text(rnd, 70000).replace(sp, b"_" * len(sp)))
            off = rnd.choice([32768, 65536]) + rnd.randrange(-len(sp) - 2, 3)
            base[off:off + len(sp)] = sp
            if rnd.random() < 0.5:      # a partial match right before the edge, then broken
                base[32768 - 2:32768] = sp[:2].ljust(2, b"_")[:2]
            D = bytes(base)
        elif kind == "tail":
            D = corpus.text(rnd, rnd.choice([10, 500, 32768, 40000])).replace(sp, b"_" * len(sp)) + sp[:rnd.randrange(1, len(sp) + 1)]
        elif kind == "capped":
            D = writegen.content(rnd, "split", rnd.choice([50, 2000]), sp)
        else:
            D = writegen.content(rnd, rnd.choice(["split", "text", "rand", "empty", "one", "rep"]), rnd.choice([0, 1, 100, 40000, 150000]), sp)
        args = []
        if rnd.random() < 0.8: args += ["-s", sp.decode("latin1")]
        if rnd.random() < 0.4: args += ["-m"]
        if rnd.random() < 0.3: args += ["--compression-format", "none"]
        if rnd.random() < 0.2: args += ["-u"]
        if rnd.random() < 0.3: args += ["-h", rnd.choice(["sha256", "sha512", "sha512_128"])]
        usedict = rnd.random() < 0.2
        cap = rnd.choice([1, 2, 3, 5, 7]) if kind == "capped" else 0
        # which standard descriptors the tools are started without (both zck and unzck), and whether the files they are
        # about to create already exist with other, longer contents (an earlier, larger version)
        closefd0 = rnd.choice([(), (), (), (0,), (1,), (0, 1), (0, 1, 2), (2,)]) if i % 2 else ()
        if i % 5 == 3:
            closefd0 = closefd0 + ("stale",)
        if [x for x in closefd0 if x != "stale"] and i % 4 == 1:
            args = ["-vv"] + args        # the verbose option: what a tool logs must not land in a file it writes
        jobs.append((i, D, args, usedict, cap, closefd0))
    # systematic: a prefix of the split string straddling a 32 KiB block edge with k bytes before and j bytes
    # after it, then broken (or completed), at the first and second edge
    i = len(jobs)
    for sp in ([b"<text:", b"xyzxyzw"] if tier == "quick" else [b"<text:", b"xyzxyzw", b"ab", b"aab"]):
        for edge in (32768, 65536):
            for k in range(1, len(sp)):
                for jj in range(0, len(sp) - k + 1):
                    base = bytearray(corpus.text(rnd, 70000).replace(sp, b"_" * len(sp)).replace(sp[:1], b"_"))
                    part = sp[:k + jj]
                    base[edge - k:edge - k + len(part)] = part
                    if k + jj < len(sp):
                        base[edge - k + len(part)] = ord("#")
                    for mode in ([], ["-m"]) if (k + jj) % 2 == 0 else ([],):
                        jobs.append((i, bytes(base), ["-s", sp.decode()] + mode, False, 0, ())); i += 1
    # contents made of whole 32 KiB blocks of zeros at block-aligned offsets (disk images, sparse files), at the start, in the
    # middle and at the very end, of aligned and unaligned total length: every byte, zero or not, must come back
    Z = bytes(32768)
    zc = [Z, Z * 4, corpus.text(rnd, 32768) + Z, corpus.rand(rnd, 32768) + Z * 2 + corpus.text(rnd, 100), Z + corpus.text(rnd, 40000),
          corpus.text(rnd, 32768 * 2) + Z * 3, corpus.text(rnd, 30000) + Z * 2, Z * 2 + bytes(5)]
    for zi, D in enumerate(zc):
        for args in ([], ["--compression-format", "none"], ["-m"]):
            if tier == "quick" and (zi + len(args)) % 2 and args:
                continue
            jobs.append((i, D, list(args), False, 0, ())); i += 1
    # the verbose option with every set of missing standard descriptors (deterministic)
    for vi, cf in enumerate([(2,), (1, 2), (0, 1, 2), (0, 2), (1,)]):
        for vflag in ("-v", "-vv", "-vvv"):
            jobs.append((i, corpus.text(rnd, 40000 + vi), [vflag] + (["--compression-format", "none"] if vi % 2 else []), False, 0, cf)); i += 1
    def work(j):
        i, D, args, usedict, cap, closefd0 = j
        d = os.path.join(wd, "tool%d" % i); os.makedirs(d, exist_ok=True)
        inp = os.path.join(d, "input.bin"); open(inp, "wb").write(D)
        outp = os.path.join(d, "input.bin.zck")
        a = [zck] + args + ["-o", outp]
        if usedict:
            dp = os.path.join(d, "dict"); open(dp, "wb").write(b"dictionary <text: words alpha beta gamma"); a += ["-D", dp]
        a.append(inp)
        env = dict(os.environ)
        if cap:
            env["ZV_ROLES"] = "in=input.bin"; env["ZV_CAP_in"] = str(cap)
        fdc = [x for x in closefd0 if x != "stale"]
        pre = (lambda: [os.close(x) for x in fdc]) if fdc else None
        if "stale" in closefd0:
            open(outp, "wb").write(corpus.rand(random.Random(i), len(D) + 70000))
        try:
            p = subprocess.run(a, stdout=subprocess.PIPE, stderr=subprocess.PIPE, env=env, timeout=120, cwd=d, preexec_fn=pre)
            zs = p.returncode
        except subprocess.TimeoutExpired:
            return (j, "Hang", None, None, None)
        buf = open(outp, "rb").read() if os.path.exists(outp) else b""
        rf = ref.RefFile(buf)
        f = {"valid": bool(rf.valid_strict), "contentEq": rf.content is not None and rf.content == D}
        us = 1; oeq = False
        if zs == 0:
            if "stale" in closefd0:
                open(inp, "wb").write(D + corpus.rand(random.Random(i), 5000))
            try:
                q = subprocess.run([unzck] + [a for a in args if a in ("-v", "-vv", "-vvv")] + ["input.bin.zck"], stdout=subprocess.PIPE, stderr=subprocess.PIPE, timeout=120, cwd=os.path.join(d), preexec_fn=pre)
                us = q.returncode
            except subprocess.TimeoutExpired:
                return (j, "Hang", None, None, None)
            # unzck writes ./input.bin (overwriting our input copy in the same directory): compare with D
            got = open(inp, "rb").read() if os.path.exists(inp) else None
            oeq = (got == D)
        return (j, "ok", zs, f, (us, oeq))
    with ThreadPoolExecutor(max_workers=common.NCPU) as ex:
        res = list(ex.map(work, jobs))
    for (j, kind, zs, f, u) in res:
        i, D, args, usedict, cap, closefd0 = j
        cid = "tool%d" % i
        trace.append({"op": "wstart", "case": cid, "args": args, "len": len(D), "cap": cap, "closefd0": [str(x) for x in closefd0]}); owner.append(cid)
        if kind == "Hang":
            trace.append({"op": "Hang", "tool": "zck/unzck"}); owner.append(cid)
        elif zs < 0 or zs in (134, 139):
            trace.append({"op": "Crash", "tool": "zck", "status": zs}); owner.append(cid)
        else:
            trace.append({"op": "zck", "status": zs, "f": f}); owner.append(cid)
            trace.append({"op": "unzck", "zckStatus": zs, "status": u[0], "outEq": bool(u[1])}); owner.append(cid)
        ck.case(("tool", tuple(args), len(D), cap, closefd0, hash(D)))
    ck.extra["tool_pipelines"] = len(jobs)


def replay(path):
    for e in common.run_driver(open(path).read(), "plain"):
        print(json.dumps(e)[:1000])
    return 0
