"""C16 chunking is deterministic, content-defined and local: TLC exhausts the chunker model
(WriterImpl: SegmentationIndependence, MinMax, Tiling); then the real writer produces the same contents
through different write-call sizes (1 byte ... whole), edited variants (insert/delete/replace in every
tenth of the file) and crafted contents (first boundary just above the effective minimum; a refused
early match followed by a forced cut).  TLC validates the multi-run trace against the Writer contract:
same content + configuration => byte-identical file; prefix locality; suffix resynchronisation;
min/max of automatic chunks."""
import os, json, random, shutil, hashlib, re
from .. import common, ref, corpus, writegen
from ..common import Check, Broken
from .c02 import validate_segments


def chunk_facts(buf, total):
    rf = ref.RefFile(buf)
    h = rf.h
    out = []
    if not h.ok:
        return None
    u = 0
    body = buf[h.hdr_total:]
    for e in h.entries[1:]:
        u += e["ulen"]
        stored = body[e["start"]:e["start"] + e["clen"]]
        out.append({"ulen": e["ulen"], "end": u, "fromEnd": total - u, "id": hashlib.sha1(e["digest"] + stored).hexdigest()[:16]})
    return out, rf


def tool_runs(ck, rnd, tier, bd, wd, trace, owner, nrun0):
    """the zck tool with a split string: its chunking must depend on the content only, not on how read(2) cuts the
    input into blocks (the shim caps the tool's reads), and it is local (the same records behind a longer first line)"""
    import subprocess
    zck = os.path.join(bd, "zck")
    sp = b"<text:"
    # records separated by the split string, with occurrences starting 1..len(sp)-1 bytes before the 32 KiB block edges
    def records():
        out = bytearray()
        k = 0
        while len(out) < 140000:
            out += sp + corpus.text(rnd2, 200 + (k * 37) % 900).replace(sp, b"_" * len(sp)); k += 1
        for edge in (32768, 65536, 98304):
            for back in (3, 1, 5):
                pos = edge - back
                if pos + len(sp) < len(out):
                    out[pos:pos + len(sp)] = sp
        return bytes(out)
    idx = nrun0
    firsts = {}
    rnd2 = random.Random(common.seed() + 16)
    D0 = records()
    for shift in (0, 15):
        D = b"#" * shift + D0           # the same records, every block edge falling elsewhere in them
        cname = "records+%d" % shift
        for args in (["-m", "-s", sp.decode()], ["-s", sp.decode()], ["-m", "-s", sp.decode(), "--compression-format", "none"]):
            for cap in ((0, 10000, 7) if tier == "quick" else (0, 10000, 32767, 4096, 7, 1)):
                d = os.path.join(wd, "tool-%s-%d-%d" % (cname, len(args), cap)); os.makedirs(d, exist_ok=True)
                open(os.path.join(d, "input.bin"), "wb").write(D)
                env = dict(os.environ)
                if cap: env.update({"ZV_ROLES": "in=input.bin", "ZV_CAP_in": str(cap)})
                try:
                    p = subprocess.run([zck] + args + ["-o", "out.zck", "input.bin"], cwd=d, env=env, stdout=subprocess.DEVNULL, stderr=subprocess.DEVNULL, timeout=300)
                except subprocess.TimeoutExpired:
                    trace.append({"op": "Hang", "tool": "zck"}); owner.append("tool"); continue
                outp = os.path.join(d, "out.zck")
                buf = open(outp, "rb").read() if os.path.exists(outp) else b""
                cf = chunk_facts(buf, len(D)) if p.returncode == 0 else None
                if cf is None or cf[1].content != D:
                    trace.append({"op": "Crash", "why": "zck run failed or output does not decode to the input (see C01)", "args": args, "cap": cap}); owner.append("tool"); continue
                cfgname = "tool " + " ".join(args)
                trace.append({"op": "run", "cfg": cfgname, "content": cname, "seg": "reads capped at %d" % cap if cap else "32 KiB reads", "file": hashlib.sha256(buf).hexdigest()[:24], "chunks": cf[0], "len": len(D)})
                owner.append("tool"); idx += 1
                ck.case(("tool", cname, tuple(args), cap))
                if cap == 0:
                    firsts[(cfgname, shift)] = idx
                    if "-m" in args:      # manual mode: a chunk ends only directly in front of an occurrence of the split string
                        got = [c["end"] for c in cf[0]][:-1]          # (the scanner may overlook an occurrence that follows a broken
                        off = [g for g in got if D[g:g + len(sp)] != sp]   #  partial match: that is still a function of the content)
                        if off:
                            trace.append({"op": "Crash", "why": "manual split: a chunk ends where no split string starts", "at": off[:3], "args": args}); owner.append("tool")
    for (cfgname, shift), a in firsts.items():
        if shift == 0 and (cfgname, 15) in firsts:
            trace.append({"op": "pair", "a": a, "b": firsts[(cfgname, 15)], "p": 0, "s": len(D0), "edit": "15 bytes in front of the first record (%s)" % cfgname}); owner.append("tool")
            ck.case(("toolpair", cfgname))
    return idx


def run(tier):
    ck = Check("C16", tier)
    rnd = random.Random(common.seed())
    common.build("plain")
    wd = common.workdir("c16")
    for cfgname in ("MC_WriterAuto.cfg", "MC_WriterAutoTight.cfg", "MC_WriterAutoBigMin.cfg"):
        r = common.tlc("MC_WriterImpl", cfgname if tier != "thorough" else common.cfg_variant(cfgname, wd, MaxLen=8), workers=8, timeout=1800, heap="8g")
        ck.require_ok("WriterImpl/" + cfgname, r); ck.add_tlc("WriterImpl/" + cfgname + " (SegmentationIndependence, MinMax, Tiling)", r)
    # ---- contents
    contents = []
    for name, b in writegen.crafted_contents(rnd, tier):
        contents.append((name, b))
    base = writegen.content(rnd, "mixed", 500000 if tier == "quick" else 900000)
    contents.append(("mixed", base))
    contents.append(("rand", writegen.content(rnd, "rand", 300000)))
    # edits of the mixed content in every tenth (quick: three places)
    tenths = range(10) if tier == "thorough" else (0, 4, 9)
    edits = []
    for t in tenths:
        p = len(base) * t // 10 + rnd.randrange(1000)
        for kind in ("ins", "del", "rep"):
            if kind == "ins": nb = base[:p] + corpus.rand(rnd, rnd.choice([1, 100, 5000])) + base[p:]
            elif kind == "del": nb = base[:p] + base[p + rnd.choice([1, 100, 5000]):]
            else: nb = base[:p] + bytes([base[p] ^ 0x55]) + base[p + 1:]
            edits.append(("mixed-%s@%d" % (kind, t), nb))
    cfgs = [{"comp": 0, "manual": False, "full": 1, "chunk": 3}, {"comp": 2, "manual": False, "full": 1, "chunk": 3, "level": 3},
            {"comp": 2, "manual": False, "full": 1, "chunk": 3, "level": 3, "dict": True}, {"comp": 0, "manual": False, "full": 1, "chunk": 1, "max": 20000},
            {"comp": 2, "manual": False, "full": 1, "chunk": 1, "level": 1, "max": 9000, "min": 9000}, {"comp": 0, "manual": False, "full": 0, "chunk": 2, "dict": True, "min": 20000, "max": 100000},
            # configured limits that cross the automatic ones (average/4 = 8192, average*4 = 131072): the effective
            # minimum follows the maximum down, and a configured minimum above 128 KiB is cut to the automatic maximum
            {"comp": 0, "manual": False, "full": 1, "chunk": 3, "max": 4096}, {"comp": 0, "manual": False, "full": 1, "chunk": 1, "min": 100, "max": 6000},
            {"comp": 0, "manual": False, "full": 1, "chunk": 3, "min": 200000, "max": 300000}, {"comp": 2, "manual": False, "full": 1, "chunk": 3, "level": 1, "max": 1000}]
    CROSS = (6, 7, 8, 9)
    runs = []    # (cid, content name, cfg index, seg style, path)
    def add(cname, data, ci, seg):
        cid = "r%d" % len(runs)
        src = os.path.join(wd, "content-%s.bin" % cname.replace("/", "_"))
        if not os.path.exists(src):
            open(src, "wb").write(data)
        runs.append((cid, cname, ci, seg, src, os.path.join(wd, cid + ".zck"), len(data)))
    for cname, data in contents:
        for ci in range(len(cfgs)):
            if tier == "quick" and cname not in ("mixed",) and ci not in (0, 1, 3) and not (ci in CROSS and cname == "rand"):
                continue
            if ci in CROSS and cname not in ("mixed", "rand"):
                continue
            if ci in (6, 9) and len(data) > 320000:
                continue          # tiny maxima make thousands of chunks of a large content: they get "rand" (300 KB) only
            segs = ["whole", 32768, 1, 7, 8191, 100, 4096] if len(data) <= 70000 else ["whole", 32768, 8191, 100003, 7 if ci == 0 else 4099]
            if tier == "quick":
                segs = segs[:5] if len(data) <= 70000 else segs[:3] + segs[4:]
            if cname.startswith("dbl"):
                segs = ["whole", 1, 4096, 5000, 32768, 150000]      # call edges inside / outside the first 8 KiB of the crafted chunk
            if ci in CROSS and tier == "quick":
                segs = ["whole", 8191] if cname == "mixed" else ["whole"]
            for sg in segs:
                add(cname, data, ci, sg)
    for cname, data in edits:
        for ci in ((0, 1) if tier == "quick" else range(len(cfgs))):
            add(cname, data, ci, rnd.choice(["whole", 32768, 8191]))
    scripts = []
    for (cid, cname, ci, sg, src, out, n) in runs:
        lines = ["case %s 300" % cid, "ctx 0", "open 0 %s rwt" % out, "init_write 0 0"] + writegen.cfg_lines(cfgs[ci], 0, wd, cid)
        if sg != "whole" and len(scripts) % 2 == 0:
            lines += writegen.refused_lines(cfgs[ci], 0, len(scripts) // 2)      # (the "whole" twin of the same content never makes such a call)
        if sg == "whole":
            lines.append("write 0 file:%s" % src)
        else:
            lines.append("writeseg 0 file:%s %d" % (src, sg))
        lines += ["wparams 0", "close 0", "free 0", "end"]
        scripts.append("\n".join(lines) + "\n")
    nproc = 12
    parts = ["".join(scripts[i::nproc]) for i in range(nproc)]
    evs = [e for part in common.run_driver_parallel(parts, "plain", timeout=3000) for e in part]
    bycase = common.by_case(evs)
    trace = [{"op": "wstart"}]; owner = ["all"]
    runidx = {}
    cdata = dict(contents + edits)
    bad_runs = 0
    for (cid, cname, ci, sg, src, out, n) in runs:
        ce = bycase.get(cid, [])
        ok = any(e["op"] == "close" and e["ret"] == 1 for e in ce) and all(e.get("ret", 0) >= 0 for e in ce if e["op"] == "write")
        if not ok or not os.path.exists(out):
            trace.append({"op": "Crash", "why": "writer run failed", "case": cid, "events": [e["op"] + ":" + str(e.get("ret")) for e in ce][-5:]}); owner.append(cid); bad_runs += 1
            continue
        buf = open(out, "rb").read()
        cf = chunk_facts(buf, n)
        if cf is None or cf[1].content != cdata[cname]:
            trace.append({"op": "Crash", "why": "output does not decode to the content (see C01)", "case": cid}); owner.append(cid); continue
        chunks, rf = cf
        trace.append({"op": "run", "cfg": "cfg%d" % ci, "content": cname, "seg": str(sg), "file": hashlib.sha256(buf).hexdigest()[:24], "chunks": chunks, "len": n})
        owner.append(cid)
        runidx.setdefault((cname, ci), len([t for t in trace if t["op"] == "run"]))
        idx = len([t for t in trace if t["op"] == "run"])
        wp = [e for e in ce if e["op"] == "wparams"]
        avg = wp[0].get("avg", 32768) if wp else 32768         # the average the writer itself aims at (its defaults may change)
        lo, hi = writegen.eff_minmax(cfgs[ci], avg)
        trace.append({"op": "minmax", "a": idx, "lo": lo, "hi": hi}); owner.append(cid)
        ck.case((cname, ci, str(sg)))
        if len(ck.samples) < 2:
            ck.sample({"content": cname, "cfg": cfgs[ci], "write_size": sg, "chunk_sizes": [c["ulen"] for c in chunks][:12]})
    # pairs: each edit against the base, same configuration
    for cname, data in edits:
        for ci in range(len(cfgs)):
            a = runidx.get(("mixed", ci)); b = runidx.get((cname, ci))
            if not a or not b:
                continue
            A = base; B = data
            p = 0; m = min(len(A), len(B))
            while p < m and A[p] == B[p]:
                p += 1
            s = 0
            while s < m - p and A[len(A) - 1 - s] == B[len(B) - 1 - s]:
                s += 1
            trace.append({"op": "pair", "a": a, "b": b, "p": p, "s": s, "edit": cname}); owner.append("pair-%s-%d" % (cname, ci))
            ck.case(("pair", cname, ci))
    tool_runs(ck, rnd, tier, os.path.join(common.BUILD, "plain"), wd, trace, owner, len([t for t in trace if t["op"] == "run"]))
    ck.extra["runs"] = len(runs); ck.extra["failed_runs"] = bad_runs
    crafted = [t for t in trace if t["op"] == "run" and t["content"].startswith("min+")]
    # does the placement model (writegen.simulate_cuts) agree with the real chunker on the crafted contents?  (informative:
    # a disagreement means the crafted inputs may miss their target, not that the property is violated)
    agree = []
    for t in trace:
        if t["op"] == "run" and t["content"].startswith("dbl") and t["cfg"] == "cfg0" and t["seg"] == "whole":
            agree.append((t["content"], [c["end"] for c in t["chunks"]][:-1] == writegen.simulate_cuts(cdata[t["content"]])))
    ck.extra["placement_model_agrees_with_real_chunker"] = agree
    ck.extra["crafted_first_chunk_sizes"] = sorted({(t["content"], t["chunks"][0]["ulen"]) for t in crafted})
    # one multi-run trace per configuration (the contract's state is the list of earlier runs; runs of different
    # configurations never constrain each other, so the traces are validated separately and in parallel)
    runs_global = [t for t in trace if t["op"] == "run"]
    def cfg_of(t):
        if t["op"] == "run": return t["cfg"]
        if t["op"] in ("minmax", "pair"): return runs_global[t["a"] - 1]["cfg"]
        return "(failures)"
    groups = {}
    for t, o in zip(trace[1:], owner[1:]):
        groups.setdefault(cfg_of(t), []).append((t, o))
    def validate_group(item):
        gname, evs_ = item
        local = {}; sub = [{"op": "wstart"}]; sown = ["all"]
        for t, o in evs_:
            t = dict(t)
            if t["op"] == "run":
                local[id(runs_global.index(t)) if False else runs_global.index(t) + 1] = len([x for x in sub if x["op"] in ("run", "runx")]) + 1
            elif t["op"] == "minmax":
                t["a"] = local.get(t["a"], 0)
            elif t["op"] == "pair":
                t["a"] = local.get(t["a"], 0); t["b"] = local.get(t["b"], 0)
            sub.append(t); sown.append(o)
        pth = os.path.join(wd, "t-%s.ndjson" % re.sub(r"[^A-Za-z0-9]+", "_", gname)); found = []; states = 0; ntr = 0
        for rounds in range(10):
            common.write_ndjson(pth, sub)
            ok_, res_ = common.validate_trace("Trace_Writer", "Trace_Writer.cfg", pth, timeout=1500, heap="6g"); states += res_.distinct; ntr += 1
            if ok_:
                break
            m = [x for x in res_.out.splitlines() if "MATCHED" in x]
            k = int(m[-1].split(",")[1]) if m else 0
            k = min(k, len(sub) - 1)
            ev = sub[k]
            brief = {kk: vv for kk, vv in ev.items() if kk != "chunks"}
            subruns = [t for t in sub if t["op"] in ("run", "runx")]
            if ev["op"] == "run":
                same = [t for t in sub[:k] if t["op"] == "run" and t["content"] == ev["content"]]
                brief["chunk_sizes"] = [c["ulen"] for c in ev["chunks"]][:20]
                brief["earlier_run_same_content"] = [{"seg": t["seg"], "file": t["file"], "chunk_sizes": [c["ulen"] for c in t["chunks"]][:20]} for t in same[:1]]
            elif ev["op"] == "minmax" and 0 < ev["a"] <= len(subruns):
                brief["chunk_sizes"] = [c["ulen"] for c in subruns[ev["a"] - 1]["chunks"]][:30]
            found.append((brief, sown[k], ev["op"]))
            if ev["op"] == "run":
                sub[k] = dict(ev, op="runx")          # neutralise the offending run and continue (it keeps its number)
            else:
                sub = sub[:k] + sub[k + 1:]; sown = sown[:k] + sown[k + 1:]
        return gname, found, states, ntr
    from concurrent.futures import ThreadPoolExecutor
    with ThreadPoolExecutor(max_workers=6) as ex:
        results = list(ex.map(validate_group, sorted(groups.items())))
    nv = 0
    for gname, found, states, ntr in results:
        ck.states += states; ck.transitions += states; ck.traces += ntr
        for brief, cid, opname in found:
            nv += 1
            scr = ""
            for i, r_ in enumerate(runs):
                if r_[0] == cid:
                    keep = os.path.join(common.REPLAY, "C16-content-%d.bin" % nv); shutil.copy(r_[4], keep)
                    scr = scripts[i].replace(r_[4], keep).replace(r_[5], os.path.join(common.REPLAY, "C16-out-%d.zck" % nv))
            ck.violation("%s not explained by the Writer contract: %s" % (opname, json.dumps(brief)[:900]), scr, {"event": brief})
    ck.models.append({"model": "Trace_Writer (one multi-run trace per configuration)", "traces": len(groups), "events": len(trace)})
    p = os.path.join(wd, "t.ndjson")
    if not ck.violations:
        rr = [t for t in trace if t["op"] == "run"][:1]
        if rr:
            bad = json.loads(json.dumps(rr[0])); bad["file"] = "0" * 24; bad["seg"] = "other"
            common.write_ndjson(p, [{"op": "wstart"}, rr[0], bad])
            ok, res = common.validate_trace("Trace_Writer", "Trace_Writer.cfg", p)
            if ok:
                raise Broken("negative control: two different files for the same content were accepted")
    ck.extra["rule"] = "one case = one writer run (content, configuration, write-call size) or one (base, edit) pair"
    ck.assumptions = ["equality between runs is the oracle; the Python rolling hash only places inputs near boundaries"]
    shutil.rmtree(wd, ignore_errors=True)
    return ck.finish()


def replay(path):
    for e in common.run_driver(open(path).read(), "plain"):
        print(json.dumps(e)[:1000])
    return 0
