"""C19 independent contexts: TLC shows on Threads that per-context steps commute and that a shared
scratch cell breaks it.  Which case the code is in is observed deterministically: (a) the I/O shim
classifies the address of every buffer the library hands to read/write - one in static storage is a
violation whatever the timing; (b) the writable globals of the library objects are snapshotted around
every scenario - a change outside the logging settings is a violation; (c) N threads run complete
write / read / validate / copy / download scenarios concurrently on their own contexts and every
output is compared with the serial run; (d) thorough: the same under ThreadSanitizer, a race report with
a frame in the library being an event the contract has no action for."""
import os, json, random, shutil, subprocess, hashlib, re
from .. import common, ref, corpus, delta, writegen
from ..common import Check, Broken

ALLOWED_GLOBALS = ["log_level", "log_fd", "callback", "log_function", "zck_log_level"]


def globals_file(wd):
    bd = os.path.join(common.BUILD, "plain")
    def syms(path):
        out = subprocess.run(["nm", "-S", "--defined-only", path], stdout=subprocess.PIPE, text=True).stdout
        r = []
        for line in out.splitlines():
            t = line.split()
            if len(t) == 4 and t[2] in "bBdD":
                r.append((t[3], int(t[0], 16), int(t[1], 16)))
        return r
    mine = set()
    for o in ("h/zckdrive.o", "h/shim.o"):
        mine |= {n for n, a, s in syms(os.path.join(bd, o))}
    libnames = set()
    for root, _, files in os.walk(os.path.join(bd, "obj")):
        for f in files:
            if f.endswith(".o") and "/src/lib" in root + "/":
                libnames |= {n for n, a, s in syms(os.path.join(root, f))}
    p = os.path.join(wd, "globals.txt")
    n = 0
    with open(p, "w") as f:
        for name, addr, size in syms(os.path.join(bd, "zckdrive")):
            if name in libnames and name not in mine and size > 0:
                f.write("%s %x %d\n" % (name, addr, size)); n += 1
    return p, n


def scenarios(rnd, wd, k, small=False, pfx="sc"):
    """k independent scenario scripts (as line lists using slot base s) and the files each produces.
    small: a few KiB only - for the race detector, whose per-thread history of earlier accesses is bounded: an
    access is reported as racing only while the other thread's access is still in that history"""
    out = []
    for i in range(k):
        s = (i % 4) * 4        # slot base: ctx/fd slots s..s+3 ; dl slot i%4
        tag = "%s%d" % (pfx, i)
        D = writegen.content(rnd, rnd.choice(["text", "rand", "mixed"]), rnd.choice([20000, 90000, 200000]) if not small else rnd.choice([3000, 9000]))
        src = os.path.join(wd, tag + ".in"); open(src, "wb").write(D)
        # every checksum type is in use by several threads at once, as overall and as chunk checksum (SHA-1 can only be
        # selected through the options; the bundled implementations are separate code per type)
        cfg = {"comp": rnd.choice([0, 2]), "manual": False, "full": (0, 1, 2, 3)[i % 4], "chunk": (3, 0, 1, 2)[i % 4], "level": 1, "max": 20000 if not small else 2000}
        out_zck = os.path.join(wd, tag + ".zck")
        cA = [b""] + [corpus.text(rnd, n) for n in ((300, 33000, 200) if not small else (300, 1500, 200))]
        cB = [b""] + [cA[1], corpus.rand(rnd, 35000 if not small else 900), cA[3], corpus.rand(rnd, 700), cA[2], corpus.rand(rnd, 20000 if not small else 1200)]
        A = ref.build_file(cA, comp_type=0, hash_type=1, chunk_hash_type=3)[0]; B = ref.build_file(cB, comp_type=0, hash_type=1, chunk_hash_type=3)[0]
        pa = os.path.join(wd, tag + ".A"); pb = os.path.join(wd, tag + ".B"); open(pa, "wb").write(A); open(pb, "wb").write(B)
        hB = ref.parse_header(B)
        # a header whose integers need every encoded width from one to nine bytes (declared data sizes 2^0 .. 2^56): whatever
        # the parser keeps per integer width is first used here, by every thread
        went = [{"clen": 0, "ulen": 0, "digest": bytes(16)}] + [{"clen": 3 + k, "ulen": 2 ** (7 * k), "digest": corpus.rand(rnd, 16)} for k in range(9)]
        pw = os.path.join(wd, tag + ".widths"); open(pw, "wb").write(ref.build_header(hash_type=1, chunk_hash_type=3, flags=0, comp_type=2, entries=went, data_digest=bytes(32)) + bytes(100))
        out.append({"tag": tag, "widths": pw, "D": D, "src": src, "cfg": cfg, "zck": out_zck, "A": pa, "B": pb, "Bbuf": B, "hB": hB, "slot": s})
    return out


def scenario_lines(sc, suffix):
    s = sc["slot"]; tag = sc["tag"]
    zck = sc["zck"] + suffix; sink = sc["zck"] + suffix + ".out"; tgt = sc["zck"] + suffix + ".tgt"
    L = ["ctx %d" % (s + 2), "open %d %s r" % (s + 2, sc["widths"]), "init_read %d %d" % (s + 2, s + 2), "dump %d" % (s + 2), "free %d" % (s + 2), "closefd %d" % (s + 2)]
    L += ["ctx %d" % s, "open %d %s rwt" % (s, zck), "init_write %d %d" % (s, s)] + writegen.cfg_lines(sc["cfg"], s, "", tag)
    L += ["writeseg %d file:%s 8191" % (s, sc["src"]), "close %d" % s, "free %d" % s, "closefd %d" % s]
    # a header-only run (ZCK_NO_WRITE: nothing is written, the temporary file is given up early)
    nw = zck + ".nowrite"
    L += ["ctx %d" % s, "open %d %s rwt" % (s, nw), "init_write %d %d" % (s, s)] + writegen.cfg_lines(sc["cfg"], s, "", tag) + ["ioption %d 5 1" % s,
          "writeseg %d file:%s 8191" % (s, sc["src"]), "close %d" % s, "free %d" % s, "closefd %d" % s]
    # a writer whose close fails (the output is /dev/full: every write gets ENOSPC), then freed: whatever the failed close
    # gave up is given up once
    L += ["ctx %d" % s, "open %d /dev/full rwt" % s, "init_write %d %d" % (s, s)] + writegen.cfg_lines(sc["cfg"], s, "", tag) + [
          "write %d file:%s:0:3000" % (s, sc["src"]), "close %d" % s, "free %d" % s, "closefd %d" % s]
    L += ["ctx %d" % s, "open %d %s r" % (s, zck), "sink %d %s" % (s, sink), "init_read %d %d" % (s, s), "validate_checksums %d" % s]
    L += ["read %d 65536" % s] * (len(sc["D"]) // 65536 + 3) + ["close %d" % s, "free %d" % s, "closefd %d" % s]
    # copy + scan on a target with B's header
    h = sc["hB"]
    L += ["ctx %d" % s, "open %d %s rwt" % (s, tgt), "pwrite %d 0 file:%s:0:%d" % (s, sc["B"], h.hdr_total), "seek %d 0" % s, "init_read %d %d" % (s, s), "find_valid %d" % s,
          "ctx %d" % (s + 1), "open %d %s r" % (s + 1, sc["A"]), "init_read %d %d" % (s + 1, s + 1), "copy_chunks %d %d" % (s + 1, s), "find_valid %d" % s, "validate_data %d" % s,
          "free %d" % (s + 1)]
    # error paths: every thread also fails a few calls on contexts of its own (a file that is not a zchunk file, a
    # header whose checksum does not match, calls in the wrong mode): recording an error must not go through shared state
    bad1 = sc["zck"] + suffix + ".notzck"; bad2 = sc["zck"] + suffix + ".badhdr"
    L += ["ctx %d" % (s + 2), "open %d %s rwt" % (s + 2, bad1), "pwrite %d 0 hex:%s" % (s + 2, (b"this is not a zchunk file at all " * 4).hex()), "seek %d 0" % (s + 2),
          "init_read %d %d" % (s + 2, s + 2), "read %d 10" % (s + 2), "write %d hex:00" % (s + 2), "clear_error %d" % (s + 2), "validate_checksums %d" % (s + 2), "free %d" % (s + 2), "closefd %d" % (s + 2),
          "ctx %d" % (s + 2), "open %d %s rwt" % (s + 2, bad2), "pwrite %d 0 file:%s:0:%d" % (s + 2, sc["B"], h.hdr_total), "pwrite %d 50 hex:ffffffff" % (s + 2), "seek %d 0" % (s + 2),
          "init_read %d %d" % (s + 2, s + 2), "ioption %d 100 0" % (s + 2), "free %d" % (s + 2), "closefd %d" % (s + 2)]
    # a lead whose checksum type id is not a known one (a different id per scenario): the error message names the id
    bad3 = sc["zck"] + suffix + ".badtype"
    L += ["ctx %d" % (s + 2), "open %d %s rwt" % (s + 2, bad3), "pwrite %d 0 hex:%s" % (s + 2, (b"\0ZCK1" + bytes([0x80 | (9 + s // 4)]) + bytes([0x80 | 40]) + bytes(60)).hex()), "seek %d 0" % (s + 2),
          "init_read %d %d" % (s + 2, s + 2), "free %d" % (s + 2), "closefd %d" % (s + 2)]
    # fetch the rest: rounds of at most two ranges (multipart responses with a boundary of this scenario's own, fed in
    # fragments), as the documented update loop does; then validate and trim
    d = s // 4
    L += ["reset_failed %d" % s, "dl_init %d %d" % (d, s)]
    for rd in range(4):
        L += ["fetch %d %d %s 2 %d boundary=%s%d quoted=%d fold=%d" % (d, s, sc["B"], (977, 16384, 1, 4093)[(rd + d) % 4] if rd else 977, "b0und.ary+", d * 10 + rd, rd % 2, (rd + 1) % 2)]
    L += ["dl_free %d" % d, "validate_data %d" % s, "ftruncate %d %d" % (s, len(sc["Bbuf"])), "free %d" % s, "closefd %d" % s, "closefd %d" % (s + 1)]
    return L, [zck, sink, tgt]


def digest_files(paths):
    h = hashlib.sha256()
    for p in paths:
        h.update(open(p, "rb").read() if os.path.exists(p) else b"<missing>")
    return h.hexdigest()[:24]


def run(tier):
    ck = Check("C19", tier)
    rnd = random.Random(common.seed())
    common.build("plain")
    wd = common.workdir("c19")
    for cfgname, expect_ok in (("MC_Threads.cfg", True), ("MC_Threads_shared.cfg", False)):
        r = common.tlc("Threads", cfgname, workers=4, timeout=300)
        if r.ok != expect_ok:
            raise Broken("Threads/%s: expected %s" % (cfgname, "no violation" if expect_ok else "the documented interference counterexample"))
        ck.add_tlc("Threads/" + cfgname + (" (holds)" if expect_ok else " (counterexample exhibited, as documented)"), r)
    gfile, ng = globals_file(wd)
    if ng < 3:
        raise Broken("could not locate the library's writable globals")
    nthreads = 4
    scs = scenarios(rnd, wd, nthreads * (2 if tier == "quick" else 6))
    trace = []
    # ---- (a)+(b) serial runs with footprint observation
    serial = {}
    L = ["case serial 300", "shim_log 1", "gsnap %s" % gfile]
    for sc in scs:
        lines, outs = scenario_lines(sc, ".ser")
        L += lines + ["gdiff", "echo %s" % sc["tag"]]
        serial[sc["tag"]] = outs
    L += ["end"]
    evs = common.run_driver("\n".join(L) + "\n", "plain", timeout=900)
    if any(e["op"] in ("Crash", "Hang") for e in evs):
        trace.append({"op": "Crash", "why": "serial run"})
    statics = 0; fcl = 0; um = 0; mk = 0
    umask_listed = any(f["id"] == "C19-umask-around-mkstemp" for f in common.known_for("C19"))
    for e in evs:
        if e["op"] == "gdiff":
            trace.append({"op": "footprint", "staticIoBufs": e["static_bufs"] - statics, "globalsWritten": e["changed"], "allowed": ALLOWED_GLOBALS,
                          "foreignCloses": e["foreign_closes"] - fcl,
                          # the process-wide file mode creation mask: calls that change it, made from the library's code during this scenario
                          "umaskCalls": e.get("umask_calls", 0) - um, "mkstempCalls": e.get("mkstemp_calls", 0) - mk, "umaskInMkstemp": e.get("umask_in_mkstemp", -1), "umaskListed": umask_listed})
            statics = e["static_bufs"]; fcl = e["foreign_closes"]; um = e.get("umask_calls", 0); mk = e.get("mkstemp_calls", 0)
    sdig = {t: digest_files(p) for t, p in serial.items()}
    for sc in scs:          # vacuity guard: the serial scenario must really finish its update (write, read back, copy, multipart download)
        z, sink, tgt = serial[sc["tag"]]
        if not (os.path.exists(tgt) and open(tgt, "rb").read() == sc["Bbuf"] and os.path.exists(sink) and open(sink, "rb").read() == sc["D"]):
            trace.append({"op": "Crash", "why": "serial scenario did not produce its outputs", "tag": sc["tag"]})
    ck.extra["multipart_rounds_in_serial_run"] = sum(1 for e in evs if e["op"] == "fetch" and e.get("multi") == 1)
    if ck.extra["multipart_rounds_in_serial_run"] < len(scs):       # (then the outputs differ from B too: reported above)
        ck.notes.append("the download phase of the scenarios did not produce multipart rounds on this tree")
    # ---- (c) concurrent runs, several rounds with different groupings
    rounds = 3 if tier == "quick" else 12
    for rd in range(rounds):
        order = list(scs); rnd.shuffle(order)
        for g in range(0, len(order), nthreads):
            group = order[g:g + nthreads]
            # slots must be distinct within a group
            for j, sc in enumerate(group):
                sc["slot"] = j * 4
            files = []; outs = {}
            for j, sc in enumerate(group):
                lines, o = scenario_lines(sc, ".c%d" % rd)
                p = os.path.join(wd, "thr-%d-%d-%d.zs" % (rd, g, j)); open(p, "w").write("\n".join(lines) + "\n")
                files.append(p); outs[sc["tag"]] = o
            ev2 = common.run_driver("case conc%d-%d 300\nthreads %s\nend\n" % (rd, g, " ".join(files)), "plain", timeout=900)
            if any(e["op"] in ("Crash", "Hang") for e in ev2):
                trace.append({"op": "Crash", "why": "concurrent run", "group": [s["tag"] for s in group]})
            for sc in group:
                trace.append({"op": "scenario", "tag": sc["tag"], "round": rd, "serial": sdig[sc["tag"]], "concurrent": digest_files(outs[sc["tag"]])})
                ck.case((sc["tag"], rd))
    ck.sample(trace[0]); ck.sample([t for t in trace if t["op"] == "scenario"][0])
    # ---- (d) ThreadSanitizer, both hash back ends (quick tier too: build and run take a few seconds)
    if True:
        lib = []; nrep = 0
        # the serial footprint names library globals written outside the logging settings (or static I/O buffers): whether
        # that is interference is the race detector's verdict, and one concurrent run can miss a race (which access is still
        # in the detector's shadow words when the other thread arrives depends on the schedule) - so repeat while in doubt
        suspect = any(t["op"] == "footprint" and (t["staticIoBufs"] or any(g not in ALLOWED_GLOBALS and g != "unknown" for g in t["globalsWritten"])) for t in trace)
        attempts = 0
        while attempts < (6 if suspect else 1) and not [b for b in lib if not re.search(r"Location is global 'unknown'", b)]:
            attempts += 1
            for tv in ("tsan", "tsanbundled"):
                common.build(tv)
                group = scenarios(rnd, wd, nthreads, small=True, pfx="%s%s" % (tv, "" if attempts == 1 else "r%d" % attempts))
                for j, sc in enumerate(group):
                    sc["slot"] = j * 4
                files = []
                for j, sc in enumerate(group):
                    lines, o = scenario_lines(sc, "." + tv)
                    p = os.path.join(wd, "%s-%d.zs" % (tv, j)); open(p, "w").write("\n".join(lines) + "\n"); files.append(p)
                errp = os.path.join(wd, tv + ".err")
                tev = common.run_driver("case %s 600\nthreads %s\nend\n" % (tv, " ".join(files)), tv, env={"VERIF_NO_SEGV_HANDLER": "1", "ZV_SHIM_OFF": "1", "ZV_STAGGER_MS": os.environ.get("VERIF_C19_STAGGER_MS", "0")}, timeout=1200, stderr_path=errp)
                if sum(1 for e in tev if e["op"] == "fetch" and e.get("multi") == 1) < len(group):
                    ck.notes.append("the scenarios did not run to their download phase under " + tv)
                rep = open(errp, "rb").read().decode("latin1") if os.path.exists(errp) else ""
                blocks = rep.split("WARNING: ThreadSanitizer")
                harness_syms = set(); lib_syms = set()
                def defined(path):
                    outp = subprocess.run(["nm", "--defined-only", path], stdout=subprocess.PIPE, text=True).stdout
                    return {l.split()[-1] for l in outp.splitlines() if l.split()}
                for o in ("h/zckdrive.o", "h/shim.o"):
                    harness_syms |= defined(os.path.join(common.BUILD, tv, o))
                for root, _, fs in os.walk(os.path.join(common.BUILD, tv, "obj")):
                    for f in fs:
                        if f.endswith(".o") and "/src/lib" in root + "/":
                            lib_syms |= defined(os.path.join(root, f))
                def in_library(b):
                    """is the racing memory library-owned: a global defined by a library object, or a heap block
                    allocated from library code"""
                    m = re.search(r"Location is global '([^']+)'", b)
                    if m:
                        name = m.group(1)            # clang names a function-local static "function.variable"
                        return name in lib_syms or name.split(".")[0] in lib_syms
                    if "Location is heap block" in b:
                        tail = b.split("Location is heap block", 1)[1]
                        for fm in re.findall(r"#\d+ \S+ (\S+?):\d+", tail):
                            if "/harness/" in fm:
                                return False
                            if "/src/lib/" in fm:
                                return True
                        return False
                    # stack or unknown location: library-owned if an access is made directly by library code
                    tops = re.findall(r"\n\s+#0 \S+ (\S+)", b)
                    return any("/src/lib/" in loc for loc in tops[:2])
                lib += [b for b in blocks[1:] if "data race" in b.split("\n")[0] and in_library(b)]
                nrep += len(blocks) - 1
        ck.extra["tsan_reports"] = nrep; ck.extra["tsan_reports_in_library"] = len(lib); ck.extra["tsan_rounds"] = attempts
        known = {f["id"]: f for f in common.known_for("C19")}
        kn = [b for b in lib if re.search(r"Location is global 'unknown'", b)]
        lib = [b for b in lib if b not in kn]
        known_races = []
        if kn:
            known_races.append({"op": "KnownRace", "location": "global 'unknown'", "listed": "C19-unknown-name-buffer" in known, "reports": len(kn)})
        ck.extra["tsan_reports_known_finding"] = len(kn)
        races = []
        for b in lib[:5]:
            frames = re.findall(r"#\d+ (\S+) (\S+/src/lib/\S+)", b)
            m = re.search(r"Location is (global '[^']+'|heap block[^\n]*|stack[^\n]*)", b)
            races.append({"op": "Race", "location": m.group(1)[:120] if m else "?", "frames": [" ".join(f) for f in frames[:6]]})
        # a static I/O buffer or a written process-wide variable is interference only if it is accessed without
        # synchronisation: the race detector's verdict decides (a lock-protected cache would be accepted)
        anomalies = 0
        for t in trace:
            if t["op"] == "footprint":
                t["raced"] = bool(lib)
                if "C19-unknown-name-buffer" in known:
                    t["globalsWritten"] = [g for g in t["globalsWritten"] if g != "unknown"]       # the listed finding's buffer
                if t["staticIoBufs"] or any(g not in ALLOWED_GLOBALS for g in t["globalsWritten"]):
                    anomalies += 1
        ck.extra["footprint_anomalies"] = anomalies
        if anomalies and not lib:
            ck.notes.append("static storage / process-wide variables are used by the library but the race detector found them synchronised")
        trace = races + known_races + trace
    p = os.path.join(wd, "t.ndjson"); common.write_ndjson(p, trace)
    ok, res = common.validate_trace("Trace_Threads", "Trace_Threads.cfg", p)
    ck.add_tlc("Trace_Threads", res); ck.traces += 1
    if '"DEVIATION"' in res.out:
        for f in common.known_for("C19"):
            if f["id"] in res.out:
                ck.known(f["id"], f["text"])
    rounds = 0
    while not ok and rounds < 8:
        rounds += 1
        m = [x for x in res.out.splitlines() if "MATCHED" in x]
        k = int(m[-1].split(",")[1]) if m else 0
        ev = trace[min(k, len(trace) - 1)]
        ck.violation("%s not explained by the Threads contract: %s" % (ev["op"], json.dumps(ev)[:600]), "# see DESIGN.md C19; event: %s\n" % json.dumps(ev), {"event": ev})
        trace = trace[:k] + trace[k + 1:]
        common.write_ndjson(p, trace)
        ok, res = common.validate_trace("Trace_Threads", "Trace_Threads.cfg", p); ck.traces += 1
    if not ck.violations:
        common.write_ndjson(p, [{"op": "footprint", "staticIoBufs": 1, "globalsWritten": [], "allowed": ALLOWED_GLOBALS, "foreignCloses": 0, "raced": True, "umaskCalls": 0, "mkstempCalls": 0, "umaskInMkstemp": -1, "umaskListed": False}])
        ok, res = common.validate_trace("Trace_Threads", "Trace_Threads.cfg", p)
        if ok:
            raise Broken("negative control: a static I/O buffer was accepted")
    ck.extra["library_globals_watched"] = ng
    ck.extra["rule"] = "one case = (scenario, round of concurrent execution with 3 other scenarios); plus the serial footprint observation per scenario"
    ck.assumptions = ["races on memory that never reaches a system call and is not static storage are seen only by the TSan run of the thorough tier (DESIGN.md section 9)"]
    shutil.rmtree(wd, ignore_errors=True)
    return ck.finish()


def replay(path):
    print(open(path).read())
    return 0
