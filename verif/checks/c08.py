"""C08 local chunk reuse: targets (B's header fetched, some chunks already on disk) receive
zck_copy_chunks from one to three sources in every order; sources are genuine, corrupted, truncated,
mis-indexed (re-sealed with a wrong stored size / size / swapped entries), with duplicate chunks, with a
different chunk hash type or dictionary.  TLC validates against the Delta contract (DCopy): a chunk is
valid only if the bytes now at its offset are B's, a source chunk is used only when checksum and both
sizes match, a bad source gives failed zero-filled chunks, the source and everything outside the filled
extents are untouched; and DFindMatch for checksum-only matching."""
import os, json, random, shutil, itertools
from .. import common, ref, corpus, delta
from ..common import Check, Broken
from .c02 import validate_segments


def sources_for(rnd, cB, kw, big):
    """list of (name, bytes) source files related to B's chunks cB"""
    out = []
    n = len(cB)
    def mk(chunks, **k2):
        k3 = dict(kw); k3.update(k2)
        return ref.build_file(chunks, **k3)[0]
    shared = [c for c in cB[1:] if rnd.random() < 0.6] or [cB[1]]
    extra = lambda: corpus.text(rnd, rnd.choice([30, 200]))
    layout1 = [cB[0], extra()] + shared + [extra()]
    layout2 = [cB[0]] + list(reversed(shared)) + [extra(), extra()]
    good = mk(layout1); out.append(("good", good))
    out.append(("good-reordered", mk(layout2)))
    h = ref.parse_header(good)
    body0 = h.hdr_total
    # corrupted body of a shared chunk / of every chunk
    for i in range(2, min(len(h.entries), 5)):
        a = body0 + h.entries[i]["start"]; z = a + h.entries[i]["clen"]
        if z > a:
            b = bytearray(good); b[rnd.randrange(a, z)] ^= 0x08; out.append(("corrupt-chunk%d" % i, bytes(b)))
    b = bytearray(good); 
    for p in range(body0, len(b), 7): b[p] ^= 0xff
    out.append(("corrupt-all", bytes(b)))
    out.append(("truncated", good[:body0 + (len(good) - body0) // 2]))
    out.append(("no-body", good[:body0]))
    # mis-indexed, re-sealed
    E = [dict(e) for e in h.entries]
    for i in (2, 3):
        if i < len(E):
            e2 = [dict(e) for e in E]; e2[i]["clen"] += 5; out.append(("misindex-clen+5-%d" % i, ref.rebuild_from_parse(h, good, entries=e2)))
            e2 = [dict(e) for e in E]; e2[i]["clen"] = max(1, e2[i]["clen"] - 3); out.append(("misindex-clen-3-%d" % i, ref.rebuild_from_parse(h, good, entries=e2)))
            e2 = [dict(e) for e in E]; e2[i]["ulen"] += 1; out.append(("misindex-ulen-%d" % i, ref.rebuild_from_parse(h, good, entries=e2)))
    if len(E) >= 4:
        e2 = [dict(e) for e in E]; e2[2], e2[3] = e2[3], e2[2]; out.append(("swapped-entries", ref.rebuild_from_parse(h, good, entries=e2)))
        e2 = [dict(e) for e in E]; e2[2]["digest"] = e2[3]["digest"]; out.append(("dup-digest", ref.rebuild_from_parse(h, good, entries=e2)))
    out.append(("dup-chunks", mk([cB[0], shared[0], shared[0], extra(), shared[0]])))
    out.append(("other-hashtype", mk(layout1, chunk_hash_type=1 if kw["chunk_hash_type"] != 1 else 2)))
    if kw["comp_type"] == 2:
        out.append(("other-dict", mk([corpus.text(rnd, 33)] + layout1[1:])))
        out.append(("nocomp-source", mk(layout1, comp_type=0)))
    out.append(("unrelated", mk([b""] + [corpus.rand(rnd, 50) for _ in range(3)])))
    # a well-formed source of the OTHER compression type whose index lists B's chunk checksums and data sizes with
    # stored sizes of its own: equal checksum and data size do not make a match when the stored sizes differ
    hB = ref.parse_header(mk(cB))
    other = 0 if kw["comp_type"] == 2 else 2
    ents = []
    for e in hB.entries:
        e2 = dict(e); e2.pop("start", None)
        e2["clen"] = e2["ulen"] if other == 0 else (e["clen"] + 3 if e["clen"] else 0)
        ents.append(e2)
    body = corpus.rand(rnd, sum(e["clen"] for e in ents))
    out.append(("cross-type-misindex", ref.build_header(hash_type=1, chunk_hash_type=kw["chunk_hash_type"], flags=0, comp_type=other, entries=ents,
                                                        data_digest=ref.digest(1, body)) + body))
    return out


def run(tier):
    ck = Check("C08", tier)
    rnd = random.Random(common.seed())
    common.build("plain")
    wd = common.workdir("c08")
    scs = []; extra_scripts = []
    nb = 4 if tier == "quick" else 20
    for bi in range(nb + 2):
        comp = (0, 2)[bi % 2]; dic = bi % 3 == 2
        big = bi % 4 == 3
        edge = bi >= nb        # stored chunk sizes exactly on / one off the library's 32 KiB block size
        sz = (lambda: rnd.choice([25, 80, 300])) if not big else (lambda: rnd.choice([200, 33000, 40000]))
        kw = dict(comp_type=comp, hash_type=1, chunk_hash_type=rnd.choice([1, 3]), level=3)
        cB = [corpus.text(rnd, 30) if dic else b""] + [(corpus.text(rnd, sz()) if rnd.random() < 0.7 else corpus.rand(rnd, sz())) for _ in range(rnd.randrange(4, 8))]
        if edge:
            dic = False; cB = [b""] + corpus.bufedge_chunks(rnd, comp)
        B = ref.build_file(cB, **kw)[0]
        hB = ref.parse_header(B)
        srcs = sources_for(rnd, cB, kw, big or edge)
        if edge:
            srcs = srcs[:6]
        targets = [("empty", b"")]
        b = bytearray(B)
        for (a, z) in delta.extents(hB)[1::2]:
            b[a:z] = bytes(z - a)
        targets.append(("every-other-chunk-present", bytes(b)))
        targets.append(("garbage", corpus.rand(rnd, len(B))))
        combos = [[s] for s in srcs]
        names = [s[0] for s in srcs]
        for _ in range(10 if tier == "quick" else 40):
            k = rnd.choice([2, 3]); combos.append(rnd.sample(srcs, k))
        for (tn, T) in targets:
            for combo in (combos if tn != "garbage" else combos[::3]):
                cid = "c%d" % len(scs)
                sc = delta.Scenario(cid, wd, B, T, sources=[c[1] for c in combo], rounds=0, final=False,
                                    name="B%d target %s, sources %s" % (bi, tn, "+".join(c[0] for c in combo)))
                sc.write_files(); scs.append(sc)
                if len(scs) % 4 == 1:
                    # the same copy while read(2) delivers the source in short pieces (a pipe, a network file system, a signal):
                    # chunks may then stay missing or end up failed, but a chunk marked valid has B's bytes on disk (DCopy, safety half)
                    cid = "c%d" % len(scs)
                    sc = delta.Scenario(cid, wd, B, T, sources=[c[1] for c in combo], rounds=0, final=False,
                                        name="B%d target %s, sources %s read in short pieces" % (bi, tn, "+".join(c[0] for c in combo)))
                    for si in range(len(combo)):
                        sc.src_prep[si] = ["shim_cap {c} %d" % (7, 1000, 20000)[(len(scs) // 4 + si) % 3]]
                    sc.capped = True
                    sc.write_files(); scs.append(sc)
        # state carried on the SOURCE context: its per-chunk marks were set by earlier calls (a checksum-only match against
        # another file, a validation before the file changed, an earlier copy) and say nothing about the bytes it holds now -
        # a chunk is used only if the source's bytes hash to the checksum at the time of the copy
        sd = dict(srcs); good = sd["good"]
        for dn in ("corrupt-all", "corrupt-chunk2", "truncated"):
            if dn not in sd:
                continue
            for how in ("matched-first", "validated-then-damaged", "copied-then-damaged"):
                for (tn, T) in targets[:2]:
                    cid = "c%d" % len(scs)
                    sc = delta.Scenario(cid, wd, B, T, sources=[sd[dn]] if how != "copied-then-damaged" else [good, sd[dn]], rounds=0, final=False,
                                        name="B%d target %s, source %s whose context was %s" % (bi, tn, dn, how))
                    gp = os.path.join(wd, cid + ".good")
                    dmg = ["open 8 {p} rw", "ftruncate 8 0", "pwrite 8 0 file:%s" % (os.path.join(wd, cid + ".dmg")), "closefd 8"]
                    if how == "matched-first":
                        sc.aux[gp] = good
                        sc.src_prep[0] = ["ctx 9", "open 9 %s r" % gp, "init_read 9 9", "find_matching 9 {c}", "free 9", "closefd 9"]
                    elif how == "validated-then-damaged":
                        sc.src_initial[0] = good; sc.aux[os.path.join(wd, cid + ".dmg")] = sd[dn]
                        sc.src_prep[0] = ["validate_checksums {c}"] + dmg
                    else:
                        # one source context used for two copies: into a scratch target first (intact), then, after its file
                        # was damaged, into the real one.  Expressed with two source slots on the same path is not possible;
                        # instead the scratch copy is the preparation
                        sc.sources = [sd[dn]]; sc.spaths = sc.spaths[:1]
                        sc.src_initial[0] = good; sc.aux[os.path.join(wd, cid + ".dmg")] = sd[dn]; sc.aux[os.path.join(wd, cid + ".scratch")] = B[:hB.hdr_total]
                        sc.src_prep[0] = ["ctx 10", "open 10 %s rw" % os.path.join(wd, cid + ".scratch"), "init_read 10 10", "copy_chunks {c} 10", "free 10", "closefd 10"] + dmg
                    sc.write_files(); scs.append(sc)
    # crafted target index: a 32-byte checksum whose first 16 bytes are the (16-byte) checksum of a same-sized chunk
    # of a source that uses the shorter chunk hash type - a prefix is not a match
    for comp in (0, 2):
        ch = [b""] + [corpus.text(rnd, n) for n in (120, 60, 200)]
        S = ref.build_file(ch, comp_type=comp, hash_type=1, chunk_hash_type=3, level=3)[0]
        Bc = ref.build_file(ch, comp_type=comp, hash_type=1, chunk_hash_type=1, level=3)[0]
        hS = ref.parse_header(S); hB = ref.parse_header(Bc)
        ents = [dict(e) for e in hB.entries]
        body = bytearray(Bc[hB.hdr_total:])
        for i in (1, 3):
            ents[i]["digest"] = hS.entries[i]["digest"] + corpus.rand(rnd, 16)
            a = ents[i]["start"]; body[a:a + ents[i]["clen"]] = corpus.rand(rnd, ents[i]["clen"])
        Bcraft = ref.rebuild_from_parse(hB, Bc, entries=ents)[:hB.hdr_total + 0]
        Bcraft = ref.build_header(hash_type=hB.hash_type, chunk_hash_type=1, flags=hB.flags, comp_type=hB.comp_type, entries=ents, data_digest=hB.data_digest) + bytes(body)
        for tn, T in (("empty", b""), ("zeros", bytes(len(Bcraft)))):
            sc = delta.Scenario("c%d" % len(scs), wd, Bcraft, T, sources=[S], rounds=0, final=False,
                                name="crafted target (32-byte checksums extending a source's 16-byte ones, comp %d), target %s" % (comp, tn))
            sc.write_files(); scs.append(sc)
    # source and target both carry uncompressed-source checksums and use DIFFERENT compression types; they share content, and
    # for some chunks even the stored size coincides (an incompressible body plus a run the compressor shrinks by exactly its
    # own framing).  Equal uncompressed checksum, data size and stored size do not make the stored bytes interchangeable: the
    # copy pairs by the checksum of the STORED bytes only
    def equal_stored_size_chunk():
        for k in range(8, 400):
            c = corpus.rand(rnd, 200) + bytes(k)
            if len(ref.zstd_compress(c, 3, None)) == len(c):
                return c
        return None
    eq = [equal_stored_size_chunk() for _ in range(2)]
    if all(eq):
        chx = [b""] + [corpus.text(rnd, 120), eq[0], corpus.text(rnd, 60), eq[1]]
        for (tc, scomp) in ((0, 2), (2, 0)):
            Bx = ref.build_file(chx, comp_type=tc, hash_type=1, chunk_hash_type=1, flags=4, level=3)[0]
            Sx = ref.build_file([b"", chx[2], corpus.text(rnd, 33), chx[4], chx[1]], comp_type=scomp, hash_type=1, chunk_hash_type=1, flags=4, level=3)[0]
            hBx = ref.parse_header(Bx)
            for tn, T in (("empty", b""), ("zeros", bytes(len(Bx))), ("complete", Bx)):
                sc = delta.Scenario("c%d" % len(scs), wd, Bx, T, sources=[Sx], rounds=0, final=False,
                                    name="uncompressed-source checksums on both sides, target comp %d, source comp %d with equal stored sizes, target %s" % (tc, scomp, tn))
                sc.write_files(); scs.append(sc)
    else:
        ck.notes.append("no chunk with equal stored sizes under both compression types found; cross-type family skipped")
    # an unusual but legal layout: target and/or source with a padded header (stored header length larger than the sections)
    for comp in (0, 2):
        chp = [b""] + [corpus.text(rnd, n) for n in (90, 40, 150, 70)]
        for (tpad, spad) in ((24, 0), (0, 37), (24, 37), (1, 1)):
            Bp = ref.build_file(chp, comp_type=comp, hash_type=1, chunk_hash_type=3, level=3, pad=tpad)[0]
            Sp = ref.build_file([b"", chp[3], corpus.text(rnd, 20), chp[1]], comp_type=comp, hash_type=1, chunk_hash_type=3, level=3, pad=spad)[0]
            hp = ref.parse_header(Bp)
            Tp = bytearray(Bp)
            for (a, z) in delta.extents(hp)[1::2]:
                Tp[a:z] = bytes(z - a)
            h2 = ref.parse_header(Sp); Sbad = bytearray(Sp); a2 = h2.hdr_total + h2.entries[1]["start"]; Sbad[a2 + 2] ^= 0x10
            for tn, T in (("empty", b""), ("every-other-chunk-present", bytes(Tp))):
                for sn, S_ in (("good", Sp), ("first chunk damaged", bytes(Sbad))):
                    sc = delta.Scenario("c%d" % len(scs), wd, Bp, T, sources=[S_], rounds=0, final=False,
                                        name="padded headers (target +%d, source +%d bytes), comp %d, target %s, source %s" % (tpad, spad, comp, tn, sn))
                    sc.write_files(); scs.append(sc)
    nproc = 12
    parts = ["".join(s.script() for s in scs[i::nproc]) for i in range(nproc)]
    evs = [e for part in common.run_driver_parallel(parts, "plain", timeout=2400) for e in part]
    bycase = common.by_case(evs)
    trace = []; owner = []
    for sc in scs:
        t = delta.enrich(sc, bycase.get(sc.cid, []))
        ncopy = len([x for x in t if x["op"] == "copy"])
        if ncopy < len(sc.sources) and not any(x["op"] in ("Crash", "Hang") for x in t):
            # a source that does not open is skipped by the caller; that is fine (nothing may change then)
            pass
        for x in t:
            if getattr(sc, "capped", False) and x["op"] == "copy":
                x["op"] = "copyf"
            trace.append(x); owner.append(sc.cid)
        ck.case(sc.name)
    # ---- checksum-only matching (zck_find_matching_chunks)
    fm_cases = findmatch_cases(rnd, wd, tier)
    fscripts = {}
    for (cid, name, script, tbuf, sbuf, tp, sp) in fm_cases:
        fscripts[cid] = (script, name, [tp, sp])
    fevs = common.by_case(common.run_driver("".join(x[2] for x in fm_cases), "plain", timeout=600))
    for (cid, name, script, tbuf, sbuf, tp, sp) in fm_cases:
        ce = fevs.get(cid, [])
        th = ref.parse_header(tbuf); sh = ref.parse_header(sbuf)
        ev = [e for e in ce if e["op"] == "find_matching"]
        trace.append({"op": "begin", "name": name}); owner.append(cid)
        if any(e["op"] in ("Crash", "Hang") for e in ce) or not ev:
            trace.append({"op": "Crash", "why": "find_matching did not return"}); owner.append(cid); continue
        n = len(th.entries)
        pair = []
        for e in th.entries:
            ok = False
            for s_ in sh.entries:
                if th.comp_type == sh.comp_type:
                    if s_["digest"] == e["digest"] and s_["ulen"] == e["ulen"]: ok = True
                elif (th.flags & 4) and (sh.flags & 4):
                    if s_["udigest"] == e["udigest"] and s_["ulen"] == e["ulen"]: ok = True
            pair.append(ok)
        trace.append({"op": "start", "n": n, "disk": [False] * n}); owner.append(cid)
        trace.append({"op": "findmatch", "vec": ev[0]["valid"], "pairOk": pair}); owner.append(cid)
        ck.case(name)
    ck.sample({"scenario": scs[1].name, "trace": [t for t, o in zip(trace, owner) if o == scs[1].cid][:5]})
    ck.extra["copies"] = len([t for t in trace if t["op"] == "copy"]); ck.extra["findmatch"] = len(fm_cases)
    sb = {s.cid: (s.script(), s.name, delta.replay_files(s)) for s in scs}; sb.update(fscripts)
    # the copy at file offsets beyond 2^31 (thorough: 2^32): sparse files, facts read at the extents (verif/sparsedelta.py)
    from .. import sparsedelta
    sparsedelta.run(ck, "C08", tier, wd, rnd, trace, owner, sb, with_round=False)
    validate_segments(ck, "C08", trace, owner, wd, scripts_by=sb, module="Trace_Delta", cfg="Trace_Delta.cfg", start_ops=("begin",))
    if not ck.violations:
        neg = [{"op": "begin"}, {"op": "start", "n": 2, "disk": [True, False]}, {"op": "scan", "vec": [1, -1], "disk": [True, False], "sized": [False, True], "ret": -1},
               {"op": "copy", "vec": [1, 1], "disk": [True, False], "zero": [False, False], "matchable": [False, True], "usable": [False, True], "srcSame": True, "outside": True}]
        p = os.path.join(wd, "neg.ndjson"); common.write_ndjson(p, neg)
        ok, res = common.validate_trace("Trace_Delta", "Trace_Delta.cfg", p)
        if ok:
            raise Broken("negative control: a chunk marked valid without B's bytes on disk was accepted")
    ck.extra["rule"] = "one case = (B, initial target, ordered list of 1-3 sources of the kinds listed) or one find_matching pairing"
    ck.assumptions = ["usable/matchable follow the library's lookup semantics (first source chunk carrying the checksum)", "disk facts from snapshots after each copy"]
    # the implementation-shaped model of the copy (CopyImpl): its invariants, the documented counterexamples of its variants,
    # and real copies of members of its own family replayed on it by TLC (Trace_Copy)
    from .. import copyimpl
    copyimpl.run(ck, "C08", tier, rnd)
    shutil.rmtree(wd, ignore_errors=True)
    return ck.finish()


def findmatch_cases(rnd, wd, tier):
    out = []
    for i in range(6 if tier == "quick" else 40):
        flags_t = rnd.choice([0, 4]); flags_s = rnd.choice([0, 4]); ct = rnd.choice([0, 2]); cs = rnd.choice([0, 2])
        base = [b""] + [corpus.text(rnd, rnd.choice([20, 100])) for _ in range(5)]
        tch = list(base); sch = [b""] + [base[2], corpus.text(rnd, 50), base[4], base[1][:-1] + b"#"]
        t = ref.build_file(tch, comp_type=ct, chunk_hash_type=1, flags=flags_t)[0]
        s_ = ref.build_file(sch, comp_type=cs, chunk_hash_type=1, flags=flags_s)[0]
        # a source whose uncompressed checksum matches but whose length differs (crafted, re-sealed)
        if i % 3 == 2 and flags_s & 4:
            sh = ref.parse_header(s_); e2 = [dict(e) for e in sh.entries]; e2[1]["ulen"] += 1
            s_ = ref.rebuild_from_parse(sh, s_, entries=e2)
        cid = "fm%d" % i
        tp = os.path.join(wd, cid + ".t"); sp = os.path.join(wd, cid + ".s"); open(tp, "wb").write(t); open(sp, "wb").write(s_)
        script = "case %s 30\nctx 0\nopen 0 %s r\ninit_read 0 0\nctx 1\nopen 1 %s r\ninit_read 1 1\nfind_matching 1 0\nend\n" % (cid, tp, sp)
        out.append((cid, "find_matching target comp %d flags %d, source comp %d flags %d" % (ct, flags_t, cs, flags_s), script, t, s_, tp, sp))
    return out


def replay(path):
    for e in common.run_driver(open(path).read(), "plain"):
        print(json.dumps(e)[:1000])
    return 0
