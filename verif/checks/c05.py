"""C05 range reassembly: for small targets with chosen sets of missing chunks, one response (plain
single range, or multipart/byteranges with boundary strings from the RFC 2046 alphabet, quoted or not,
extra part headers) is fed to the real callbacks whole, in 1-byte fragments, at EVERY single cut
position and at sampled (thorough: all, for one scenario) pairs of cut positions; payload corruptions
likewise.  TLC validates each run against the Delta contract (DRound: verify-or-zero, confinement) and
requires the final file and markings of every partition to equal those of the one-call run."""
import os, json, random, shutil, itertools
from .. import common, ref, corpus, delta
from ..common import Check, Broken
from .c02 import validate_segments

BOUNDARIES = ["zckBOUNDARYzck", "3d6b6a416f9b5", "gc0p4Jq0M2Yt08jU534c0p", "a_b-c", "simple.boundary", "x:y=z", "it's", "a/b,c", "00000000000000000001", "q?mark", "plus+sign", "paren(s)"]


def scenario_families(rnd, tier):
    fams = []
    def mkB(nchunks, sizes, comp):
        ch = [b""] + [corpus.text(rnd, rnd.choice(sizes)) for _ in range(nchunks)]
        return ref.build_file(ch, comp_type=comp, hash_type=1, chunk_hash_type=3, level=3)[0]
    B1 = mkB(5, [8, 20, 40], 0); B2 = mkB(6, [15, 30], 2)
    for (B, missing, opts, tag) in [
        (B1, [2], "", "one range plain"),
        (B1, [2, 3], "", "two adjacent chunks, one range"),
        (B1, [1, 3], "", "two parts"),
        (B2, [1, 3, 5], "", "three parts zstd"),
        (B1, [1, 3], "quoted=1 extra=1", "quoted boundary, extra part headers"),
        (B1, [2, 4], "leadcrlf=0 lower=1", "no leading CRLF, lower-case header"),
        (B1, [1, 4], "fold=1", "Content-Type folded over two header lines"),
        (B1, [2, 3], "fold=1 quoted=1", "Content-Type folded, quoted boundary"),
        (B1, [1, 3], "corrupt=3", "first part corrupted"),
        (B1, [1, 3, 5], "corrupt=%d" % (len(B1) and 30), "second part corrupted"),
        (B1, [2], "corrupt=0", "plain range corrupted"),
        (B1, [2], "forcemulti=1", "single range sent as multipart"),
        # the application's own header / write callbacks registered on the handle: the library's callbacks do the same work first
        (B1, [1, 3], "usercb=1", "application callbacks registered, two parts"),
        (B1, [2, 3], "usercb=1", "application callbacks registered, plain range"),
        (B2, [1, 3, 5], "usercb=1 quoted=1 extra=1", "application callbacks registered, zstd, quoted boundary"),
    ]:
        fams.append((B, missing, opts, tag))
    # multi-block chunks: the zero-fill of a failed chunk and the verification span several 32 KiB buffers
    chb = [b""] + [corpus.rand(rnd, n) for n in (40010, 300, 70012, 500, 33000)]
    Bbig = ref.build_file(chb, comp_type=0, hash_type=1, chunk_hash_type=3)[0]
    fams.append((Bbig, [1, 3], "", "BIG two multi-block parts"))
    fams.append((Bbig, [1, 3], "corrupt=20000", "BIG first multi-block part corrupted"))
    fams.append((Bbig, [1, 3], "corrupt=%d" % (40010 + 69000), "BIG second multi-block part corrupted"))
    fams.append((Bbig, [3], "corrupt=5", "BIG plain range corrupted"))
    # the target is what an interrupted download left: it ends inside a multi-block chunk, more than one 32 KiB block of
    # which is already there (the validity scan reads those blocks and then meets the end of the file)
    fams.append((Bbig, [1, 3, 4, 5], "", "BIGTRUNC target ends inside a multi-block chunk"))
    # compressed chunks (stored size well below the data size) whose payload arrives damaged: the zero-fill and the
    # verification work on the STORED extent; the neighbours are present and valid
    chz = [b""] + [(b"%d " % k) * n for k, n in enumerate((300, 150, 400, 200, 350), 1)]
    Bz = ref.build_file(chz, comp_type=2, hash_type=1, chunk_hash_type=3, level=3)[0]
    fams.append((Bz, [1, 3], "", "ZSTD compressible, two parts"))
    fams.append((Bz, [1, 3], "corrupt=4", "ZSTD compressible, first part corrupted"))
    fams.append((Bz, [2, 4], "corrupt=%d" % 40, "ZSTD compressible, second part corrupted"))
    fams.append((Bz, [3], "corrupt=2", "ZSTD compressible, plain range corrupted"))
    # two multipart responses in one session (as zckdl does when the server limits the ranges per request), each
    # with its own boundary; the partitions are applied to the SECOND response
    B3 = mkB(8, [12, 25], 0)
    fams.append((B3, [1, 3, 5, 7], "", "SESSION second multipart response of a session, new boundary"))
    # one-byte chunks: a multipart part whose Content-Range is N-N
    ch1 = [b""] + [corpus.text(rnd, n) for n in (8, 1, 20, 1, 40, 1)]
    B1b = ref.build_file(ch1, comp_type=0, hash_type=1, chunk_hash_type=3)[0]
    fams.append((B1b, [2, 4], "", "two one-byte chunks, two parts"))
    fams.append((B1b, [1, 4, 6], "", "one-byte chunks among others, the last chunk of the file one byte"))
    fams.append((B1b, [2], "forcemulti=1", "a single one-byte chunk sent as multipart"))
    # the SAME download handle used again after a response that went wrong (as zckdl's loop and the documented
    # procedure do): the first response is damaged or stops inside a chunk, the partitions are applied to the next,
    # well-formed response, which has to complete the file (DRound: wellFormed and undamaged => complete, all valid)
    e1 = delta.extents(ref.parse_header(B1))
    fams.append((B1, [1, 3], "", "RETRY[corrupt=3] well-formed response after one with a damaged first part"))
    fams.append((B1, [1, 3], "", "RETRY[corrupt=%d] well-formed response after one with a damaged last part" % (e1[1][1] - e1[1][0] + 2)))
    fams.append((B1, [2, 3], "", "RETRY[stop=%d] well-formed response after one that stopped inside a chunk" % (e1[2][1] - e1[2][0] + 3)))
    fams.append((B1, [2, 3], "", "RETRY[stop=%d] well-formed response after one that stopped at a chunk end" % (e1[2][1] - e1[2][0])))
    fams.append((B2, [1, 3, 5], "", "RETRY[corrupt=1] zstd, well-formed multipart response after a damaged one"))
    fams.append((Bbig, [1, 3], "", "RETRY[corrupt=20000] BIGR well-formed response after a damaged multi-block part"))
    fams.append((Bbig, [1, 3], "", "RETRY[stop=50000] BIGR well-formed response after one that stopped inside a multi-block chunk"))
    bsel = BOUNDARIES if tier == "thorough" else ["3d6b6a416f9b5", "a_b-c", "simple.boundary", "x:y=z", "plus+sign", "paren(s)", "q?mark"]
    for b in bsel:
        fams.append((B1, [1, 4], "boundary=%s%s" % (b, " quoted=1" if rnd.random() < 0.5 else ""), "boundary %s" % b))
    return fams


def run(tier):
    ck = Check("C05", tier)
    rnd = random.Random(common.seed())
    common.build("plain")
    wd = common.workdir("c05")
    for cfgname in ("MC_Multipart2.cfg", "MC_Multipart1.cfg", "MC_MultipartBad.cfg"):
        r = common.tlc("MC_Multipart", cfgname, workers=4, timeout=600)
        ck.require_ok("MultipartImpl/" + cfgname, r); ck.add_tlc("MultipartImpl/" + cfgname + " (FinalState for every partition, ValidImpliesGood)", r)
    # one handle and one target context over several requests (DlSession): with zck_dl_reset clearing the whole handle every
    # session completes, stays inside the requested extents and wipes nothing valid; keeping any ONE of write_in_chunk,
    # tgt_check, dl_chunk_data, boundary across the reset breaks that (the counterexamples the sub-agents' "per-field reset" changes hit)
    r = common.tlc("DlSession", "MC_DlSession_none.cfg" if tier == "quick" else "MC_DlSession_none_big.cfg", workers=4, timeout=900)
    ck.require_ok("DlSession/none", r); ck.add_tlc("DlSession (Keep = {}: ValidImpliesGood, Confinement, NoValidChunkWiped, Completes)", r, "3 chunks x 2 cells, 3 requests (thorough: 4 x 2, 4 requests), any initial target, responses good / one damaged cell / cut anywhere, scan or copy in between, every fragmentation")
    for k in ("wic", "tgt", "dlData", "boundary"):
        r = common.tlc("DlSession", "MC_DlSession_%s.cfg" % k, workers=4, timeout=600)
        if r.ok:
            raise Broken("DlSession with Keep = {%s}: the documented counterexample was not found" % k)
        ck.add_tlc("DlSession (Keep = {%s}: counterexample exhibited, as documented)" % k, r)
    fams = scenario_families(rnd, tier)
    scs = []; groups = []
    for fi, (B, missing, opts, tag) in enumerate(fams):
        h = ref.parse_header(B)
        T = bytearray(B)
        for c in missing:
            a, z = delta.extents(h)[c]
            T[a:z] = corpus.rand(rnd, z - a)
        if tag.startswith("BIGTRUNC"):
            a3, z3 = delta.extents(h)[3]
            T[a3:a3 + 40000] = B[a3:a3 + 40000]; del T[a3 + 40000:]
        T = bytes(T)
        # the one-call run tells us the body length
        retry = tag.split("]")[0][6:] if tag.startswith("RETRY[") else None
        session = tag.startswith("SESSION") or retry is not None
        lim, nrounds, cutr = ((2, 2, 1) if retry is None else (-1, 2, 1)) if session else (-1, 1, 0)
        def ropts(popt, retry=retry, session=session):
            if not session:
                return None
            if retry is not None:
                return {0: retry, 1: popt}
            return {0: "boundary=first-resp", 1: ("boundary=second+resp " + popt).strip()}
        base = delta.Scenario("f%d-base" % fi, wd, B, T, limit=lim, frag=0, rounds=nrounds, final=False, fetch_opts=opts, round_opts=ropts(""), name="%s: one call" % tag)
        take = retry is not None and ("stop=" in retry or "20000" in retry)     # a validity scan between the bad response and the good one
        base.stocktake = take
        base.write_files()
        evs = common.run_driver(base.script(), "plain")
        fe = [e for e in evs if e["op"] == "fetch"]
        if not fe:
            # the one-call run did not get as far as a request on this tree: nothing of this family can be judged here
            # (a procedure that cannot complete is C04's business)
            ck.notes.append("family skipped, the baseline did not reach a request: %s" % tag); continue
        bl = fe[cutr].get("bodylen", 0) if len(fe) > cutr else 0
        base_events = [e for e in evs if e.get("case") == base.cid]
        parts = [("1-byte", "", 1)]
        if tag.startswith("BIG"):
            parts = [("16 KiB", "", 16384), ("1000", "", 1000), ("4096", "", 4096)]
            ones = rnd.sample(range(1, bl), 12)
            # a single cut inside the multipart framing (delimiter line or part header): the unfinished header is carried
            # over and the rest of the response - far more than one 32 KiB block - arrives in one call
            fr = fe[cutr].get("framing", []) if len(fe) > cutr else []
            for (a, z) in fr:
                for c in sorted({a + 1, a + 3, (a + z) // 2, z - 3, z - 1}):
                    if 0 < c < bl:
                        ones.append(c)
            for c in ones:
                parts.append(("cut %d" % c, "cuts=%d" % c, 0))
            # ... and the same with the remainder in transport-sized (16 KiB) pieces
            for (a, z) in fr[:2]:
                c = (a + z) // 2
                if 0 < c < bl:
                    parts.append(("cut %d then 16 KiB pieces" % c, "cuts=" + ",".join(str(x) for x in range(c, bl, 16384)), 0))
            members = []
            for pi, (pname, popt, frag) in enumerate(parts):
                sc = delta.Scenario("f%d-p%d" % (fi, pi), wd, B, T, limit=-1, frag=frag, rounds=1, final=False, fetch_opts=(opts + " " + popt).strip(), name="%s: %s" % (tag, pname))
                sc.write_files(); members.append(sc); scs.append(sc)
            groups.append((base, base_events, members, tag))
            continue
        bigr = "BIGR" in tag
        if bigr:
            parts = [("16 KiB", "cuts=" + ",".join(str(x) for x in range(16384, bl, 16384)), 0), ("4096", "cuts=" + ",".join(str(x) for x in range(4096, bl, 4096)), 0)]
        ones = list(range(1, bl)) if not bigr else rnd.sample(range(1, bl), 12 if tier == "quick" else 60)
        if tier == "quick" and len(ones) > 120 and fi >= 10:
            ones = rnd.sample(ones, 120)
        for c in ones:
            parts.append(("cut %d" % c, "cuts=%d" % c, 0))
        twos = list(itertools.combinations(range(1, bl), 2)) if not bigr else [tuple(sorted(rnd.sample(range(1, bl), 2))) for _ in range(6)]
        ntwo = (len(twos) if (tier == "thorough" and fi in (0, 2)) else (400 if tier == "thorough" else 40))
        for (a, b) in (twos if ntwo >= len(twos) else rnd.sample(twos, ntwo)):
            parts.append(("cuts %d,%d" % (a, b), "cuts=%d,%d" % (a, b), 0))
        for k in (3, 5, 16):
            cs = sorted(rnd.sample(range(1, bl), min(k, bl - 1))) if bl > 2 else []
            if cs:
                parts.append(("cuts " + ",".join(map(str, cs)), "cuts=" + ",".join(map(str, cs)), 0))
        members = []
        for pi, (pname, popt, frag) in enumerate(parts):
            if session:
                sc = delta.Scenario("f%d-p%d" % (fi, pi), wd, B, T, limit=lim, frag=0, rounds=nrounds, final=False, fetch_opts=opts,
                                    round_opts=ropts(popt if popt else "cuts=" + ",".join(str(x) for x in range(1, bl))), name="%s: %s" % (tag, pname))
                sc.stocktake = take
            else:
                sc = delta.Scenario("f%d-p%d" % (fi, pi), wd, B, T, limit=-1, frag=frag, rounds=1, final=False, fetch_opts=(opts + " " + popt).strip(), name="%s: %s" % (tag, pname))
            sc.write_files(); members.append(sc); scs.append(sc)
        groups.append((base, base_events, members, tag))
    nproc = 14
    parts = ["".join(s.script() for s in scs[i::nproc]) for i in range(nproc)]
    evs = [e for part in common.run_driver_parallel(parts, "plain", timeout=2400) for e in part]
    bycase = common.by_case(evs)
    trace = []; owner = []
    for (base, base_events, members, tag) in groups:
        gid = base.cid
        t0 = delta.enrich(base, base_events)
        for x in t0:
            trace.append(x); owner.append(gid)
        trace.append({"op": "setbase", "file": delta.sha(open(base.tpath, "rb").read())}); owner.append(gid)
        ck.case(base.name)
        for sc in members:
            t = delta.enrich(sc, bycase.get(sc.cid, []))
            t = [x for x in t if x["op"] != "begin"]
            if not any(x["op"] == "round" for x in t) and not any(x["op"] in ("Crash", "Hang") for x in t):
                t.append({"op": "Crash", "why": "no round event", "scenario": sc.name})
            for x in t:
                x["scenario"] = sc.name
                trace.append(x); owner.append(gid)
            trace.append({"op": "samebase", "file": delta.sha(open(sc.tpath, "rb").read()), "scenario": sc.name}); owner.append(gid)
            ck.case(sc.name)
    ck.sample({"family": groups[2][3], "trace": [t for t, o in zip(trace, owner) if o == groups[2][0].cid][:7]})
    ck.extra["partitions"] = len(scs); ck.extra["families"] = len(groups)
    sb = {}
    for (base, base_events, members, tag) in groups:
        sb[base.cid] = (base.script() + "".join(m.script() for m in members[:3]), tag, delta.replay_files(base))
    validate_groups(ck, trace, owner, wd, groups)
    # the update (scan, local copy, ranged rounds) with every allocation of zchunk's own code refused in turn: the safety half
    # of the contract (valid => B's bytes on disk, confinement, source untouched) still holds; completion is not demanded
    from .. import allocfault
    atrace, aowner, ascripts = allocfault.delta_family(ck, tier, wd, rnd)
    # a ranged round that writes at file offsets beyond 2^31 (thorough: 2^32): sparse files, facts read at the extents
    from .. import sparsedelta
    sparsedelta.run(ck, "C05", tier, wd, rnd, atrace, aowner, ascripts, with_round=True)
    validate_segments(ck, "C05", atrace, aowner, wd, scripts_by=ascripts, module="Trace_Delta", cfg="Trace_Delta.cfg", start_ops=("begin",))
    if not ck.violations:
        good = [t for t, o in zip(trace, owner) if o == groups[2][0].cid][:12]
        bad = json.loads(json.dumps(good))
        k = [i for i, t in enumerate(bad) if t["op"] == "samebase"]
        if k:
            bad[k[0]]["file"] = "0" * 24
            p = os.path.join(wd, "neg.ndjson"); common.write_ndjson(p, bad[:k[0] + 1])
            ok, res = common.validate_trace("Trace_Delta", "Trace_Delta.cfg", p)
            if ok:
                raise Broken("negative control: a partition-dependent final file was accepted")
    ck.extra["rule"] = "one case = (family: missing set, response spelling, corruption) x one partition of the response body into callback invocations"
    ck.assumptions = ["responses are those of the driver's in-process server; parts in request order", "facts from snapshots before/after the round"]
    shutil.rmtree(wd, ignore_errors=True)
    return ck.finish()


def validate_groups(ck, trace, owner, wd, groups):
    """each family is one trace (the base must precede its partitions); report per family the first few
    partitions that are not explained"""
    from concurrent.futures import ThreadPoolExecutor
    fam = {}
    for t, o in zip(trace, owner):
        fam.setdefault(o, []).append(t)
    gmap = {g[0].cid: g for g in groups}
    def work(gid):
        evs = fam[gid]; found = []; states = 0; rounds = 0
        p = os.path.join(wd, "t-%s.ndjson" % gid)
        while rounds < 4:
            rounds += 1
            common.write_ndjson(p, evs)
            ok, res = common.validate_trace("Trace_Delta", "Trace_Delta.cfg", p, timeout=1200)
            states += res.distinct
            if ok:
                break
            m = [x for x in res.out.splitlines() if "MATCHED" in x]
            k = int(m[-1].split(",")[1]) if m else 0
            ev = evs[min(k, len(evs) - 1)]
            found.append(ev)
            # remove the whole run containing the offending event (from its `start` to its `samebase`)
            a = k
            while a > 0 and evs[a]["op"] != "start":
                a -= 1
            b = k
            while b < len(evs) - 1 and evs[b]["op"] not in ("samebase", "setbase"):
                b += 1
            if evs[b]["op"] == "setbase":     # the base run itself is wrong: nothing to compare with
                break
            evs = evs[:a] + evs[b + 1:]
        return gid, found, states, rounds
    with ThreadPoolExecutor(max_workers=8) as ex:
        res = list(ex.map(work, list(fam)))
    for gid, found, states, rounds in res:
        ck.states += states; ck.transitions += states; ck.traces += rounds
        base, base_events, members, tag = gmap[gid]
        for ev in found:
            scn = ev.get("scenario", base.name)
            mem = [m for m in members if m.name == scn]
            sc = mem[0] if mem else base
            from ..common import REPLAY
            files = delta.replay_files(sc)
            scr = sc.script()
            for j, item in enumerate(files):
                src, data = (item if isinstance(item, tuple) else (item, None))
                keep = os.path.join(REPLAY, "C05-%s-%d" % (sc.cid, j))
                if data is not None: open(keep, "wb").write(data)
                elif os.path.exists(src): shutil.copy(src, keep)
                scr = scr.replace(src, keep)
            ck.violation("%s: event %s not explained by the Delta contract" % (scn, json.dumps({k: v for k, v in ev.items() if k != "scenario"})[:500]), scr, {"event": ev})
    ck.models.append({"model": "Trace_Delta (one trace per family: base run, then every partition)", "families": len(fam)})


def replay(path):
    for e in common.run_driver(open(path).read(), "plain"):
        print(json.dumps(e)[:1000])
    return 0
