"""C13 reported metadata: the reference writer emits the bounded family of headers (all hash types,
flags, optional elements, sizes at 2^7k / 2^31 / 2^32 / 2^63 boundaries, count mismatches, over-long
and overflowing integers, length fields against the end); each is opened by the real library and every
getter is dumped; TLC validates (Trace_Header) that an opened header is sealed/supported/representable
and that everything reported equals the reference parse."""
import os, json, random, subprocess, re
from .. import common, ref, hdrfam
from ..common import Check, Broken


def run(tier):
    ck = Check("C13", tier)
    rnd = random.Random(common.seed())
    bd = common.build("plain")
    wd = common.workdir("c13")
    fam = hdrfam.family(rnd, tier)
    scripts = []
    info = {}
    for (name, buf, plain) in fam:
        path = os.path.join(wd, name + ".zck"); open(path, "wb").write(buf)
        info[name] = (path, buf, plain)
        scripts.append("case %s 20\nctx 0\nopen 0 %s r\ninit_read 0 0\ndump 0\nend\n" % (name, path))
    # twins of the headers the reference accepts: an option call the fresh context accepts (ZCK_NO_WRITE, ZCK_UNCOMP_HEADER)
    # comes before the open; what is reported after a successful open is still the file's
    twins = []
    for (name, buf, plain) in fam:
        h = ref.parse_header(buf)
        if h.ok and h.sealed and h.supported and hdrfam.fits(h) and (tier != "quick" or len(twins) < 90):
            opt, val = [(5, 1), (4, 1), (5, 0)][len(twins) % 3]
            tname = "%s+opt%d=%d" % (name, opt, val)
            info[tname] = (info[name][0], buf, plain)
            scripts.append("case %s 20\nctx 0\nopen 0 %s r\nioption 0 %d %d\ninit_read 0 0\ndump 0\nend\n" % (tname, info[name][0], opt, val))
            twins.append((tname, buf, plain))
    # a context used again for another file: the first file's header is refused after its lead was accepted (sealed, but an
    # unsupported compression type or flag), the error is cleared, and the SAME context opens an accepted header through the
    # advanced calls - what it then reports is the second file's, nothing of the first survives
    # (unknown compression types: that refusal is not fatal, the context can be cleared and used on; a header whose chunk
    # count is wrong is refused fatally and the context then refuses everything)
    refused = [t for t in fam if "comp_type" in t[0] and (lambda hh: hh.ok and hh.sealed and not hh.supported)(ref.parse_header(t[1]))][:6] + \
              [t for t in fam if "comp_type" not in t[0] and (lambda hh: hh.ok and hh.sealed and not hh.supported)(ref.parse_header(t[1]))][:2]
    nre = 0
    for (name, buf, plain) in [t for t in fam]:
        h = ref.parse_header(buf)
        if not (h.ok and h.sealed and h.supported and hdrfam.fits(h)) or not refused or nre >= (40 if tier == "quick" else 400):
            continue
        ra = refused[nre % len(refused)]
        tname = "%s+after:%s" % (name, ra[0])
        info[tname] = (info[name][0], buf, plain)
        scripts.append("case %s 20\nctx 0\nopen 0 %s r\ninit_adv_read 0 0\nread_lead 0\nread_header 0\nclear_error 0\nclosefd 0\nopen 0 %s r\ninit_adv_read 0 0\nread_lead 0\nread_header 0\ndump 0\nend\n" % (tname, info[ra[0]][0], info[name][0]))
        twins.append((tname, buf, False)); nre += 1
    ck.extra["twins_on_a_context_used_for_a_refused_file_before"] = nre
    fam = list(fam) + twins
    # allocation failures in the advanced open (zck_init_adv_read, zck_read_lead, zck_read_header), the failed call repeated by
    # the caller after zck_clear_error: if the repeated call reports success, what is reported is still the file's
    from .. import allocfault
    asw = []
    for (name, buf, plain) in [t for t in fam if "+opt" not in t[0] and "+after:" not in t[0]]:
        h = ref.parse_header(buf)
        if not (h.ok and h.sealed and h.supported and hdrfam.fits(h) and len(h.entries) >= 3) or len(asw) >= (3 if tier == "quick" else 12):
            continue
        body = "ctx 0\nopen 0 %s r\ninit_adv_read 0 0\nread_lead 0\nread_header 0\nclear_error 0\nread_header 0\ndump 0\nend\n" % info[name][0]
        na, _ev = allocfault._count("case %s+afbase 20\n" % name + body)
        if any(e["op"] in ("Crash", "Hang") for e in _ev):
            # no allocation was refused in this run: the repeated zck_read_header on an open context must be refused or harmless
            ck.violation("header %s: zck_read_lead, zck_read_header, zck_clear_error, zck_read_header, getters on a valid file does not return (%s)" %
                         (name, [e.get("sig") for e in _ev if e["op"] == "Crash"]), "case %s 20\n" % name + body)
            continue
        for k in range(1, na + 1):
            tname = "%s+alloc%d" % (name, k)
            info[tname] = (info[name][0], buf, plain)
            scripts.append(allocfault._arm("case %s 20\n" % tname + body, k, 1))
            asw.append(name); twins.append((tname, buf, False)); fam.append((tname, buf, False))
    ck.extra["allocation_sweep_opens"] = len([t for t in twins if "+alloc" in t[0]])
    ck.extra["twins_with_an_option_call_before_the_open"] = len(twins)
    nproc = 8
    parts = ["".join(scripts[i::nproc]) for i in range(nproc)]
    evs = [e for part in common.run_driver_parallel(parts, "plain") for e in part]
    bycase = common.by_case(evs)
    trace = []; owner = []
    nopen = 0
    for (name, buf, plain) in fam:
        ce = bycase.get(name, [])
        h = ref.parse_header(buf)
        f = {"ok": bool(h.ok), "sealed": bool(h.sealed), "supported": bool(h.supported), "fits": hdrfam.fits(h)}
        trace.append({"op": "reset"}); owner.append(name)
        if "+after:" in name and ce and not any(e["op"] in ("Crash", "Hang") for e in ce):
            rh = [e for e in ce if e["op"] == "read_header"]
            op = rh[-1] if rh else {"ret": 0}
        elif "+alloc" in name and ce and not any(e["op"] == "Hang" for e in ce):
            if any(e["op"] == "Crash" for e in ce):
                ck.case(name); continue                    # the process ended on the refused allocation: nothing was reported
            rh = [e for e in ce if e["op"] == "read_header"]
            op = rh[-1] if rh else {"ret": 0}
        elif not ce or any(e["op"] in ("Crash", "Hang") for e in ce):
            trace.append({"op": "Crash", "case": name, "sig": [e.get("sig") for e in ce if e["op"] == "Crash"]}); owner.append(name)
            ck.case(name); continue
        else:
            op = [e for e in ce if e["op"] == "init_read"][0]
        cur = {"lead": 0, "preface": 0, "index": 0, "sig": 0, "hsize": 0}
        trace.append({"op": "open", "plain": bool(plain), "f": f, "ret": op["ret"], "cur": cur, "name": name}); owner.append(name)
        ck.case(name)
        if op["ret"] == 1:
            nopen += 1
            d = [e for e in ce if e["op"] == "dump"]
            if d and h.ok:
                trace.append({"op": "dump", "rep": hdrfam.rep_dump(d[0]), "par": hdrfam.par_dump(h), "name": name}); owner.append(name)
    # the zck_read_header tool on the headers that the reference accepts
    tool = os.path.join(bd, "zck_read_header")
    ntool = 0
    for (name, buf, plain) in fam:
        h = ref.parse_header(buf)
        if "+opt" in name or "+alloc" in name or "+after:" in name or not (h.ok and h.sealed and h.supported and hdrfam.fits(h)):
            continue
        if tier == "quick" and ntool >= 60:
            break
        p = subprocess.run([tool, "-c", info[name][0]], stdout=subprocess.PIPE, stderr=subprocess.DEVNULL, timeout=30)
        if p.returncode != 0:
            continue
        ntool += 1
        txt = p.stdout.decode("latin1")
        par = hdrfam.par_dump(h)
        rep = json.loads(json.dumps(par))     # start from the reference, overwrite with what the tool printed
        m = re.search(r"Header size: (\d+)", txt); rep["header_length"] = m.group(1) if m else "?"
        m = re.search(r"Header checksum: (\w+)", txt); rep["header_digest"] = m.group(1) if m else "?"
        m = re.search(r"Data size: (\d+)", txt); rep["data_length"] = m.group(1) if m else "?"
        m = re.search(r"Data checksum: (\w+)", txt); rep["data_digest"] = m.group(1) if m else "?"
        m = re.search(r"Chunk count: (\d+)", txt); rep["chunk_count"] = m.group(1) if m else "?"
        rows = []
        for line in txt.splitlines():
            t = line.split()
            if len(t) >= 5 and t[0].isdigit() and re.fullmatch(r"[0-9a-f]+", t[1]):
                if h.flags & 4 and len(t) >= 6:
                    rows.append({"num": t[0], "digest": t[1], "udigest": t[2], "start": t[3], "clen": t[4], "ulen": t[5]})
                else:
                    rows.append({"num": t[0], "digest": t[1], "udigest": "", "start": t[2], "clen": t[3], "ulen": t[4]})
        rep["chunks"] = rows; rep["bynum"] = []
        for key in ("data_length", "length"):
            if rep[key].isdigit() and int(rep[key]) >= 2**63:
                rep[key] = "ERR"
        for c, pc in zip(rep["chunks"], par["chunks"]):
            pass
        trace.append({"op": "reset"}); owner.append(name)
        f = {"ok": True, "sealed": True, "supported": True, "fits": True}
        trace.append({"op": "open", "plain": False, "f": f, "ret": 1, "cur": {"lead": 0, "preface": 0, "index": 0, "sig": 0, "hsize": 0}, "name": name + "/tool"}); owner.append(name)
        trace.append({"op": "dump", "rep": rep, "par": par, "name": name + "/zck_read_header"}); owner.append(name)
    ck.extra["opened"] = nopen; ck.extra["tool_outputs_compared"] = ntool
    ck.sample(trace[1]); 
    dd = [t for t in trace if t["op"] == "dump"]
    if dd:
        ck.sample(dd[0])
    p = os.path.join(wd, "t.ndjson")
    # validate per execution so that every failing header is reported, not only the first
    segs = []; cur_seg = []
    for t, o in zip(trace, owner):
        if t["op"] == "reset" and cur_seg:
            segs.append(cur_seg); cur_seg = []
        cur_seg.append((t, o))
    if cur_seg:
        segs.append(cur_seg)
    common.write_ndjson(p, trace)
    ok, res = common.validate_trace("Trace_Header", "Trace_Header.cfg", p)
    ck.add_tlc("Trace_Header", res); ck.traces += 1
    rounds = 0
    remaining = segs
    while not ok and rounds < 12:
        rounds += 1
        m = [x for x in res.out.splitlines() if "MATCHED" in x]
        k = int(m[-1].split(",")[1]) if m else 0
        # find the segment containing event k
        pos = 0; bad_i = None
        for i, sgm in enumerate(remaining):
            if pos + len(sgm) > k:
                bad_i = i; break
            pos += len(sgm)
        if bad_i is None:
            break
        sgm = remaining[bad_i]
        ev = sgm[min(k - pos, len(sgm) - 1)][0]; name = sgm[0][1]
        path, buf, plain = info[name]
        keep = os.path.join(common.REPLAY, "C13-%s.zck" % name); open(keep, "wb").write(buf)
        what = "header %s: %s not explained by the Header contract: %s" % (name, ev["op"], json.dumps(ev)[:500])
        scr = next((x for x in scripts if x.startswith("case %s 20\n" % name)), "").replace(path, keep)
        ck.violation(what, scr, {"event": ev})
        remaining = remaining[bad_i + 1:]
        if not remaining:
            break
        common.write_ndjson(p, [t for sgm in remaining for (t, o) in sgm])
        ok, res = common.validate_trace("Trace_Header", "Trace_Header.cfg", p)
        ck.traces += 1
    if not ck.violations and dd:
        bad = json.loads(json.dumps(dd[0])); bad["rep"]["chunks"][-1]["start"] = str(int(bad["par"]["chunks"][-1]["start"]) + 1)
        f = {"ok": True, "sealed": True, "supported": True, "fits": True}
        common.write_ndjson(p, [{"op": "open", "plain": False, "f": f, "ret": 1, "cur": {"lead": 0, "preface": 0, "index": 0, "sig": 0, "hsize": 0}}, bad])
        ok, res = common.validate_trace("Trace_Header", "Trace_Header.cfg", p)
        if ok:
            raise Broken("negative control: a wrong start offset was accepted by Trace_Header")
    ck.extra["rule"] = "one case = one header of the reference writer's family (valid at boundary values, or a re-sealed field mutation)"
    ck.assumptions = ["reference parser written from zchunk_format.txt", "a negative return of a signed getter is an error indication"]
    import shutil; shutil.rmtree(wd, ignore_errors=True)
    return ck.finish()


def replay(path):
    for e in common.run_driver(open(path).read(), "plain"):
        print(json.dumps(e)[:3000])
    return 0
