"""C10 missing-range requests: TLC exhausts RangeImpl (range.c transcribed) against the Range
contract; then real files get every validity vector poked in, zck_get_missing_range /
zck_get_range_char are called, and TLC validates the recorded results (Trace_Range)."""
import os, json, random, re, bisect, itertools
from .. import common, ref
from ..common import Check, Broken

LIMITS = [-1, 0, 1, 2, 3, 7, 127, 255]
RANGE_RE = re.compile(rb"^\d+-\d+(,\d+-\d+)*$")


def known_ids():
    return sorted(f["id"] for f in common.known_for("C10"))


def cfg_with_known(wd, template, name):
    ids = known_ids()
    txt = open(os.path.join(common.SPEC, template)).read()
    txt = re.sub(r"Known = \{[^}]*\}", "Known = {%s}" % ", ".join('"%s"' % i for i in ids), txt)
    if os.environ.get("VERIF_C10_DEEP") and "MaxN = 5" in txt:
        txt = txt.replace("MaxN = 5", "MaxN = 6")
    p = os.path.join(wd, name)          # in the run's own work directory: concurrent runs must not share it
    open(p, "w").write(txt)
    return p


def make_small_files(wd, rnd):
    out = []
    size_sets = [(0, 3, 1, 2, 5, 1, 4), (4, 1, 1, 1, 1, 1), (0, 2, 0, 3, 1), (0, 7, 7, 7, 7, 7, 7, 7), (6, 1, 0, 0, 2), (0, 5)]
    for i, sizes in enumerate(size_sets):
        chunks = [bytes(rnd.getrandbits(8) for _ in range(n)) for n in sizes]
        buf, _ = ref.build_file(chunks, comp_type=0, hash_type=1, chunk_hash_type=(1, 3, 0)[i % 3])
        p = os.path.join(wd, "small%d.zck" % i); open(p, "wb").write(buf); out.append((p, buf))
    # a padded header: the data (and hence every range) starts at lead + stored header length, not where the sections end
    chunks = [bytes(rnd.getrandbits(8) for _ in range(n)) for n in (0, 4, 1, 6, 2, 3)]
    buf, _ = ref.build_file(chunks, comp_type=0, hash_type=1, chunk_hash_type=3, pad=23)
    p = os.path.join(wd, "small-padded.zck"); open(p, "wb").write(buf); out.append((p, buf))
    return out


def make_big_file(wd, rnd, n, lead=0):
    chunks = [b""] + ([bytes(lead)] if lead else []) + [bytes([rnd.getrandbits(8)]) * rnd.choice([1, 2, 3, 9, 11, 100, 1000]) for _ in range(n)]
    buf, _ = ref.build_file(chunks, comp_type=0, hash_type=1, chunk_hash_type=3)
    p = os.path.join(wd, "big%d-%d.zck" % (n, lead)); open(p, "wb").write(buf)
    return (p, buf)


def table_event(buf):
    h = ref.parse_header(buf)
    return {"op": "table", "H": h.hdr_total, "T": [{"clen": e["clen"], "start": e["start"]} for e in h.entries]}, h


def enrich(ev_missing, ev_char, sfile, h, vec, m):
    R = [{"s": int(a), "e": int(b)} for a, b in ev_missing.get("items", [])]
    X = [{"src": x["src"], "clen": int(x["clen"]), "start": int(x["start"])} for x in ev_missing.get("ridx", [])]
    starts = [r["s"] for r in R]
    W = []
    for x in X:
        if x["clen"] == 0 or not R or not (0 <= x["src"] < len(h.entries)):
            W.append(0); continue
        s = h.hdr_total + h.entries[x["src"]]["start"]
        k = bisect.bisect_right(starts, s)
        W.append(k if k >= 1 else 0)
    e1 = {"op": "missing_range", "v": vec, "m": m, "R": R, "cnt": ev_missing.get("count", -1), "X": X, "W": W}
    s = open(sfile, "rb").read() if (ev_char.get("ret") == 1 and os.path.exists(sfile)) else None
    if s is None:
        e2 = {"op": "range_char", "parseOk": False, "S": []}
    else:
        ok = (s == b"") or bool(RANGE_RE.match(s))
        S = []
        if ok and s:
            for part in s.split(b","):
                a, b = part.split(b"-"); S.append({"s": int(a), "e": int(b)})
        e2 = {"op": "range_char", "parseOk": ok, "S": S}
    return e1, e2


def run(tier):
    ck = Check("C10", tier)
    rnd = random.Random(common.seed())
    common.build("plain")
    wd = common.workdir("c10")
    if tier == "thorough":
        os.environ["VERIF_C10_DEEP"] = "1"
    cfg = cfg_with_known(wd, "MC_RangeImpl.cfg", "MC_RangeImpl_run.cfg")
    r = common.tlc("RangeImpl", cfg, workers=8, timeout=900)
    ck.require_ok("RangeImpl", r)
    ck.add_tlc("RangeImpl/MC_RangeImpl.cfg (RequestIsGood, StringIsList)", r, "MaxN=5 chunks, sizes {0,1,2}, limits {-1,0,1,2,3}, renderer Cap=8 items of 3..5 chars; Known=%s" % known_ids())
    tcfg = cfg_with_known(wd, "Trace_Range.cfg", "Trace_Range_run.cfg")

    cases = []   # (cid, path, h, vec, m)
    files = make_small_files(wd, rnd)
    for (path, buf) in files:
        te, h = table_event(buf)
        n = len(h.entries)
        vecs = list(itertools.product((0, 1), repeat=n))
        if tier == "quick" and len(vecs) > 128:
            vecs = rnd.sample(vecs, 128)
        for vec in vecs:
            vec = list(vec)
            if rnd.random() < 0.2:
                vec = [(-1 if (x == 1 and rnd.random() < 0.5) else x) for x in vec]
            for m in (LIMITS if tier == "thorough" else rnd.sample(LIMITS, 4) + [-1]):
                cases.append((path, buf, vec, m))
    # histories on ONE context: the request is a function of the current markings only, whatever was asked before
    # (a failed chunk ahead of the first missing one, reset to missing between two requests; chunks becoming valid)
    hist = []
    for (path, buf) in files:
        te, h = table_event(buf); n = len(h.entries)
        for _ in range(12 if tier == "quick" else 80):
            steps = []
            vec = [rnd.choice([0, 1, 1, -1]) for _ in range(n)]
            if 0 in vec and rnd.random() < 0.7:
                first0 = vec.index(0)
                if first0 > 0: vec[rnd.randrange(first0)] = -1              # a failed chunk before the first missing one
            steps.append(("set", list(vec), rnd.choice(LIMITS)))
            for _k in range(rnd.choice([1, 2, 3])):
                kind = rnd.choice(["reset", "reset", "progress", "regress"])
                if kind == "reset":
                    vec = [0 if x == -1 else x for x in vec]; steps.append(("reset", list(vec), rnd.choice(LIMITS)))
                elif kind == "progress":
                    vec = [(1 if (x == 0 and rnd.random() < 0.5) else x) for x in vec]; steps.append(("set", list(vec), rnd.choice(LIMITS)))
                else:
                    vec = [rnd.choice([0, 1, -1]) for _ in range(n)]; steps.append(("set", list(vec), rnd.choice(LIMITS)))
            hist.append((path, buf, steps))
    nbig = 6000
    bigs = [make_big_file(wd, rnd, nbig, 0), make_big_file(wd, rnd, nbig, 900000 + rnd.randrange(1000))]
    ck.extra["big_table_patterns"] = []
    for big in bigs:
        te, hb = table_event(big[1])
        n = len(hb.entries)
        def pattern(k):
            # alternating missing/valid with a varying valid prefix so that the rendered text crosses the
            # 32768-character buffer at many different residues
            vec = [1] * n
            for i in range(2 + (k % 37) + (k // 37), n):
                if (i + k) % 2 == 0 or (k % 5 == 0 and i % 7 == 0):
                    vec[i] = 0
            return vec

        def fits(vec):
            """positions where an item would end exactly at / next to a buffer-capacity boundary (expected rendering)"""
            items = []
            for i, e in enumerate(hb.entries):
                if vec[i] == 0 and e["clen"] > 0:
                    s_ = hb.hdr_total + e["start"]; e_ = s_ + e["clen"] - 1
                    if items and items[-1][1] + 1 >= s_:
                        items[-1][1] = e_
                    else:
                        items.append([s_, e_])
            loc = 0; hits = set()
            for a, b in items:
                ln = len("%d-%d," % (a, b))
                for cap in (32768, 49152, 73728):
                    if loc + ln == cap:
                        hits.add("exact")
                    elif loc + ln in (cap - 1, cap + 1):
                        hits.add("near")
                loc += ln
            return hits
        cand = list(range(600 if tier == "quick" else 3000))
        exact = [k for k in cand if "exact" in fits(pattern(k))]
        near = [k for k in cand if k not in exact and "near" in fits(pattern(k))]
        rest = [k for k in cand if k not in exact and k not in near]
        chosen = exact[:4 if tier == "quick" else 60] + near[:3 if tier == "quick" else 40] + rnd.sample(rest, min(len(rest), 5 if tier == "quick" else 100))
        ck.extra["big_table_patterns"].append({"exact_fit": len([k for k in chosen if k in exact]), "near_fit": len([k for k in chosen if k in near]), "other": len(chosen)})
        for k in chosen:
            vec = pattern(k)
            for m in ((-1,) if k % 4 else (-1, 255, 127, 7)):
                cases.append((big[0], big[1], vec, m))
        vec = [1 if rnd.random() < 0.5 else 0 for _ in range(n)]; vec[0] = 1
        cases.append((big[0], big[1], vec, -1))
    # run
    scripts = []; meta = []; case_script = {}
    allcases = [(path, buf, [("set", vec, m)]) for (path, buf, vec, m) in cases] + hist
    per = max(1, len(allcases) // 12 + 1)
    for pi in range(0, len(allcases), per):
        lines = []
        for j, (path, buf, steps) in enumerate(allcases[pi:pi + per]):
            cid = "c%d" % (pi + j); start_ = len(lines)
            lines += ["case %s 60" % cid, "ctx 0", "open 0 %s r" % path, "init_read 0 0"]
            for k, (how, vec, m) in enumerate(steps):
                sfile = os.path.join(wd, "%s-%d.str" % (cid, k))
                lines += ["setvalid 0 %s" % ",".join(map(str, vec)) if how == "set" else "reset_failed 0", "missing_range 0 0 %d" % m,
                          "range_char 0 0 %s" % sfile, "range_free 0"]
                meta.append((cid, path, buf, vec, m, sfile, k))
            lines.append("end")
            case_script[cid] = "\n".join(lines[start_:]) + "\n"
        scripts.append("\n".join(lines) + "\n")
    evs = [e for part in common.run_driver_parallel(scripts, "plain") for e in part]
    bycase = common.by_case(evs)
    # group by file to share one table event; emit traces per file
    traces = {}
    owner = {}
    hcache = {}
    bignames = [b[0] for b in bigs]
    for (cid, path, buf, vec, m, sfile, k) in meta:
        ce = bycase.get(cid, [])
        t = traces.setdefault(path, None)
        if t is None:
            te, h = table_event(buf); traces[path] = [te]; owner[path] = [None]
        h = hcache.setdefault(path, None) or hcache.__setitem__(path, ref.parse_header(buf)) or hcache[path]
        em = [e for e in ce if e["op"] == "missing_range"]; ec = [e for e in ce if e["op"] == "range_char"]
        if len(em) <= k or len(ec) <= k or any(e["op"] in ("Crash", "Hang") for e in ce):
            traces[path].append({"op": "Crash", "case": cid}); owner[path].append(cid)
            continue
        # the markings the library really holds at this step (after setvalid / reset_failed) must be the intended ones
        e1, e2 = enrich(em[k], ec[k], sfile, h, vec, m)
        traces[path] += [e1, e2]; owner[path] += [cid, cid]
        ck.case((path, tuple(vec[:64]), hash(tuple(vec)), m))
        if len(ck.samples) < 3 and len(vec) < 10:
            ck.sample({"file": os.path.basename(path), "sizes": [e["clen"] for e in h.entries], "event": e1, "string": e2})
    # split big traces
    jobs = []
    for path, t in traces.items():
        B = 3000 if path not in bignames else 4
        te = t[0]
        i = 1
        while i < len(t):
            j = min(len(t), i + B)
            if j < len(t) and t[j]["op"] == "range_char":
                j += 1
            p = os.path.join(wd, "t-%s-%d.ndjson" % (os.path.basename(path), i))
            common.write_ndjson(p, [te] + t[i:j]); jobs.append((path, i, p)); i = j
    results = common.validate_traces_parallel("Trace_Range", tcfg, [p for _, _, p in jobs], timeout=1200)
    scr = {cid: None for cid in []}
    for (path, base, p), (ok, res) in zip(jobs, results):
        ck.add_tlc("Trace_Range", res); ck.traces += 1
        for line in res.out.splitlines():
            if '"DEVIATION"' in line:
                for f in common.known_for("C10"):
                    if f["id"] in line:
                        ck.known(f["id"], f["text"])
        if not ok:
            m_ = [x for x in res.out.splitlines() if "MATCHED" in x]
            k = int(m_[-1].split(",")[1]) if m_ else 0
            idx = base + k - 1            # k counts the table event too
            idx = max(1, min(idx, len(traces[path]) - 1))
            cid = owner[path][idx]
            cm = [x for x in meta if x[0] == cid][0]
            script = case_script.get(cid, "")
            ev = traces[path][idx]
            keep = os.path.join(common.REPLAY, "C10-file-%s" % os.path.basename(cm[1])); 
            try:
                import shutil; shutil.copy(cm[1], keep); script = script.replace(cm[1], keep)
            except Exception:
                pass
            ck.violation("%s not explained by the Range contract (file %s, limit %d, %d chunks): %s" %
                         (ev["op"], os.path.basename(path), cm[4], len(cm[3]), json.dumps(ev)[:600]), script,
                         {"valid_prefix": cm[3][:40]})
    # negative control: shift one range end
    good = None
    for path, t in traces.items():
        for i, e in enumerate(t):
            if e["op"] == "missing_range" and len(e["R"]) >= 2 and len(t[0]["T"]) < 12:
                good = (t[0], e, t[i + 1]); break
        if good:
            break
    if good and not ck.violations:
        bad = json.loads(json.dumps(good[1])); bad["R"][0]["e"] += 1
        p = os.path.join(wd, "neg.ndjson"); common.write_ndjson(p, [good[0], bad])
        ok, res = common.validate_trace("Trace_Range", "Trace_Range_strict.cfg", p)
        if ok:
            raise Broken("negative control: a range extended by one byte was accepted by Trace_Range")
    ck.extra["rule"] = "one case = (file, validity vector, limit); small files: all/sampled vectors x limits; one 6000-chunk file with patterned vectors so the rendered text crosses the 32768-byte buffer at varying residues"
    ck.assumptions = ["chunk tables come from the reference parser; validity vectors are poked through the private struct, as the repository's own tests do",
                      "the rendered string is parsed back with a strict grammar in Python; the comparison with the range list is done by TLC"]
    import shutil; shutil.rmtree(wd, ignore_errors=True)
    return ck.finish()


def replay(path):
    for e in common.run_driver(open(path).read(), "plain"):
        print(json.dumps(e)[:2000])
    return 0
