"""C04 delta update: the documented procedure (fetch B's header, scan the target, copy matching chunks
from A, request the still-missing ranges round by round from a server holding B, truncate, validate) is
executed with the real library against an in-process server for seeded (A, B) pairs, range limits,
fragment sizes and initial targets.  TLC validates every execution against the Delta contract: the scan
is exact, copies are verified, only missing chunks are requested (never one whose bytes are on disk),
the target ends identical to B and validated, and the chunks requested over all rounds are exactly those
neither valid after the scan nor usable from A."""
import os, json, random, shutil
from .. import common, ref, corpus, delta, server, zckdltier
from ..common import Check, Broken
from .c02 import validate_segments


def make_pair(rnd, big=False):
    comp = rnd.choice([0, 2]); dic = rnd.random() < 0.3
    nA = rnd.randrange(3, 10)
    sz = (lambda: rnd.choice([20, 60, 150, 400])) if not big else (lambda: rnd.choice([300, 33000, 40000, 70000]))
    d = corpus.text(rnd, 40) if dic else b""
    cA = [d] + [(corpus.text(rnd, sz()) if rnd.random() < 0.7 else corpus.rand(rnd, sz())) for _ in range(nA)]
    kind = rnd.choice(["edit", "edit", "edit", "unrelated", "equal", "noA", "dupes"])
    cB = list(cA)
    if kind == "edit":
        for _ in range(rnd.randrange(1, 4)):
            third = rnd.randrange(3); lo = 1 + (len(cB) - 1) * third // 3; hi = max(lo + 1, 1 + (len(cB) - 1) * (third + 1) // 3)
            p = rnd.randrange(lo, hi + 1)
            op = rnd.choice(["ins", "del", "rep"])
            if op == "ins": cB.insert(min(p, len(cB)), corpus.text(rnd, sz()))
            elif op == "del" and len(cB) > 2: del cB[min(p, len(cB) - 1)]
            else: cB[min(p, len(cB) - 1)] = corpus.rand(rnd, sz())
    elif kind == "unrelated":
        cB = [d] + [corpus.rand(rnd, sz()) for _ in range(rnd.randrange(2, 8))]
    elif kind == "dupes":
        cB = [d] + [cA[1], cA[1], cA[2], cA[1], corpus.text(rnd, sz())]
    kw = dict(comp_type=comp, hash_type=rnd.choice([0, 1]), chunk_hash_type=rnd.choice([1, 2, 3]), level=3)
    A, _ = ref.build_file(cA, pad=rnd.choice([0, 0, 0, 5]), **kw); B, _ = ref.build_file(cB, pad=rnd.choice([0, 0, 0, 1, 29]), **kw)
    return (None if kind == "noA" else A), B, kind


def initial_target(rnd, A, B):
    k = rnd.choice(["empty", "garbage", "old", "partialB", "overlong", "equalB", "truncB", "zeros"])
    if k == "empty": return k, b""
    if k == "garbage": return k, corpus.rand(rnd, rnd.randrange(1, len(B) + 50))
    if k == "old": return k, (A if A is not None else b"old")
    if k == "partialB":
        b = bytearray(B); h = ref.parse_header(B)
        for (a, z) in delta.extents(h):
            if rnd.random() < 0.5 and z > a:
                b[a:z] = corpus.rand(rnd, z - a)
        return k, bytes(b)
    if k == "overlong": return k, B + corpus.rand(rnd, 300)
    if k == "equalB": return k, B
    if k == "truncB": return k, B[:rnd.randrange(len(B))]
    return k, bytes(len(B))


def run(tier):
    ck = Check("C04", tier)
    rnd = random.Random(common.seed())
    common.build("plain")
    wd = common.workdir("c04")
    r = common.tlc("DeltaImpl", "MC_DeltaImpl.cfg" if tier != "thorough" else common.cfg_variant("MC_DeltaImpl.cfg", wd, NC=5, Local="{2, 4}", MaxCrash=3), workers=8, timeout=1800, heap="8g")
    ck.require_ok("DeltaImpl", r); ck.add_tlc("DeltaImpl/MC_DeltaImpl.cfg (DoneMeansB, Exactness, PartialNeverValid, Converges)", r, "4 chunks, every initial disk in {full,part,zero,junk}^4 x 3 header states, chunks 2,3 local, limit 2, up to 2 crashes")
    # zckdl's request loop: the 255/127/7/2/1 fallback ladder against servers accepting any number of ranges per request
    r = common.tlc("ZckDlLadder", "MC_ZckDlLadder.cfg", workers=4, timeout=600)
    ck.require_ok("ZckDlLadder", r); ck.add_tlc("ZckDlLadder (IndexInTable, MaxFromLadder, ShrinksAfterRefusal, BoundedRequests, Terminates)", r, "1..300 separate missing extents x server limits {1,2,3,6,7,8,126,127,128,254,255,256,1000}")
    r = common.tlc("ZckDlLadder", "MC_ZckDlLadder_nostep.cfg", workers=4, timeout=600)
    if r.ok:
        raise Broken("ZckDlLadder/nostep: the documented livelock was not found")
    ck.add_tlc("ZckDlLadder, variant without the step down (unbounded requests exhibited, as documented)", r)
    scs = []
    n = 260 if tier == "quick" else 1500
    for i in range(n):
        A, B, kind = make_pair(rnd, big=(i % 9 == 8))
        tk, T = initial_target(rnd, A, B)
        limit = rnd.choice([1, 2, 3, 7, 127, 255, -1, -1])
        frag = rnd.choice([0, 1, 7, 1000, 16384]) if len(B) < 5000 else rnd.choice([0, 1000, 16384])
        opts = rnd.choice(["", "", "quoted=1", "extra=1", "leadcrlf=0", "lower=1", "boundary=3d6b6a416f9b5", "partend=1", "partend=1", "fold=1"])
        # real servers pick a new multipart boundary for every response
        ropts = {r: "boundary=%s%dq" % (rnd.choice(["bnd", "x-", "7f3a", "B+"]), r) for r in range(40)} if (i % 2 == 0 and "boundary=" not in opts) else None
        sc = delta.Scenario("p%d" % i, wd, B, T, sources=[A] if A is not None else [], limit=limit, frag=frag, fetch_opts=opts, round_opts=ropts,
                            name="%s pair, target %s, limit %d, frag %d %s" % (kind, tk, limit, frag, opts))
        sc.must = True          # the in-process server is well behaved: the update has to complete
        sc.write_files(); scs.append(sc)
    # deterministic: several multipart responses in ONE session, each with its own boundary (limits 2 and 3 over six
    # separate missing extents), fed whole and in fragments
    for comp in (0, 2):
        cB = [b""] + [corpus.text(rnd, 40 + 7 * k) for k in range(12)]
        cA = [b""] + [cB[k] for k in range(1, 13) if k % 2 == 0]
        kw = dict(comp_type=comp, hash_type=1, chunk_hash_type=3, level=3)
        A2 = ref.build_file(cA, **kw)[0]; B2 = ref.build_file(cB, **kw)[0]
        for limit in (2, 3):
            for frag in (0, 9, -1):
                ro = {r: "boundary=resp%dz%s%s" % (r, "+" if r % 2 else "", " partend=1" if frag == -1 else "") for r in range(40)}
                if frag == -1: frag = 0
                sc = delta.Scenario("p%d" % len(scs), wd, B2, b"", sources=[A2], limit=limit, frag=frag, round_opts=ro,
                                    name="six separate missing extents, limit %d, a new boundary per response, frag %d, comp %d" % (limit, frag, comp))
                sc.must = True
                sc.write_files(); scs.append(sc)
        # the server's file has every chunk right and a wrong whole-data checksum: all chunks arrive and verify, and the
        # final validation has to refuse the result (Delta!DFinish with bValid = FALSE)
        hB2 = ref.parse_header(B2); dd = bytearray(hB2.data_digest); dd[0] ^= 1
        B3 = ref.rebuild_from_parse(hB2, B2, data_digest=bytes(dd))
        for T3, tn in ((b"", "empty"),):
            sc = delta.Scenario("p%d" % len(scs), wd, B3, T3, sources=[A2], limit=-1, frag=0,
                                name="server file with a wrong whole-data checksum, target %s, comp %d" % (tn, comp))
            sc.must = True; sc.bvalid = False
            sc.write_files(); scs.append(sc)
    # deterministic: chunks whose stored size is ONE byte (ranges N-N), alone and between others; and the same download
    # handle used again after a response that was damaged or stopped inside a chunk (the documented retry): the update
    # still has to complete
    c1B = [b""] + [(corpus.text(rnd, 30 + 5 * k) if k % 3 else corpus.text(rnd, 1)) for k in range(12)]
    c1A = [b""] + [c1B[k] for k in range(1, 13) if k % 2 == 1]
    kw = dict(comp_type=0, hash_type=1, chunk_hash_type=3)
    A4 = ref.build_file(c1A, **kw)[0]; B4 = ref.build_file(c1B, **kw)[0]
    e4 = delta.extents(ref.parse_header(B4))
    for limit in (-1, 2, 1):
        for frag, ro in ((0, None), (1, None), (0, {0: "corrupt=0"}), (7, {0: "corrupt=%d" % (e4[2][1] - e4[2][0])}), (0, {0: "stop=%d" % (60 if limit != 1 else 10)}), (0, {0: "corrupt=2", 1: "stop=70", 2: "corrupt=1"})):
            for T4, tn in ((b"", "empty"),):
                sc = delta.Scenario("p%d" % len(scs), wd, B4, T4, sources=[A4], limit=limit, frag=frag, round_opts=ro, rounds=20,
                                    name="one-byte chunks, limit %d, frag %d, %s" % (limit, frag, "every response good" if not ro else "bad responses first: %s" % ro))
                sc.must = True
                sc.stocktake = (len(scs) % 2 == 1)        # every second one: a validity scan between the requests
                if sc.stocktake: sc.name += ", a validity scan between the requests"
                sc.write_files(); scs.append(sc)
    # update SESSIONS generated by TLC (MC_DeltaSession): up to 2 (thorough 3) disturbed steps - a damaged or interrupted
    # response followed by something the client does before the next request (a validity scan, the local source copied
    # again, zck_clear_error) - on one target context and one download handle; then well-formed responses until nothing
    # is missing.  Every event is judged by the Delta contract and the session must end with B
    rs = common.tlc("MC_DeltaSession", "MC_DeltaSession.cfg" if tier != "thorough" else common.cfg_variant("MC_DeltaSession.cfg", wd, MaxSteps=3), workers=2, timeout=600)
    ck.require_ok("MC_DeltaSession", rs); ck.add_tlc("MC_DeltaSession (session generator)", rs, "5 response kinds x 4 client steps, up to %d disturbed steps" % (2 if tier != "thorough" else 3))
    sess = common.tlc_printed_json(rs, "BEH")
    if len(sess) < 400:
        raise Broken("MC_DeltaSession printed only %d sessions" % len(sess))
    ROPT = {"good": "", "cfirst": "corrupt=0", "clast": "corrupt=last", "stopmid": "stop=mid", "stopend": "stop=end"}
    cbig = [b""] + [corpus.rand(rnd, n) for n in (40010, 300, 70012, 500, 33000, 32768)]
    cbigA = [b""] + [cbig[2], cbig[4]]
    Bbig = ref.build_file(cbig, comp_type=0, hash_type=1, chunk_hash_type=3)[0]; Abig = ref.build_file(cbigA, comp_type=0, hash_type=1, chunk_hash_type=3)[0]
    nsess = 0
    for si, hs in enumerate(sess):
        for (Bs, As, tag) in ((B4, A4, "one-byte chunks"), (B2, A2, "alternating"), (Bbig, Abig, "multi-block chunks")):
            if tag == "multi-block chunks" and si % (5 if tier == "quick" else 2) != 0:
                continue
            if tier == "quick" and tag == "alternating" and si % 3 != 1:
                continue
            limit = (-1, 2, 1)[(si + len(tag)) % 3]
            sc = delta.Scenario("p%d" % len(scs), wd, Bs, b"", sources=[As], limit=limit, frag=(0, 7, 16384)[si % 3], rounds=len(hs) + 16,
                                round_opts={r: ROPT[st["resp"]] for r, st in enumerate(hs)},
                                name="session on %s, limit %d: %s" % (tag, limit, "; ".join("%s then %s" % (st["resp"], st["then"]) for st in hs)))
            sc.between = {r: st["then"] for r, st in enumerate(hs)}
            sc.must = True
            sc.write_files(); scs.append(sc); nsess += 1
    ck.extra["update_sessions"] = nsess
    nproc = 12
    parts = ["".join(s.script() for s in scs[i::nproc]) for i in range(nproc)]
    evs = [e for part in common.run_driver_parallel(parts, "plain", timeout=2400) for e in part]
    bycase = common.by_case(evs)
    trace = []; owner = []
    for sc in scs:
        t = delta.enrich(sc, bycase.get(sc.cid, []))
        if not any(x["op"] == "finish" for x in t) and not any(x["op"] in ("Crash", "Hang") for x in t):
            t.append({"op": "Crash", "why": "procedure did not finish"})
        for x in t:
            trace.append(x); owner.append(sc.cid)
        ck.case(sc.name)
    # ---- the shipped downloader against the loopback HTTP server
    bd = os.path.join(common.BUILD, "plain")
    nz = 14 if tier == "quick" else 80
    zscripts = {}
    for i in range(nz):
        A, B, kind = make_pair(rnd, big=(i % 3 == 2))
        special = {6: "ladder", 7: "norange", 8: "norange-old", 9: "norange-fail", 10: "ladder1", 11: "norange-equalB", 12: "baddata", 13: "norange-baddata"}.get(i, "")
        if special:
            # deterministic: twelve data chunks of which every second one is in A (six separate missing extents)
            cB = [b""] + [corpus.text(rnd, 400 + 70 * k) for k in range(12)]
            cA = [b""] + [cB[k] for k in range(1, 13) if k % 2 == 0]
            kw = dict(comp_type=(0 if i % 2 else 2), hash_type=1, chunk_hash_type=3, level=3)
            A = ref.build_file(cA, **kw)[0]; B = ref.build_file(cB, **kw)[0]; kind = "alternating"
        if i in (3, 5):
            # the overall checksum type SHA-512/128 (only selectable through the API): its lead is shorter than what the library
            # reads to find it, so the tool has to continue where the library stopped, not at the lead's length
            cB = [b""] + [corpus.text(rnd, 300 + 50 * k) for k in range(6)]; cA = [b""] + cB[2:5]
            kw = dict(comp_type=2, hash_type=3 if i == 3 else 2, chunk_hash_type=3, level=3)
            A = ref.build_file(cA, **kw)[0]; B = ref.build_file(cB, **kw)[0]; kind = "overall-type-%d" % kw["hash_type"]
        hB = ref.parse_header(B)
        bvalid = True
        if special.endswith("baddata"):
            # the file the server holds has every chunk right and a wrong whole-data checksum (header re-sealed): every
            # chunk can be filled in and verified, and only the final validation can refuse the result
            dd = bytearray(hB.data_digest); dd[3] ^= 0x10
            B = ref.rebuild_from_parse(hB, B, data_digest=bytes(dd)); hB = ref.parse_header(B); bvalid = False
        tk, T = initial_target(rnd, A, B)
        if i < 6:      # make sure every kind of pre-existing target is tried by the shipped downloader
            tk = ["overlong", "equalB", "old", "empty", "partialB", "garbage"][i]
            T = {"overlong": B + corpus.rand(rnd, 5000), "equalB": B, "old": (A if A is not None else B[: len(B) // 2]), "empty": b"",
                 "partialB": initial_target(random.Random(i), A, B)[1], "garbage": corpus.rand(rnd, len(B) + 77)}[tk]
            if tk == "partialB":
                b_ = bytearray(B)
                for (a_, z_) in delta.extents(hB)[1::2]:
                    b_[a_:z_] = bytes(z_ - a_)
                T = bytes(b_)
        root = os.path.join(wd, "srv%d" % i); cwd = os.path.join(wd, "cl%d" % i); os.makedirs(root); os.makedirs(cwd)
        open(os.path.join(root, "B.zck"), "wb").write(B)
        if A is not None: open(os.path.join(cwd, "A.zck"), "wb").write(A)
        if tk != "empty": open(os.path.join(cwd, "B.zck"), "wb").write(T)
        mr = rnd.choice([0, 1, 2, 7]); piece = rnd.choice([0, 1000, 16384])
        norange = special.startswith("norange"); extra = ()
        if special.startswith("ladder"):
            mr = 2 if special == "ladder" else 1       # the server answers 200 to requests with more ranges: zckdl must reduce and retry
            tk, T = "empty", b""
            if os.path.exists(os.path.join(cwd, "B.zck")): os.remove(os.path.join(cwd, "B.zck"))
        if norange:
            mr = 0
            tk, T = {"norange": ("empty", b""), "norange-old": ("old", A), "norange-fail": ("empty", b""), "norange-equalB": ("equalB", B), "norange-baddata": ("empty", b"")}[special]
            if tk == "empty":
                if os.path.exists(os.path.join(cwd, "B.zck")): os.remove(os.path.join(cwd, "B.zck"))
            else:
                open(os.path.join(cwd, "B.zck"), "wb").write(T)
            if special == "norange-fail":
                extra = ("--fail-no-ranges",)
        if special == "baddata":
            tk, T = "empty", b""
            if os.path.exists(os.path.join(cwd, "B.zck")): os.remove(os.path.join(cwd, "B.zck"))
        srv = server.start(root, max_ranges=mr, piece=piece, no_ranges=norange)
        url = "http://127.0.0.1:%d/B.zck" % srv.server_address[1]
        nofd = ()      # (runs without standard descriptors are not exercised: see DESIGN.md section 13)
        st = zckdltier.run_zckdl(bd, cwd, url, src="A.zck" if A is not None else None, extra=extra, nofd=nofd)
        after = open(os.path.join(cwd, "B.zck"), "rb").read() if os.path.exists(os.path.join(cwd, "B.zck")) else b""
        ev = zckdltier.tool_event(B, hB, A, T if tk != "empty" else b"", after, server.requested_ranges(srv.log, "B.zck"), st, full=norange, must=(special != "norange-fail"), bvalid=bvalid)
        if not bvalid:
            ck.extra.setdefault("zckdl_invalid_server_file_status", []).append([special, st])
        if special.startswith("ladder"):
            over = [e for e in srv.log if e["range"] and len(e["range"].split(",")) > mr]
            ck.extra.setdefault("zckdl_over_limit_requests_refused", []).append(len(over))
            if not over:          # recorded, not fatal: on a changed tree the contract (exactness, must) judges the run
                ck.notes.append("the range-limit scenario did not make zckdl exceed the server's limit")
        if norange:
            ck.extra.setdefault("zckdl_full_download_status", []).append([special, st])
        srv.shutdown(); srv.server_close()
        cid = "zckdl%d" % i
        name = "zckdl: %s pair, target %s, server %s, piece %d%s" % (kind, tk, "without range support" if norange else "max ranges %d" % mr, piece, (" " + " ".join(extra) if extra else "") + (" (started without descriptors %s)" % ",".join(map(str, nofd)) if nofd else ""))
        trace.append({"op": "begin", "name": name}); owner.append(cid)
        if st == "Hang" or (isinstance(st, int) and (st < 0 or st in (134, 139))):
            trace.append({"op": "Hang" if st == "Hang" else "Crash", "tool": "zckdl", "status": str(st)}); owner.append(cid)
        else:
            ev["name"] = name; trace.append(ev); owner.append(cid)
        zscripts[cid] = ("# zckdl -s A.zck %s   (server: verif/server.py max_ranges=%d)\n" % (url, mr), name, [os.path.join(root, "B.zck"), os.path.join(cwd, "A.zck"), (os.path.join(cwd, "B.zck"), T)])
        ck.case(name)
    ck.extra["zckdl_runs"] = nz
    ck.sample({"scenario": scs[0].name, "trace": [t for t, o in zip(trace, owner) if o == scs[0].cid][:8]})
    ck.sample({"scenario": scs[-1].name})
    ck.extra["rounds_total"] = len([t for t in trace if t["op"] == "round"])
    validate_segments(ck, "C04", trace, owner, wd, scripts_by=dict({s.cid: (s.script(), s.name, delta.replay_files(s)) for s in scs}, **zscripts),
                      module="Trace_Delta", cfg="Trace_Delta.cfg", start_ops=("begin",))
    if not ck.violations:
        good = [t for t, o in zip(trace, owner) if o == scs[0].cid]
        bad = json.loads(json.dumps(good))
        for t in bad:
            if t["op"] == "finish":
                t["eqB"] = False
        p = os.path.join(wd, "neg.ndjson"); common.write_ndjson(p, bad)
        ok, res = common.validate_trace("Trace_Delta", "Trace_Delta.cfg", p)
        if ok and any(t["op"] == "finish" for t in bad):
            raise Broken("negative control: a target different from B was accepted at finish")
    ck.extra["rule"] = "one case = (A, B) pair kind x initial target x range limit x fragment size x response spelling"
    ck.assumptions = ["the server is the in-process one of the driver (plain body for one range, multipart/byteranges otherwise)", "disk facts come from snapshots of the target after every step"]
    shutil.rmtree(wd, ignore_errors=True)
    return ck.finish()


def replay(path):
    for e in common.run_driver(open(path).read(), "plain"):
        print(json.dumps(e)[:1000])
    return 0
