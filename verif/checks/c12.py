"""C12 I/O failures are reported, never turned into success: for writer, reader/validate, copy/download
and tool scenarios the fault-free run is recorded first (number of read/write/lseek calls per descriptor
role), then EVERY single call is made to fail (EIO, ENOSPC, EINTR) or to be short, one at a time
(thorough: sampled double faults).  The executions are validated by TLC against the same contracts as the
fault-free checks (Writer: successful close => complete valid output; Reader: success => the file's
content; Delta: valid => bytes completely on disk; tools: exit 0 => complete correct output)."""
import os, json, random, shutil, subprocess
from concurrent.futures import ThreadPoolExecutor
from .. import common, ref, corpus, delta, readtrace, writegen
from ..common import Check, Broken
from .c02 import validate_segments

ERRS = [5, 28, 4]      # EIO ENOSPC EINTR
SHORTS = [-1, -7]


def fault_list(counts, tier, rnd):
    """counts: {(kind, sel): n}; returns list of (kind, sel, nth, action)"""
    out = []
    for (kind, sel), n in counts.items():
        for k in range(1, n + 1):
            acts = ERRS + (SHORTS if kind in "rw" else [])
            if tier == "quick" and n > 12:
                acts = [rnd.choice(ERRS)] + ([rnd.choice(SHORTS)] if kind in "rw" else [])
            for a in acts:
                out.append((kind, sel, k, a))
    return out


def stats_counts(ev, slots, temp=True):
    c = {}
    for f in ev["fdstats"]:
        if f["f"] in slots:
            c[("w", f["f"])] = f["wcalls"]; c[("r", f["f"])] = f["rcalls"]; c[("s", f["f"])] = f["scalls"]
    if temp:
        c[("w", -2)] = ev["temp_wcalls"]; c[("r", -2)] = ev["temp_rcalls"]
    return {k: v for k, v in c.items() if v > 0}


# ---------------------------------------------------------------- writer
def writer_family(ck, rnd, tier, wd, trace, owner, scripts_by):
    scen = []
    for i, (cfg, n, seg) in enumerate([({"comp": 2, "manual": True, "full": 1, "chunk": 3, "level": 3}, 5000, [700, 1300, 3000]),
                                       ({"comp": 0, "manual": False, "full": 1, "chunk": 1, "max": 20000}, 90000, [32768, 32768, 24464]),
                                       ({"comp": 2, "manual": False, "full": 0, "chunk": 3, "level": 1, "dict": True}, 70000, [70000])]):
        D = corpus.text(rnd, n) if i != 1 else corpus.rand(rnd, n)
        src = os.path.join(wd, "w%d.in" % i); open(src, "wb").write(D)
        def script(cid, fault=None, cfg=cfg, seg=seg, src=src):
            out = os.path.join(wd, cid + ".zck")
            L = ["case %s 60" % cid, "ctx 0", "open 0 %s rwt" % out, "init_write 0 0"] + writegen.cfg_lines(cfg, 0, wd, cid)
            if fault:
                L.append("shim_fault %s %d %d %d" % fault)
            pos = 0
            for k in seg:
                L.append("write 0 file:%s:%d:%d" % (src, pos, k)); pos += k
                if cfg.get("manual"): L.append("end_chunk 0")
            L += ["close 0", "shim_stats", "free 0", "end"]
            return "\n".join(L) + "\n", out
        s0, out0 = script("w%d-base" % i)
        ev = common.run_driver(s0, "plain")
        st = [e for e in ev if e["op"] == "shim_stats"][0]
        counts = stats_counts(st, {0})
        scen.append((i, D, cfg, script, counts))
    jobs = []
    for (i, D, cfg, script, counts) in scen:
        for fi, f in enumerate(fault_list(counts, tier, rnd)):
            cid = "w%d-f%d" % (i, fi)
            s, out = script(cid, f)
            jobs.append((cid, s, out, D, f, i))
    evs = common.by_case([e for part in common.run_driver_parallel(["".join(j[1] for j in jobs[k::12]) for k in range(12)], "plain", timeout=2400) for e in part])
    for (cid, s, out, D, f, i) in jobs:
        ce = evs.get(cid, [])
        name = "writer %d, fault %s on %s call %d action %d" % (i, f[0], {0: "output", -2: "temp"}.get(f[1], f[1]), f[2], f[3])
        trace.append({"op": "wstart", "case": name}); owner.append(cid)
        for e in ce:
            if e["op"] == "write":
                trace.append({"op": "write", "n": e["n"], "ret": e["ret"]}); owner.append(cid)
            elif e["op"] == "end_chunk":
                trace.append({"op": "endchunk", "ret": e["ret"]}); owner.append(cid)
            elif e["op"] == "close":
                buf = open(out, "rb").read() if os.path.exists(out) else b""
                rf = ref.RefFile(buf)
                f_ = {"valid": bool(rf.valid_strict), "contentEq": rf.content is not None and rf.content == D, "total": len(rf.content) if rf.content is not None else -1, "cutsOk": True}
                trace.append({"op": "wclose", "ret": e["ret"], "f": f_}); owner.append(cid)
            elif e["op"] in ("Crash", "Hang"):
                trace.append({"op": e["op"]}); owner.append(cid)
        scripts_by[cid] = (s, name, None)
        ck.case(name)
    return len(jobs)


# ---------------------------------------------------------------- reader / validate
def reader_family(ck, rnd, tier, wd, trace, owner, scripts_by):
    files = []
    for i, (comp, dic, sizes) in enumerate([(2, True, [300, 200, 500]), (0, False, [40000, 33000, 100]), (2, False, [70000, 10])]):
        ch = [corpus.text(rnd, 30) if dic else b""] + [corpus.text(rnd, n) for n in sizes]
        buf = ref.build_file(ch, comp_type=comp, hash_type=1, chunk_hash_type=3, level=3)[0]
        p = os.path.join(wd, "r%d.zck" % i); open(p, "wb").write(buf); files.append((i, p, buf))
    jobs = []
    for (i, p, buf) in files:
        rf = ref.RefFile(buf)
        sizes = [4096] * (len(rf.content) // 4096 + 3)
        def script(cid, fault=None, pre=(), p=p, sizes=sizes):
            sink = os.path.join(wd, cid + ".out")
            L = ["case %s 60" % cid, "ctx 0", "open 0 %s r" % p, "sink 0 %s" % sink]
            if fault: L.append("shim_fault %s %d %d %d" % fault)
            L += ["init_read 0 0"] + list(pre) + ["read 0 %d" % n for n in sizes] + ["close 0", "shim_stats", "end"]
            return "\n".join(L) + "\n", sink
        for pre in ((), ("validate_checksums 0",), ("validate_data 0",)):
            s0, _ = script("r%d-base" % i, None, pre)
            st = [e for e in common.run_driver(s0, "plain") if e["op"] == "shim_stats"][0]
            counts = stats_counts(st, {0}, temp=False)
            for fi, f in enumerate(fault_list(counts, tier, rnd)):
                cid = "r%d-%d-f%d" % (i, len(pre) and (1 if "checksums" in pre[0] else 2), fi)
                s, sink = script(cid, f, pre)
                jobs.append((cid, s, sink, rf, f, i, pre))
    evs = common.by_case([e for part in common.run_driver_parallel(["".join(j[1] for j in jobs[k::12]) for k in range(12)], "plain", timeout=2400) for e in part])
    for (cid, s, sink, rf, f, i, pre) in jobs:
        ce = evs.get(cid, [])
        name = "reader %d (%s), fault %s call %d action %d" % (i, pre[0] if pre else "plain read", f[0], f[2], f[3])
        t = readtrace.enrich(ce, sink, rf)
        if not t or t[0]["op"] != "open":
            t = [{"op": "open", "f": readtrace.facts(rf), "ret": 0}] + t
        # the validation verdict under a fault: success only if it is the truth (the file is valid)
        for e in ce:
            if e["op"] in ("validate_checksums", "validate_data") and t[0]["ret"] == 1:
                t.insert(1, {"op": "valdata", "ret": 1 if e["ret"] == 1 else 0, "es": 1})
        for x in t:
            trace.append(x); owner.append(cid)
        scripts_by[cid] = (s, name, None)
        ck.case(name)
    return len(jobs)


# ---------------------------------------------------------------- copy + download
def delta_family(ck, rnd, tier, wd, trace, owner, scripts_by):
    cA = [b""] + [corpus.text(rnd, n) for n in (300, 33000, 200, 40010)]
    cB = [b""] + [cA[1], corpus.rand(rnd, 35000), cA[4], corpus.text(rnd, 150), cA[2]]
    A = ref.build_file(cA, comp_type=0, hash_type=1, chunk_hash_type=3)[0]; B = ref.build_file(cB, comp_type=0, hash_type=1, chunk_hash_type=3)[0]
    base = delta.Scenario("d-base", wd, B, b"", sources=[A], limit=-1, frag=16384); base.write_files()
    L = base.script().splitlines(); L.insert(-1, "shim_stats")
    st = [e for e in common.run_driver("\n".join(L) + "\n", "plain") if e["op"] == "shim_stats"][0]
    counts = stats_counts(st, {0, 1}, temp=False)
    jobs = []
    for fi, f in enumerate(fault_list(counts, tier, rnd)):
        cid = "d-f%d" % fi
        sc = delta.Scenario(cid, wd, B, b"", sources=[A], limit=-1, frag=16384, name="copy+download, fault %s on %s call %d action %d" % (f[0], {0: "target", 1: "source"}[f[1]], f[2], f[3]))
        sc.write_files()
        lines = sc.script().splitlines(); idx = lines.index("dl_init 0 0"); lines.insert(idx + 1, "shim_fault %s %d %d %d" % f)
        jobs.append((cid, sc, "\n".join(lines) + "\n", f))
    evs = common.by_case([e for part in common.run_driver_parallel(["".join(j[2] for j in jobs[k::12]) for k in range(12)], "plain", timeout=2400) for e in part])
    for (cid, sc, s, f) in jobs:
        t = delta.enrich(sc, evs.get(cid, []))
        # under faults only the safety half of the contract applies: drop completeness obligations by marking
        # rounds as not well-formed/complete and copies as "source refused" where the call itself failed
        for x in t:
            if x["op"] == "round":
                x["wellFormed"] = False
            if x["op"] == "copy":
                x["op"] = "copyf"
            if x["op"] == "scan":
                x["op"] = "scanf"
        t = [x for x in t if x["op"] not in ("finish",) and not (x["op"] == "Crash" and x.get("why") == "header of B not accepted")]
        for x in t:
            trace.append(x); owner.append(cid)
        scripts_by[cid] = (s, sc.name, delta.replay_files(sc))
        ck.case(sc.name)
    return len(jobs)


# ---------------------------------------------------------------- tools
def tool_family(ck, rnd, tier, bd, wd, trace, owner):
    zck = os.path.join(bd, "zck"); unzck = os.path.join(bd, "unzck")
    D = corpus.text(rnd, 100000)
    d0 = os.path.join(wd, "tool-base"); os.makedirs(d0)
    open(os.path.join(d0, "input.bin"), "wb").write(D)
    tr = os.path.join(d0, "trace.ndjson")
    env = dict(os.environ); env.update({"ZV_ROLES": "in=input.bin;out=input.bin.zck", "ZV_TRACE": tr})
    subprocess.run([zck, "-o", "input.bin.zck", "input.bin"], cwd=d0, env=env, stdout=subprocess.DEVNULL, stderr=subprocess.DEVNULL, timeout=60)
    calls = [json.loads(l) for l in open(tr)] if os.path.exists(tr) else []
    cnt = {}
    for c in calls:
        key = (c["k"], c["role"]); cnt[key] = cnt.get(key, 0) + 1
    good_zck = open(os.path.join(d0, "input.bin.zck"), "rb").read()
    faults = []
    for (k, role), n in cnt.items():
        ks = range(1, n + 1) if (tier == "thorough" or n <= 6) else sorted(set([1, 2, n, n // 2] + rnd.sample(range(1, n + 1), 3)))
        for nth in ks:
            for a in ([5, 28] if tier == "quick" else ERRS) + ([-1] if k in "rw" else []):
                faults.append(("zck", k, role, nth, a))
    # unzck
    tr2 = os.path.join(d0, "trace2.ndjson"); env2 = dict(os.environ); env2.update({"ZV_ROLES": "in=input.bin.zck;out=input.bin", "ZV_TRACE": tr2})
    os.remove(os.path.join(d0, "input.bin"))
    subprocess.run([unzck, "input.bin.zck"], cwd=d0, env=env2, stdout=subprocess.DEVNULL, stderr=subprocess.DEVNULL, timeout=60)
    cnt2 = {}
    for l in (open(tr2) if os.path.exists(tr2) else []):
        c = json.loads(l); key = (c["k"], c["role"]); cnt2[key] = cnt2.get(key, 0) + 1
    for (k, role), n in cnt2.items():
        ks = range(1, n + 1) if (tier == "thorough" or n <= 6) else sorted(set([1, 2, n, n // 2] + rnd.sample(range(1, n + 1), 3)))
        for nth in ks:
            for a in ([5, 28] if tier == "quick" else ERRS) + ([-1] if k in "rw" else []):
                faults.append(("unzck", k, role, nth, a))
    def work(j):
        i, (tool, k, role, nth, a) = j
        d = os.path.join(wd, "tool-f%d" % i); os.makedirs(d)
        e = dict(os.environ)
        if tool == "zck":
            open(os.path.join(d, "input.bin"), "wb").write(D)
            e.update({"ZV_ROLES": "in=input.bin;out=input.bin.zck", "ZV_FAULT": "%s:%s:%d:%d" % (k, role, nth, a)})
            try:
                p = subprocess.run([zck, "-o", "input.bin.zck", "input.bin"], cwd=d, env=e, stdout=subprocess.DEVNULL, stderr=subprocess.DEVNULL, timeout=60); rc = p.returncode
            except subprocess.TimeoutExpired:
                return (j, "Hang", None)
            outp = os.path.join(d, "input.bin.zck")
            buf = open(outp, "rb").read() if os.path.exists(outp) else b""
            rf = ref.RefFile(buf)
            return (j, rc, {"valid": bool(rf.valid_strict), "contentEq": rf.content is not None and rf.content == D})
        else:
            open(os.path.join(d, "input.bin.zck"), "wb").write(good_zck)
            e.update({"ZV_ROLES": "in=input.bin.zck;out=input.bin", "ZV_FAULT": "%s:%s:%d:%d" % (k, role, nth, a)})
            try:
                p = subprocess.run([unzck, "input.bin.zck"], cwd=d, env=e, stdout=subprocess.DEVNULL, stderr=subprocess.DEVNULL, timeout=60); rc = p.returncode
            except subprocess.TimeoutExpired:
                return (j, "Hang", None)
            outp = os.path.join(d, "input.bin")
            got = open(outp, "rb").read() if os.path.exists(outp) else None
            return (j, rc, got == D)
    with ThreadPoolExecutor(max_workers=common.NCPU) as ex:
        res = list(ex.map(work, list(enumerate(faults))))
    for (j, rc, f) in res:
        i, (tool, k, role, nth, a) = j
        cid = "tool-f%d" % i
        name = "%s, fault %s on %s call %d action %d" % (tool, k, role, nth, a)
        trace.append({"op": "wstart", "case": name}); owner.append(cid)
        if rc == "Hang" or (isinstance(rc, int) and (rc < 0 or rc in (134, 139))):
            trace.append({"op": "Crash" if rc != "Hang" else "Hang", "tool": tool, "rc": str(rc)}); owner.append(cid)
        elif tool == "zck":
            trace.append({"op": "zck", "status": rc, "f": f}); owner.append(cid)
        else:
            trace.append({"op": "unzckf", "status": rc, "outEq": bool(f)}); owner.append(cid)
        ck.case(name)
    return len(faults)


def run(tier):
    ck = Check("C12", tier, level="model_checking")
    rnd = random.Random(common.seed())
    bd = common.build("plain")
    wd = common.workdir("c12")
    sb = {}
    tw = []; ow = []; tr = []; orr = []; td = []; od = []
    nw = writer_family(ck, rnd, tier, wd, tw, ow, sb)
    nt = tool_family(ck, rnd, tier, bd, wd, tw, ow)
    nr = reader_family(ck, rnd, tier, wd, tr, orr, sb)
    nd = delta_family(ck, rnd, tier, wd, td, od, sb)
    ck.extra["single_faults"] = {"writer": nw, "tools": nt, "reader_validate": nr, "copy_download": nd}
    ck.sample({"writer_case": tw[0].get("case"), "events": tw[:6]})
    ck.sample({"reader_case": [t for t in tr[:6]]})
    validate_segments(ck, "C12", tw, ow, wd, scripts_by=sb, module="Trace_Writer", cfg="Trace_Writer.cfg", start_ops=("wstart",))
    validate_segments(ck, "C12", tr, orr, wd, scripts_by=sb, module="Trace_Reader", cfg="Trace_Reader.cfg", start_ops=("open",))
    validate_segments(ck, "C12", td, od, wd, scripts_by=sb, module="Trace_Delta", cfg="Trace_Delta.cfg", start_ops=("begin",))
    if not ck.violations:
        neg = [{"op": "wstart"}, {"op": "write", "n": 5, "ret": 5}, {"op": "wclose", "ret": 1, "f": {"valid": False, "contentEq": False, "total": -1, "cutsOk": True}}]
        p = os.path.join(wd, "neg.ndjson"); common.write_ndjson(p, neg)
        ok, res = common.validate_trace("Trace_Writer", "Trace_Writer.cfg", p)
        if ok:
            raise Broken("negative control: a successful close with incomplete output was accepted")
    ck.extra["rule"] = "one case = (scenario, k-th read/write/lseek on a descriptor role, errno or short count); exhaustive single faults per scenario (sampled per call kind above 12 calls in quick tier)"
    ck.assumptions = ["faults are injected at the link-time syscall wrapper; malloc, mkstemp, ftruncate and libcurl faults are not injected"]
    shutil.rmtree(wd, ignore_errors=True)
    return ck.finish()


def replay(path):
    for e in common.run_driver(open(path).read(), "plain"):
        print(json.dumps(e)[:1000])
    return 0
