"""C12 I/O failures are reported, never turned into success: for writer, reader/validate, copy/download
and tool scenarios the fault-free run is recorded first (number of read/write/lseek calls per descriptor
role), then EVERY single call is made to fail (EIO, ENOSPC, EINTR) or to be short, one at a time
(thorough: sampled double faults).  The executions are validated by TLC against the same contracts as the
fault-free checks (Writer: successful close => complete valid output; Reader: success => the file's
content; Delta: valid => bytes completely on disk; tools: exit 0 => complete correct output)."""
import os, json, random, shutil, subprocess
from concurrent.futures import ThreadPoolExecutor
from .. import common, ref, corpus, delta, readtrace, writegen, server, zckdltier
from ..common import Check, Broken
from .c02 import validate_segments

ERRS = [5, 28, 4]      # EIO ENOSPC EINTR
SHORTS = [-1, -7]


def fault_list(counts, tier, rnd):
    """counts: {(kind, sel): n}; returns list of (kind, sel, nth, action)"""
    out = []
    for (kind, sel), n in counts.items():
        for k in range(1, n + 1):
            acts = ERRS + (SHORTS if kind in "rw" else []) + ([0] if kind == "r" else [])     # (a read that returns 0: the file stops there)
            if tier == "quick" and n > 12 and k not in (1, 2, n // 2, n - 1, n):
                acts = [rnd.choice(ERRS)] + ([rnd.choice(SHORTS)] if kind in "rw" else []) + ([0] if kind == "r" else [])
            for a in acts:
                out.append((kind, sel, k, a))
            # double faults: a short write followed by a failing / short / zero retry (write_data retries once), a short read
            # followed by an error
            if kind == "w" and (tier != "quick" or n <= 12 or k in (1, n)):
                for a2 in (5, -1, 0):
                    out.append([(kind, sel, k, -1), (kind, sel, k + 1, a2)])
            if kind == "r" and (tier != "quick" or n <= 12 or k in (1, n)):
                out.append([(kind, sel, k, -7), (kind, sel, k + 1, 5)])
    return out


def fault_lines(f):
    fl = f if isinstance(f, list) else [f]
    return ["shim_fault %s %d %d %d" % x for x in fl]


def fault_name(f, names):
    fl = f if isinstance(f, list) else [f]
    return " then ".join("fault %s on %s call %d action %d" % (x[0], names.get(x[1], x[1]), x[2], x[3]) for x in fl)


def stats_counts(ev, slots, temp=True):
    c = {}
    for f in ev["fdstats"]:
        if f["f"] in slots:
            c[("w", f["f"])] = f["wcalls"]; c[("r", f["f"])] = f["rcalls"]; c[("s", f["f"])] = f["scalls"]
    if temp:
        c[("w", -2)] = ev["temp_wcalls"]; c[("r", -2)] = ev["temp_rcalls"]; c[("s", -2)] = ev.get("temp_scalls", 0)
    return {k: v for k, v in c.items() if v > 0}


# ---------------------------------------------------------------- writer
def writer_family(ck, rnd, tier, wd, trace, owner, scripts_by):
    scen = []
    for i, (cfg, n, seg) in enumerate([({"comp": 2, "manual": True, "full": 1, "chunk": 3, "level": 3}, 5000, [700, 1300, 3000]),
                                       ({"comp": 0, "manual": False, "full": 1, "chunk": 1, "max": 20000}, 90000, [32768, 32768, 24464]),
                                       ({"comp": 2, "manual": False, "full": 0, "chunk": 3, "level": 1, "dict": True}, 70000, [70000])]):
        D = corpus.text(rnd, n) if i != 1 else corpus.rand(rnd, n)
        src = os.path.join(wd, "w%d.in" % i); open(src, "wb").write(D)
        def script(cid, fault=None, cfg=cfg, seg=seg, src=src):
            out = os.path.join(wd, cid + ".zck")
            L = ["case %s 60" % cid, "ctx 0", "open 0 %s rwt" % out, "init_write 0 0"] + writegen.cfg_lines(cfg, 0, wd, cid)
            if fault:
                L += fault_lines(fault)
            pos = 0
            for k in seg:
                L.append("write 0 file:%s:%d:%d" % (src, pos, k)); pos += k
                if cfg.get("manual"): L.append("end_chunk 0")
            L += ["close 0", "shim_stats", "free 0", "end"]
            return "\n".join(L) + "\n", out
        s0, out0 = script("w%d-base" % i)
        ev = common.run_driver(s0, "plain")
        st = [e for e in ev if e["op"] == "shim_stats"][0]
        counts = stats_counts(st, {0})
        scen.append((i, D, cfg, script, counts))
    jobs = []
    for (i, D, cfg, script, counts) in scen:
        for fi, f in enumerate(fault_list(counts, tier, rnd)):
            cid = "w%d-f%d" % (i, fi)
            s, out = script(cid, f)
            jobs.append((cid, s, out, D, f, i))
    evs = common.by_case([e for part in common.run_driver_parallel(["".join(j[1] for j in jobs[k::12]) for k in range(12)], "plain", timeout=2400) for e in part])
    for (cid, s, out, D, f, i) in jobs:
        ce = evs.get(cid, [])
        name = "writer %d, %s" % (i, fault_name(f, {0: "output", -2: "temp"}))
        trace.append({"op": "wstart", "case": name}); owner.append(cid)
        for e in ce:
            if e["op"] == "write":
                trace.append({"op": "write", "n": e["n"], "ret": e["ret"]}); owner.append(cid)
            elif e["op"] == "end_chunk":
                trace.append({"op": "endchunk", "ret": e["ret"]}); owner.append(cid)
            elif e["op"] == "close":
                buf = open(out, "rb").read() if os.path.exists(out) else b""
                rf = ref.RefFile(buf)
                f_ = {"valid": bool(rf.valid_strict), "contentEq": rf.content is not None and rf.content == D, "total": len(rf.content) if rf.content is not None else -1, "cutsOk": True}
                trace.append({"op": "wclose", "ret": e["ret"], "f": f_}); owner.append(cid)
            elif e["op"] in ("Crash", "Hang"):
                trace.append({"op": e["op"]}); owner.append(cid)
        scripts_by[cid] = (s, name, None)
        ck.case(name)
    return len(jobs)


# ---------------------------------------------------------------- reader / validate
def reader_family(ck, rnd, tier, wd, trace, owner, scripts_by):
    files = []
    for i, (comp, dic, sizes) in enumerate([(2, True, [300, 200, 500]), (0, False, [40000, 33000, 100]), (2, False, [70000, 10]), (2, False, [900, 700, 800, 600]), (0, False, [5000, 3000, 4000])]):
        ch = [corpus.text(rnd, 30) if dic else b""] + [corpus.text(rnd, n) for n in sizes]
        # (the last two carry uncompressed-source checksums: such files have no whole-data checksum to fall back on)
        buf = ref.build_file(ch, comp_type=comp, hash_type=1, chunk_hash_type=3 if i < 3 else 1, level=3, flags=0 if i < 3 else 4)[0]
        p = os.path.join(wd, "r%d.zck" % i); open(p, "wb").write(buf); files.append((i, p, buf))
    jobs = []
    for (i, p, buf) in files:
        rf = ref.RefFile(buf)
        sizes = [4096] * (len(rf.content) // 4096 + 3)
        def script(cid, fault=None, pre=(), p=p, sizes=sizes):
            sink = os.path.join(wd, cid + ".out")
            L = ["case %s 60" % cid, "ctx 0", "open 0 %s r" % p, "sink 0 %s" % sink]
            if fault: L += fault_lines(fault)
            L += ["init_read 0 0"] + list(pre) + ["read 0 %d" % n for n in sizes] + ["close 0", "shim_stats", "end"]
            return "\n".join(L) + "\n", sink
        for pre in ((), ("validate_checksums 0",), ("validate_data 0",)):
            s0, _ = script("r%d-base" % i, None, pre)
            st = [e for e in common.run_driver(s0, "plain") if e["op"] == "shim_stats"][0]
            counts = stats_counts(st, {0}, temp=False)
            for fi, f in enumerate(fault_list(counts, tier, rnd)):
                cid = "r%d-%d-f%d" % (i, len(pre) and (1 if "checksums" in pre[0] else 2), fi)
                s, sink = script(cid, f, pre)
                jobs.append((cid, s, sink, rf, f, i, pre))
    # the calls that read the lead and the header, one at a time, with every read / seek on the input failing in turn:
    # a call during which a system call failed has not read what it reports on (Reader!RLeadCall)
    lead_jobs = []
    for ht in (0, 1, 2, 3):
        buf = ref.build_file([b"", corpus.text(rnd, 60), corpus.text(rnd, 40)], comp_type=0, hash_type=ht, chunk_hash_type=1)[0]
        p = os.path.join(wd, "lead%d.zck" % ht); open(p, "wb").write(buf)
        for calls in (("read_lead",), ("validate_lead",), ("read_lead", "read_header"), ("validate_lead", "validate_lead"), ("validate_lead", "read_lead", "read_header")):
            for k in range(1, 2 * len(calls) + 2):
                # (EIO and ENOSPC: a library that retries an interrupted read and then succeeds has achieved what it reports)
                for kind, errs in (("r", ERRS[:2]), ("s", ERRS[:1])):
                    for a in errs:
                        cid = "lead%d-%s-%s%d-%d" % (ht, "".join(c[0] + c[-1] for c in calls), kind, k, a)
                        L = ["case %s 30" % cid, "ctx 0", "open 0 %s r" % p, "init_adv_read 0 0", "shim_fault %s 0 %d %d" % (kind, k, a)] + ["%s 0" % c for c in calls] + ["end"]
                        lead_jobs.append((cid, "\n".join(L) + "\n", ht, calls, kind, k, a))
    levs = common.by_case([e for part in common.run_driver_parallel(["".join(j[1] for j in lead_jobs[k::8]) for k in range(8)], "plain", timeout=600) for e in part])
    for (cid, s, ht, calls, kind, k, a) in lead_jobs:
        name = "lead calls %s on an overall checksum type %d file, fault %s on input call %d action %d" % ("+".join(calls), ht, kind, k, a)
        trace.append({"op": "begin", "case": name}); owner.append(cid)
        seen = 0
        for e in levs.get(cid, []):
            if e["op"] in ("read_lead", "validate_lead", "read_header"):
                newly = e.get("firederr", 0) > seen; seen = e.get("firederr", 0)
                trace.append({"op": "leadcall", "call": e["op"], "ret": e["ret"], "failed": bool(newly)}); owner.append(cid)
            elif e["op"] in ("Crash", "Hang"):
                trace.append({"op": e["op"]}); owner.append(cid)
        scripts_by[cid] = (s, name, None)
        ck.case(name)
    evs = common.by_case([e for part in common.run_driver_parallel(["".join(j[1] for j in jobs[k::12]) for k in range(12)], "plain", timeout=2400) for e in part])
    for (cid, s, sink, rf, f, i, pre) in jobs:
        ce = evs.get(cid, [])
        name = "reader %d (%s), %s" % (i, pre[0] if pre else "plain read", fault_name(f, {0: "input"}))
        t = readtrace.enrich(ce, sink, rf)
        if not t or t[0]["op"] != "open":
            t = [{"op": "open", "f": readtrace.facts(rf), "ret": 0}] + t
        # the validation verdict under a fault: success only if it is the truth (the file is valid)
        for e in ce:
            if e["op"] in ("validate_checksums", "validate_data") and t[0]["ret"] == 1:
                t.insert(1, {"op": "valdata", "ret": 1 if e["ret"] == 1 else 0, "es": 1})
        for x in t:
            trace.append(x); owner.append(cid)
        scripts_by[cid] = (s, name, None)
        ck.case(name)
    return len(jobs)


# ---------------------------------------------------------------- copy + download
def delta_family(ck, rnd, tier, wd, trace, owner, scripts_by):
    cA = [b""] + [corpus.text(rnd, n) for n in (300, 33000, 200, 40010)]
    cB = [b""] + [cA[1], corpus.rand(rnd, 35000), cA[4], corpus.text(rnd, 150), cA[2]]
    A = ref.build_file(cA, comp_type=0, hash_type=1, chunk_hash_type=3)[0]; B = ref.build_file(cB, comp_type=0, hash_type=1, chunk_hash_type=3)[0]
    base = delta.Scenario("d-base", wd, B, b"", sources=[A], limit=-1, frag=16384); base.write_files()
    L = base.script().splitlines(); L.insert(-1, "shim_stats")
    st = [e for e in common.run_driver("\n".join(L) + "\n", "plain") if e["op"] == "shim_stats"][0]
    counts = stats_counts(st, {0, 1}, temp=False)
    jobs = []
    for fi, f in enumerate(fault_list(counts, tier, rnd)):
        cid = "d-f%d" % fi
        sc = delta.Scenario(cid, wd, B, b"", sources=[A], limit=-1, frag=16384, name="copy+download, " + fault_name(f, {0: "target", 1: "source"}))
        sc.write_files()
        lines = sc.script().splitlines()
        # a rule is bound to the descriptor its slot holds when the rule is read: those on the source go after its open
        on_src = (f[0][1] if isinstance(f, list) else f[1]) == 1
        idx = [j for j, l in enumerate(lines) if l.startswith("open 1 ")][0] if on_src else lines.index("dl_init 0 0")
        lines[idx + 1:idx + 1] = fault_lines(f)
        jobs.append((cid, sc, "\n".join(lines) + "\n", f))
    evs = common.by_case([e for part in common.run_driver_parallel(["".join(j[2] for j in jobs[k::12]) for k in range(12)], "plain", timeout=2400) for e in part])
    for (cid, sc, s, f) in jobs:
        t = delta.enrich(sc, evs.get(cid, []))
        # under faults only the safety half of the contract applies: drop completeness obligations by marking
        # rounds as not well-formed/complete and copies as "source refused" where the call itself failed
        for x in t:
            if x["op"] == "round":
                x["wellFormed"] = False
            if x["op"] == "copy":
                x["op"] = "copyf"
            if x["op"] == "scan":
                x["op"] = "scanf"
        t = [x for x in t if x["op"] not in ("finish",) and not (x["op"] == "Crash" and x.get("why") == "header of B not accepted")]
        # a failing system call during a round has to surface in a callback's return value
        t2 = []; seen = 0
        for x in t:
            t2.append(x)
            if x["op"] == "round":
                tot = x.pop("firederrTotal", 0)
                t2.append({"op": "roundfault", "firedErr": tot > 0, "anyErr": bool(x["anyErr"])})      # faults that fired during this round only
        t = t2
        for x in t:
            trace.append(x); owner.append(cid)
        scripts_by[cid] = (s, sc.name, delta.replay_files(sc))
        ck.case(sc.name)
    return len(jobs)


# ---------------------------------------------------------------- tools
def tool_family(ck, rnd, tier, bd, wd, trace, owner):
    """zck (plain, with a dictionary, with a split string), unzck (decompress, --header, --dict): for each run every read /
    write / lseek on a named file role fails or is short once; for writes additionally "short, then the retry fails"."""
    zck = os.path.join(bd, "zck"); unzck = os.path.join(bd, "unzck")
    D = corpus.text(rnd, 100000)
    dictb = corpus.text(rnd, 3000)
    d0 = os.path.join(wd, "tool-base"); os.makedirs(d0)
    open(os.path.join(d0, "input.bin"), "wb").write(D); open(os.path.join(d0, "dict.bin"), "wb").write(dictb)
    subprocess.run([zck, "-o", "plain.zck", "input.bin"], cwd=d0, stdout=subprocess.DEVNULL, stderr=subprocess.DEVNULL, timeout=60)
    subprocess.run([zck, "-D", "dict.bin", "-o", "withdict.zck", "input.bin"], cwd=d0, stdout=subprocess.DEVNULL, stderr=subprocess.DEVNULL, timeout=60)
    good = open(os.path.join(d0, "plain.zck"), "rb").read(); goodd = open(os.path.join(d0, "withdict.zck"), "rb").read()
    # content with whole 32 KiB blocks of zeros at block-aligned offsets (a tool may treat them specially: holes)
    DZ = corpus.text(rnd, 32768) + bytes(65536) + corpus.text(rnd, 40000)[:32768] + bytes(32768) + corpus.text(rnd, 5000)
    open(os.path.join(d0, "zeros.bin"), "wb").write(DZ)
    subprocess.run([zck, "-o", "zeros.zck", "zeros.bin"], cwd=d0, stdout=subprocess.DEVNULL, stderr=subprocess.DEVNULL, timeout=60)
    goodz = open(os.path.join(d0, "zeros.zck"), "rb").read() if os.path.exists(os.path.join(d0, "zeros.zck")) else b""
    hd = ref.parse_header(goodd)
    if not (ref.RefFile(good).valid_strict and ref.RefFile(goodd).valid_strict and hd.entries[0]["clen"] > 0):
        raise Broken("tool baseline files are not valid")
    detached = b"\0ZHR1" + goodd[5:hd.hdr_total + hd.entries[0]["clen"]]
    def zck_ok(name, content):
        def f(d):
            pth = os.path.join(d, name); buf = open(pth, "rb").read() if os.path.exists(pth) else b""
            rf = ref.RefFile(buf)
            return bool(rf.valid_strict) and rf.content is not None and rf.content == content
        return f
    def file_is(name, want):
        def f(d):
            pth = os.path.join(d, name)
            return os.path.exists(pth) and open(pth, "rb").read() == want
        return f
    # (tool id, argv, input files, roles, oracle over the run directory)
    RUNS = [("zck", [zck, "-o", "input.bin.zck", "input.bin"], {"input.bin": D}, "in=input.bin;out=input.bin.zck", zck_ok("input.bin.zck", D)),
            ("zck -D", [zck, "-D", "dict.bin", "-o", "input.bin.zck", "input.bin"], {"input.bin": D, "dict.bin": dictb}, "in=input.bin;out=input.bin.zck;dict=dict.bin", zck_ok("input.bin.zck", D)),
            ("zck -s", [zck, "-s", "the", "-o", "input.bin.zck", "input.bin"], {"input.bin": D}, "in=input.bin;out=input.bin.zck", zck_ok("input.bin.zck", D)),
            ("unzck", [unzck, "input.bin.zck"], {"input.bin.zck": good}, "in=input.bin.zck;out=input.bin", file_is("input.bin", D)),
            ("unzck (zero blocks)", [unzck, "zeros.zck"], {"zeros.zck": goodz}, "in=zeros.zck;out=zeros", file_is("zeros", DZ)),
            ("unzck (dict file)", [unzck, "withdict.zck"], {"withdict.zck": goodd}, "in=withdict.zck;out=withdict", file_is("withdict", D)),
            ("unzck --header", [unzck, "--header", "withdict.zck"], {"withdict.zck": goodd}, "in=withdict.zck;out=withdict.zhr", file_is("withdict.zhr", detached)),
            ("unzck --dict", [unzck, "--dict", "withdict.zck"], {"withdict.zck": goodd}, "in=withdict.zck;out=withdict.zdict", file_is("withdict.zdict", dictb))]
    faults = []
    for ri, (tool, argv, files, roles, oracle) in enumerate(RUNS):
        d = os.path.join(wd, "tool-count-%d" % ri); os.makedirs(d)
        for fn, data in files.items():
            open(os.path.join(d, fn), "wb").write(data)
        tr = os.path.join(d, "trace.ndjson")
        env = dict(os.environ); env.update({"ZV_ROLES": roles, "ZV_TRACE": tr})
        p = subprocess.run(argv, cwd=d, env=env, stdout=subprocess.DEVNULL, stderr=subprocess.DEVNULL, timeout=60)
        if p.returncode == 0 and not oracle(d):      # exit 0 with a wrong output, and not even a fault was needed
            trace.append({"op": "wstart", "case": "%s, no fault" % tool}); owner.append("tool-base%d" % ri)
            trace.append({"op": "toolf", "tool": tool, "status": 0, "outOk": False}); owner.append("tool-base%d" % ri)
            continue
        if p.returncode != 0:                          # fails without any fault on this tree: its fault points cannot be enumerated
            ck.notes.append("tool run skipped, it fails fault-free on this tree: %s (rc=%s)" % (tool, p.returncode)); continue
        cnt = {}
        for l in (open(tr) if os.path.exists(tr) else []):
            c = json.loads(l); key = (c["k"], c["role"]); cnt[key] = cnt.get(key, 0) + 1
        for (k, role), n in sorted(cnt.items()):
            ks = range(1, n + 1) if (tier == "thorough" or n <= 6) else sorted(set([1, 2, n, n // 2] + rnd.sample(range(1, n + 1), 3 if ri < 2 or ri in (3, 4) else 1)))
            for nth in ks:
                for a in ERRS + ([-1] if k in "rw" else []) + ([0] if (k == "r" and tool.startswith("unzck")) else []):   # every errno matters: code may special-case one (EINTR retries); a read returning 0: the file stops there (for unzck, whose input says how long it is; for zck's raw input that IS the end of the input)
                    faults.append((ri, [(k, role, nth, a)]))
                if k == "w":        # a short write whose retry fails, or is short again
                    for a2 in ((5, -1) if tier == "quick" else (5, 28, -1, 0)):
                        faults.append((ri, [(k, role, nth, -1), (k, role, nth + 1, a2)]))
    def work(j):
        i, (ri, fl) = j
        tool, argv, files, roles, oracle = RUNS[ri]
        d = os.path.join(wd, "tool-f%d" % i); os.makedirs(d)
        for fn, data in files.items():
            open(os.path.join(d, fn), "wb").write(data)
        e = dict(os.environ)
        e.update({"ZV_ROLES": roles, "ZV_FAULT": ";".join("%s:%s:%d:%d" % f for f in fl)})
        try:
            p = subprocess.run(argv, cwd=d, env=e, stdout=subprocess.DEVNULL, stderr=subprocess.DEVNULL, timeout=60); rc = p.returncode
        except subprocess.TimeoutExpired:
            return (j, "Hang", None)
        ok = oracle(d)
        shutil.rmtree(d, ignore_errors=True)
        return (j, rc, ok)
    with ThreadPoolExecutor(max_workers=common.NCPU) as ex:
        res = list(ex.map(work, list(enumerate(faults))))
    for (j, rc, ok) in res:
        i, (ri, fl) = j
        tool = RUNS[ri][0]
        cid = "tool-f%d" % i
        name = "%s, %s" % (tool, " then ".join("fault %s on %s call %d action %d" % f for f in fl))
        trace.append({"op": "wstart", "case": name}); owner.append(cid)
        if rc == "Hang" or (isinstance(rc, int) and (rc < 0 or rc in (134, 139))):
            trace.append({"op": "Crash" if rc != "Hang" else "Hang", "tool": tool, "rc": str(rc)}); owner.append(cid)
        else:
            trace.append({"op": "toolf", "tool": tool, "status": rc, "outOk": bool(ok)}); owner.append(cid)
        ck.case(name)
    return len(faults)


# ---------------------------------------------------------------- zckdl
def zckdl_family(ck, rnd, tier, bd, wd, trace, owner):
    """the shipped downloader against the loopback server: every read / write / lseek on the target and on the local
    source fails or is short once (writes also: short, then the retry fails); exit 0 => the target is exactly B"""
    cB = [b""] + [corpus.text(rnd, 400 + 70 * k) if k != 5 else corpus.rand(rnd, 40000) for k in range(10)]
    cA = [b""] + [cB[k] for k in range(1, 11) if k % 2 == 0]
    kw = dict(comp_type=0, hash_type=1, chunk_hash_type=3)
    A = ref.build_file(cA, **kw)[0]; B = ref.build_file(cB, **kw)[0]
    root = os.path.join(wd, "dlsrv"); os.makedirs(root); open(os.path.join(root, "B.zck"), "wb").write(B)
    srv = server.start(root, max_ranges=0, piece=16384)
    url = "http://127.0.0.1:%d/B.zck" % srv.server_address[1]
    faults = []
    try:
        for ti, T in enumerate((None, A + corpus.rand(rnd, 3000))):
            d = os.path.join(wd, "dl-count-%d" % ti); os.makedirs(d); open(os.path.join(d, "A.zck"), "wb").write(A)
            if T is not None: open(os.path.join(d, "B.zck"), "wb").write(T)
            tr = os.path.join(d, "trace.ndjson")
            st = zckdltier.run_zckdl(bd, d, url, src="A.zck", trace=tr)
            okB = os.path.exists(os.path.join(d, "B.zck")) and open(os.path.join(d, "B.zck"), "rb").read() == B
            if st == 0 and not okB:
                trace.append({"op": "wstart", "case": "zckdl, no fault"}); owner.append("dl-base%d" % ti)
                trace.append({"op": "toolf", "tool": "zckdl", "status": 0, "outOk": False}); owner.append("dl-base%d" % ti)
                continue
            if st != 0:
                ck.notes.append("zckdl runs skipped, the fault-free update fails on this tree (status %s)" % st); continue
            cnt = {}
            for l in (open(tr) if os.path.exists(tr) else []):
                c = json.loads(l); key = (c["k"], c["role"]); cnt[key] = cnt.get(key, 0) + 1
            if not any(r == "tgt" for (_, r) in cnt) or not any(r == "src" for (_, r) in cnt):
                ck.notes.append("zckdl's target/source calls were not observed"); continue
            for (k, role), n in sorted(cnt.items()):
                ks = range(1, n + 1) if (tier == "thorough" or n <= 8) else sorted(set([1, 2, 3, n - 1, n, n // 2] + rnd.sample(range(1, n + 1), 4)))
                for nth in ks:
                    for a in ([5, 4] if tier == "quick" else ERRS) + ([-1] if k in "rw" else []) + ([0] if k == "r" else []):
                        faults.append((ti, [(k, role, nth, a)]))
                    if k == "w" and (tier != "quick" or nth in (1, 2, n)):
                        faults.append((ti, [(k, role, nth, -1), (k, role, nth + 1, 5)]))
        def work(j):
            i, (ti, fl) = j
            d = os.path.join(wd, "dl-f%d" % i); os.makedirs(d); open(os.path.join(d, "A.zck"), "wb").write(A)
            if ti == 1: open(os.path.join(d, "B.zck"), "wb").write(A + bytes(3000))
            st = zckdltier.run_zckdl(bd, d, url, src="A.zck", fault=fl)
            pth = os.path.join(d, "B.zck")
            ok = os.path.exists(pth) and open(pth, "rb").read() == B
            shutil.rmtree(d, ignore_errors=True)
            return (j, st, ok)
        with ThreadPoolExecutor(max_workers=common.NCPU) as ex:
            res = list(ex.map(work, list(enumerate(faults))))
    finally:
        srv.shutdown(); srv.server_close()
    for (j, rc, ok) in res:
        i, (ti, fl) = j
        cid = "dl-f%d" % i
        name = "zckdl (%s target), %s" % ("no" if ti == 0 else "old longer", " then ".join("fault %s on %s call %d action %d" % f for f in fl))
        trace.append({"op": "wstart", "case": name}); owner.append(cid)
        if rc == "Hang" or (isinstance(rc, int) and (rc < 0 or rc in (134, 139))):
            trace.append({"op": "Crash" if rc != "Hang" else "Hang", "tool": "zckdl", "rc": str(rc)}); owner.append(cid)
        else:
            trace.append({"op": "toolf", "tool": "zckdl", "status": rc, "outOk": bool(ok)}); owner.append(cid)
        ck.case(name)
    return len(faults)


# ---------------------------------------------------------------- IOFault behaviours replayed (R3)
def iofault_replay(ck, rnd, tier, wd, trace, owner, scripts_by):
    """every behaviour of the IOFault model (the outcome of each lseek / read / write of the copy phase of zck_close) is
    replayed into the real code: one model byte = UNIT real bytes, the outcomes become fault rules of the I/O shim.  The
    Writer contract judges each execution (successful close => complete valid output); in addition the real result is
    compared with the model's (a difference is specification drift of the implementation-shaped model, not a violation)"""
    UNIT = 16384
    r = common.tlc("MC_IOFaultGen", "MC_IOFaultGen.cfg", workers=1, timeout=300)
    ck.require_ok("MC_IOFaultGen", r); ck.add_tlc("MC_IOFaultGen (behaviour generator)", r, "N=4, B=2")
    behs = common.tlc_printed_json(r, "BEH")
    if len(behs) < 100:
        raise Broken("MC_IOFaultGen printed only %d behaviours" % len(behs))
    D = corpus.rand(rnd, 4 * UNIT)
    src = os.path.join(wd, "iof.in"); open(src, "wb").write(D)
    def script(cid, rules):
        out = os.path.join(wd, cid + ".zck")
        L = ["case %s 60" % cid, "ctx 0", "open 0 %s rwt" % out, "init_write 0 0", "ioption 0 100 0", "ioption 0 101 1", "write 0 file:%s" % src] + rules + ["close 0", "shim_stats", "free 0", "end"]
        return "\n".join(L) + "\n", out
    s0, o0 = script("iof-base", [])
    st = [e for e in common.run_driver(s0, "plain") if e["op"] == "shim_stats"]
    if not st:
        ck.notes.append("IOFault replay skipped: no baseline statistics"); return 0
    outw = [f["wcalls"] for f in st[0]["fdstats"] if f["f"] == 0][0]; H = outw - 2      # writes to the output before the copied data
    S = st[0].get("temp_scalls", 0)
    if H < 1 or S < 1 or st[0]["temp_rcalls"] != 3:
        ck.notes.append("IOFault replay skipped: the copy phase does not have the modelled shape on this tree (output writes %d, temp lseeks %d, temp reads %d)" % (outw, S, st[0]["temp_rcalls"])); return 0
    jobs = []
    for bi, b in enumerate(behs):
        rules = []; ri = 0; wi = 0; blk = 0
        for c in b["calls"]:
            if c["k"] == "s":
                if c["failed"]: rules.append("shim_fault s -2 %d 5" % S)
            elif c["k"] == "r":
                ri += 1
                if c["failed"]: rules.append("shim_fault r -2 %d 5" % ri)
                elif 0 < c["v"] < 2: rules.append("shim_fault r -2 %d %d" % (ri, -c["v"] * UNIT))      # (a short read; the model never shortens the last unit)
                blk = c["v"]; left = blk
            else:
                wi += 1
                if c["failed"] and c["v"] == 0: rules.append("shim_fault w 0 %d 28" % (H + wi))
                elif c["v"] < left: rules.append("shim_fault w 0 %d %d" % (H + wi, -c["v"] * UNIT if c["v"] else 0))
                left -= c["v"]
        cid = "iof%d" % bi
        scr, out = script(cid, rules)
        jobs.append((cid, b, scr, out))
    evs = common.by_case([e for part in common.run_driver_parallel(["".join(j[2] for j in jobs[k::12]) for k in range(12)], "plain", timeout=1200) for e in part])
    mism = 0
    for (cid, b, scr, out) in jobs:
        ce = evs.get(cid, [])
        name = "IOFault behaviour %s (model: %s, %d of 4 units delivered)" % (" ".join("%s%s%s" % (c["k"], c["v"], "!" if c["failed"] else "") for c in b["calls"]), b["result"], b["delivered"])
        trace.append({"op": "wstart", "case": name}); owner.append(cid)
        for e in ce:
            if e["op"] == "write":
                trace.append({"op": "write", "n": e["n"], "ret": e["ret"]}); owner.append(cid)
            elif e["op"] == "close":
                buf = open(out, "rb").read() if os.path.exists(out) else b""
                rf = ref.RefFile(buf)
                f_ = {"valid": bool(rf.valid_strict), "contentEq": rf.content is not None and rf.content == D, "total": len(rf.content) if rf.content is not None else -1, "cutsOk": True}
                trace.append({"op": "wclose", "ret": e["ret"], "f": f_}); owner.append(cid)
                if (e["ret"] == 1) != (b["result"] == "ok"):
                    mism += 1
            elif e["op"] in ("Crash", "Hang"):
                trace.append({"op": e["op"]}); owner.append(cid)
        scripts_by[cid] = (scr, name, None)
        ck.case(name)
    ck.extra["iofault_behaviours_replayed"] = len(jobs); ck.extra["iofault_result_differs_from_model"] = mism
    if mism:
        ck.notes.append("%d replayed IOFault behaviours ended differently from the model (specification drift of the implementation-shaped model)" % mism)
    return len(jobs)


# ---------------------------------------------------------------- context life cycle (Ctx.tla)
def ctx_family(ck, rnd, tier, wd):
    """TLC (MC_Ctx) enumerates the call histories on one context; each is run on the real library (faults armed with
    shim_fault_next for the calls marked F) and judged by Trace_Ctx twice: with Strict = FALSE only the C12-class
    obligation counts (a call during which a system call was made to fail does not report success) - a rejection is a
    violation; with Strict = TRUE the whole life-cycle contract - a rejection is recorded as specification drift."""
    r = common.tlc("MC_Ctx", "MC_Ctx.cfg", workers=1, timeout=600, extra=(), env={"X": "1"})
    ck.require_ok("MC_Ctx", r); ck.add_tlc("MC_Ctx (history generator)", r, "MaxOps=3")
    hists = common.tlc_printed_json(r, "BEH")
    if len(hists) < 500:
        raise Broken("MC_Ctx printed only %d histories" % len(hists))
    rr = common.tlc("MC_Ctx", "MC_CtxRecover.cfg", workers=4, timeout=600)
    ck.require_ok("MC_Ctx/Recover", rr); ck.add_tlc("MC_Ctx (recovery shape: a faulted call, clear_error, more calls, close; up to 5 calls)", rr)
    rec = common.tlc_printed_json(rr, "BEH")
    if len(rec) < 100:
        raise Broken("MC_CtxRecover printed only %d histories" % len(rec))
    hists += rec
    if tier == "thorough":
        cfg4 = os.path.join(wd, "MC_Ctx4.cfg"); open(cfg4, "w").write(open(os.path.join(common.SPEC, "MC_Ctx.cfg")).read().replace("MaxOps = 3", "MaxOps = 4"))
        r4 = common.tlc("MC_Ctx", cfg4, workers=1, timeout=900); ck.require_ok("MC_Ctx/4", r4); ck.add_tlc("MC_Ctx (MaxOps=4)", r4)
        hists += common.tlc_printed_json(r4, "BEH")
    chunks = [b""] + [corpus.text(rnd, n) for n in (300, 200, 500)]
    good = ref.build_file(chunks, comp_type=2, hash_type=1, chunk_hash_type=3, level=3)[0]
    gp = os.path.join(wd, "ctx-good.zck"); open(gp, "wb").write(good)
    data = corpus.text(rnd, 100).hex()
    W = {"optcomp": (["ioption 0 100 0"], "W", "ioption"), "optval": (["ioption 0 3 77"], "R", "ioption"), "write": (["write 0 hex:" + data], "W", "write"),
         "writeF": (["shim_fault_next w -2 5", "write 0 hex:" + data], "W", "write"), "endchunk": (["end_chunk 0"], "W", "end_chunk"), "endchunkF": (["shim_fault_next w -2 5", "end_chunk 0"], "W", "end_chunk"),
         "close": (["close 0"], "X", "close"), "closeF": (["shim_fault_next w 0 28", "close 0"], "X", "close"), "read": (["readx 0 10"], "R", "read"),
         "clear": (["clear_error 0"], "-", "clear_error"), "readF": (["shim_fault_next r 0 5", "readx 0 50"], "R", "read"),
         "validate": (["validate_checksums 0"], "R", "validate_checksums"), "validateF": (["shim_fault_next r 0 5", "validate_checksums 0"], "R", "validate_checksums")}
    cases = []
    for hi, h in enumerate(hists):
        cid = "x%d" % hi
        L = ["case %s 30" % cid, "ctx 0"]
        if h["mode"] == "write":
            L += ["open 0 %s rwt" % os.path.join(wd, cid + ".zck"), "init_write 0 0"]
            if hi % 2: L += ["ioption 0 100 0"]          # every other history without compression (a write reaches the temporary file at once)
        else:
            L += ["open 0 %s r" % gp, "init_read 0 0"]
        for o in h["ops"]:
            if o == "read" and h["mode"] == "read": L += ["readx 0 50"]
            else: L += W[o][0]
        L += ["shim_clear", "end"]
        cases.append((cid, h, "\n".join(L) + "\n"))
    evs = common.by_case([e for part in common.run_driver_parallel(["".join(c[2] for c in cases[k::12]) for k in range(12)], "plain", timeout=1200) for e in part])
    trace = []; owner = []
    wtrace = []; wowner = []          # the same write-mode executions as Writer-contract events (what a successful close left behind)
    raw = bytes.fromhex(data)
    for (cid, h, scr) in cases:
        ce = evs.get(cid, [])
        if h["mode"] == "write" and not any(e["op"] in ("Crash", "Hang") for e in ce):
            wtrace.append({"op": "wstart", "case": "context history " + "/".join(h["ops"])}); wowner.append(cid)
            nok = nfail = 0
            for e in ce:
                if e["op"] == "write":
                    wtrace.append({"op": "write", "n": e["n"], "ret": e["ret"]}); wowner.append(cid)
                    if e["ret"] == e["n"]: nok += 1
                    else: nfail += 1
                elif e["op"] == "end_chunk":
                    wtrace.append({"op": "endchunk", "ret": e["ret"]}); wowner.append(cid)
                elif e["op"] == "close":
                    outp = os.path.join(wd, cid + ".zck")
                    rf = ref.RefFile(open(outp, "rb").read() if os.path.exists(outp) else b"")
                    some = rf.content is not None and any(rf.content == raw * k for k in range(nok, nok + nfail + 1))
                    wtrace.append({"op": "wclosex", "ret": e["ret"], "f": {"valid": bool(rf.valid_strict), "contentSome": bool(some), "writesOk": nok, "writesFailed": nfail,
                                                                            "total": len(rf.content) if rf.content is not None else -1}}); wowner.append(cid)
                    break
        if any(e["op"] in ("Crash", "Hang") for e in ce):
            trace.append({"op": "reset"}); owner.append(cid); trace.append({"op": "Crash"}); owner.append(cid); continue
        trace.append({"op": "reset"}); owner.append(cid)
        opn = [e for e in ce if e["op"] in ("init_write", "init_read")]
        if not opn: continue
        trace.append({"op": "open", "m": h["mode"], "ok": opn[0]["ret"] == 1, "es": opn[0].get("err", 0)}); owner.append(cid)
        fired = opn[0].get("firederr", 0)
        calls = [e for e in ce if e["op"] in ("ioption", "write", "end_chunk", "close", "read", "clear_error", "validate_checksums")]
        pre = 1 if (h["mode"] == "write" and int(cid[1:]) % 2) else 0          # the configuration call before the history proper
        for e in calls[:pre]:
            trace.append({"op": "call", "cls": "W", "ok": e["ret"] == 1, "es": e.get("err", 0), "firedErr": False, "starts": False, "late": True, "ends": False}); owner.append(cid)
        for o, e in zip(h["ops"], calls[pre:]):
            es2 = e.get("err", 0); fe = e.get("firederr", fired) > fired; fired = e.get("firederr", fired)
            if o == "clear":
                trace.append({"op": "clear", "ok": e["ret"] == 1, "es": es2}); owner.append(cid); continue
            kind = W[o][2]; cls = W[o][1]
            ok = {"ioption": e["ret"] == 1, "write": e["ret"] == e.get("n", -2) and e["ret"] >= 0, "end_chunk": e["ret"] >= 0, "close": e["ret"] == 1,
                  "read": e["ret"] >= 0, "validate_checksums": e["ret"] == 1}[kind]
            trace.append({"op": "call", "cls": cls, "ok": bool(ok), "es": es2, "firedErr": bool(fe), "starts": kind in ("write", "end_chunk", "close"), "late": o == "optcomp", "ends": kind == "close",
                          "what": o}); owner.append(cid)
        ck.case(("ctx", h["mode"], tuple(h["ops"]), int(cid[1:]) % 2))
    scripts_by = {c[0]: (c[2], "context history %s %s" % (c[1]["mode"], "/".join(c[1]["ops"])), None) for c in cases}
    nfired = sum(1 for t in trace if t.get("firedErr"))
    if nfired < 50:
        raise Broken("only %d armed faults fired in the context histories" % nfired)
    ck.extra["ctx_histories"] = len(cases); ck.extra["ctx_calls_with_fired_fault"] = nfired
    validate_segments(ck, "C12", trace, owner, wd, scripts_by=scripts_by, module="Trace_Ctx", cfg="Trace_Ctx.cfg", start_ops=("reset",))
    validate_segments(ck, "C12", wtrace, wowner, wd, scripts_by=scripts_by, module="Trace_Writer", cfg="Trace_Writer.cfg", start_ops=("wstart",))
    ck.extra["ctx_closes_judged"] = sum(1 for t in wtrace if t["op"] == "wclosex")
    # the whole life-cycle contract: deviations are specification drift (beyond the listed properties), recorded only
    drift = Check.__new__(Check); drift.__dict__.update({"violations": [], "states": 0, "transitions": 0, "traces": 0, "models": [], "prop": "C12"})
    drift.violation = lambda what, script_text=None, extra=None: drift.violations.append(what)
    validate_segments(drift, "C12", trace, owner, wd, scripts_by=scripts_by, module="Trace_Ctx", cfg="Trace_Ctx_strict.cfg", start_ops=("reset",))
    ck.states += drift.states; ck.traces += drift.traces
    # negative control: one call during which a fault fired, recorded as a success, must be rejected
    for i, t in enumerate(trace):
        if t.get("firedErr"):
            j = i
            while trace[j]["op"] != "reset": j -= 1
            seg = [dict(x) for x in trace[j:i + 1]]; seg[-1]["ok"] = True
            pneg = os.path.join(wd, "ctxneg.ndjson"); common.write_ndjson(pneg, seg)
            okn, _ = common.validate_trace("Trace_Ctx", "Trace_Ctx.cfg", pneg)
            if okn:
                raise Broken("negative control: a successful call whose system call was made to fail was accepted by Trace_Ctx")
            break
    ck.extra["lifecycle_contract_deviations"] = [v[:300] for v in drift.violations[:5]]
    ck.extra["lifecycle_contract_deviation_count"] = len(drift.violations)
    return len(cases)


def run(tier):
    ck = Check("C12", tier, level="model_checking")
    rnd = random.Random(common.seed())
    bd = common.build("plain")
    wd = common.workdir("c12")
    # R1: the copy path of zck_close against an adversarial kernel (IOFault.tla); the two seeded variants must fail
    for v, expect in (("code", True), ("resend", False), ("ignore2", False)):
        r = common.tlc("IOFault", "MC_IOFault_%s.cfg" % v, workers=4, timeout=300)
        if r.ok != expect:
            raise Broken("IOFault/%s: expected %s, got %s" % (v, "no violation" if expect else "the documented counterexample", r.violation))
        ck.add_tlc("IOFault/" + v + (" (CopyOk, NoInvent, Terminates hold)" if expect else " (counterexample exhibited, as documented)"), r, "N=4 bytes, blocks of at most 2, every lseek/read/write outcome")
    sb = {}
    tw = []; ow = []; tr = []; orr = []; td = []; od = []
    nw = writer_family(ck, rnd, tier, wd, tw, ow, sb)
    nt = tool_family(ck, rnd, tier, bd, wd, tw, ow)
    nz = zckdl_family(ck, rnd, tier, bd, wd, tw, ow)
    nc = ctx_family(ck, rnd, tier, wd)
    ni = iofault_replay(ck, rnd, tier, wd, tw, ow, sb)
    nr = reader_family(ck, rnd, tier, wd, tr, orr, sb)
    nd = delta_family(ck, rnd, tier, wd, td, od, sb)
    ck.extra["single_faults"] = {"writer": nw, "tools": nt, "zckdl": nz, "context_histories": nc, "iofault_behaviours": ni, "reader_validate": nr, "copy_download": nd}
    ck.sample({"writer_case": tw[0].get("case"), "events": tw[:6]})
    ck.sample({"reader_case": [t for t in tr[:6]]})
    validate_segments(ck, "C12", tw, ow, wd, scripts_by=sb, module="Trace_Writer", cfg="Trace_Writer.cfg", start_ops=("wstart",))
    validate_segments(ck, "C12", tr, orr, wd, scripts_by=sb, module="Trace_Reader", cfg="Trace_Reader.cfg", start_ops=("open", "begin"))
    validate_segments(ck, "C12", td, od, wd, scripts_by=sb, module="Trace_Delta", cfg="Trace_Delta.cfg", start_ops=("begin",))
    if not ck.violations:
        neg = [{"op": "wstart"}, {"op": "write", "n": 5, "ret": 5}, {"op": "wclose", "ret": 1, "f": {"valid": False, "contentEq": False, "total": -1, "cutsOk": True}}]
        p = os.path.join(wd, "neg.ndjson"); common.write_ndjson(p, neg)
        ok, res = common.validate_trace("Trace_Writer", "Trace_Writer.cfg", p)
        if ok:
            raise Broken("negative control: a successful close with incomplete output was accepted")
    ck.extra["rule"] = "one case = (scenario, k-th read/write/lseek on a descriptor role, errno or short count); exhaustive single faults per scenario (sampled per call kind above 12 calls in quick tier)"
    ck.assumptions = ["faults are injected at the link-time syscall wrapper; malloc, mkstemp, ftruncate and libcurl faults are not injected"]
    shutil.rmtree(wd, ignore_errors=True)
    return ck.finish()


def replay(path):
    for e in common.run_driver(open(path).read(), "plain"):
        print(json.dumps(e)[:1000])
    return 0
