"""C09 validity scan: every combination of per-chunk region states (correct / zeroed / garbage / one
bit flipped / cut short) of small targets, every truncation point, over-long files, a wrong whole-data
checksum, detached headers; the three validation calls in every order followed by a read to the end.
TLC validates against the Reader contract: exact per-chunk classification (RScan), whole-data verdict,
file unmodified, and the same read outcome as an execution without validations (baseline)."""
import os, json, random, shutil, itertools, hashlib
from .. import common, ref, corpus, readtrace
from ..common import Check, Broken
from .c02 import validate_segments


def base_files(rnd):
    out = []
    for comp, dic, flags in ((0, False, 0), (2, False, 0), (2, True, 0), (0, True, 0), (2, False, 4), (0, False, 4)):
        d = corpus.text(rnd, 30) if dic else b""
        chunks = [d] + [corpus.text(rnd, n) for n in (50, 20, 70)]
        buf, stored = ref.build_file(chunks, comp_type=comp, hash_type=1, chunk_hash_type=1 if flags else 3, flags=flags)
        out.append(("v-c%d-d%d-f%d" % (comp, int(dic), flags), buf))
    # uncompressed chunks made of repeated 32 KiB blocks (a scan that keeps stale buffer contents after a
    # short read would accept a file cut inside them) and multi-block chunks
    blk = corpus.rand(rnd, 32768)
    chunks = [b"", blk * 3, blk * 2 + blk[:1000], corpus.rand(rnd, 40000)]
    buf, stored = ref.build_file(chunks, comp_type=0, hash_type=1, chunk_hash_type=3)
    out.append(("v-repeat", buf))
    # stored chunk sizes exactly on / one off the 32 KiB block size; the stored data a whole number of blocks long
    out.append(("v-bufedge", ref.build_file([b""] + corpus.bufedge_chunks(rnd, 0), comp_type=0, hash_type=1, chunk_hash_type=3)[0]))
    # a first (dictionary) entry that has stored bytes but no data: an empty zstd frame.  It is a chunk like any other
    # for the scan: its stored bytes must hash to its checksum
    ef = ref.zstd_compress(b"", 3, None)
    chunks = [b""] + [corpus.text(rnd, n) for n in (50, 20, 70)]
    stored = [ef] + [ref.zstd_compress(c, 3, None) for c in chunks[1:]]
    ents = [{"clen": len(s_), "ulen": len(c), "digest": ref.digest(3, s_)} for c, s_ in zip(chunks, stored)]
    body = b"".join(stored)
    out.append(("v-emptyframe-dict", ref.build_header(hash_type=1, chunk_hash_type=3, flags=0, comp_type=2, entries=ents, data_digest=ref.digest(1, body)) + body))
    # repeated identical chunks: the same checksum several times in the index
    rep = corpus.text(rnd, 50)
    for comp in (0, 2):
        out.append(("v-dup-c%d" % comp, ref.build_file([b"", rep, corpus.text(rnd, 20), rep, rep], comp_type=comp, hash_type=1, chunk_hash_type=3)[0]))
    # an unusual but legal layout: the stored header length exceeds what the sections need (padded header)
    for comp, dic, pad in ((0, False, 1), (2, True, 37)):
        chunks = [corpus.text(rnd, 30) if dic else b""] + [corpus.text(rnd, n) for n in (50, 20, 70)]
        out.append(("v-padded%d-c%d" % (pad, comp), ref.build_file(chunks, comp_type=comp, hash_type=1, chunk_hash_type=3, pad=pad)[0]))
    return out


def disk_states(rnd, name, buf, tier):
    """(state name, bytes) derived from a valid target"""
    h = ref.parse_header(buf)
    H = h.hdr_total
    out = [("intact", buf), ("overlong", buf + b"\x00trailing")]
    n = len(h.entries)
    ext = [(H + e["start"], H + e["start"] + e["clen"]) for e in h.entries]
    kinds = ["ok", "zero", "garbage", "flip"]
    combos = list(itertools.product(kinds, repeat=n - 1))       # data chunks; the dictionary separately
    if tier == "quick" or name == "v-repeat":
        combos = rnd.sample(combos, min(len(combos), 24 if name != "v-repeat" else 6))
    for combo in combos:
        for dstate in (("ok",) if ext[0][1] == ext[0][0] else ("ok", "flip")):
            b = bytearray(buf)
            for i, k in enumerate((dstate,) + combo):
                a, z = ext[i]
                if z == a:
                    continue
                if k == "zero": b[a:z] = bytes(z - a)
                elif k == "garbage": b[a:z] = corpus.rand(rnd, z - a)
                elif k == "flip": p = rnd.randrange(a, z); b[p] ^= 1 << rnd.randrange(8)
            out.append(("regions-" + dstate[0] + "".join(x[0] for x in combo), bytes(b)))
    # every chunk boundary and interior cut; thorough: every length
    cuts = set()
    for a, z in ext:
        cuts |= {a, z, (a + z) // 2, a + 1, z - 1}
    if name == "v-repeat":
        for a, z in ext:
            for k in range(a, z, 32768):
                cuts |= {k, k + 1, k + 32767, k + 16384}
    if tier == "thorough" and len(buf) < 2000:
        cuts |= set(range(0, len(buf)))
    for c in sorted(x for x in cuts if H <= x < len(buf)):
        out.append(("trunc@%d" % c, buf[:c]))
    # whole-data checksum wrong while every chunk is right (re-sealed)
    dd = bytearray(h.data_digest); dd[0] ^= 0x80
    out.append(("datadigest", ref.rebuild_from_parse(h, buf, data_digest=bytes(dd))))
    # detached header (+ dictionary), intact and with a damaged dictionary
    det = b"\0ZHR1" + buf[5:H + h.entries[0]["clen"]]
    out.append(("detached", det))
    if h.entries[0]["clen"]:
        b = bytearray(det); b[H + 1] ^= 0x20; out.append(("detached-baddict", bytes(b)))
    return out


ORDERS = [("validate_checksums",), ("find_valid",), ("validate_data",), ("validate_checksums", "validate_data"), ("validate_data", "find_valid"),
          ("find_valid", "validate_checksums", "validate_data"), ("validate_data", "validate_data", "validate_checksums"), ("find_valid", "find_valid"),
          # a read to the end first, then the validations on the same context: the verdicts must still be exact
          ("R", "validate_data"), ("R", "validate_checksums"), ("R", "find_valid", "validate_data"), ("R", "validate_data", "validate_checksums"),
          # a read that stops inside the data first, then validations, then the rest of the reads on the same context: whatever
          # is delivered must still be the content, in order and once (an error is allowed)
          ("P", "validate_checksums"), ("P", "find_valid"), ("P", "validate_data"), ("P", "find_valid", "validate_data")]


def sha(path):
    return hashlib.sha256(open(path, "rb").read()).hexdigest()


def reuse_family(ck, rnd, wd):
    trace = []; owner = []; sb = {}
    k = 0
    for (fname, buf) in base_files(random.Random(common.seed()))[:4]:
        h = ref.parse_header(buf)
        if not h.ok or len(h.entries) < 3:
            continue
        det = b"\0ZHR1" + buf[5:h.hdr_total + h.entries[0]["clen"]]
        dp = os.path.join(wd, "reuse%d.zhr" % k); open(dp, "wb").write(det)
        a, z = h.hdr_total + h.entries[-1]["start"], h.hdr_total + h.entries[-1]["start"] + h.entries[-1]["clen"]
        for sname, b in (("intact", buf), ("lastdamaged", buf[:z - 1] + bytes([buf[z - 1] ^ 1]) + buf[z:]), ("cut", buf[:(a + z) // 2])):
            for call in ("find_valid", "validate_checksums", "validate_data"):
                cid = "reuse%d" % k; k += 1
                p = os.path.join(wd, cid + ".zck"); open(p, "wb").write(b)
                rf = ref.RefFile(b); ff = readtrace.facts(rf)
                if rf.h.ok and rf.h.entries and rf.h.entries[0]["clen"] == 0 and ff["cok"]:
                    ff["cok"][0] = True
                scr = "case %s 30\nctx 0\nopen 0 %s r\ninit_adv_read 0 0\nvalidate_lead 0\nclosefd 0\nopen 0 %s r\ninit_adv_read 0 0\nread_lead 0\nread_header 0\n%s 0\nend\n" % (cid, dp, p, call)
                ev = common.run_driver(scr, "plain")
                name = "%s/%s on a context that validated a detached header's lead before, %s" % (fname, sname, call)
                trace.append({"op": "begin", "case": name}); owner.append(cid)
                rh = [e for e in ev if e["op"] == "read_header"]
                trace.append({"op": "open", "f": ff, "ret": rh[-1]["ret"] if rh else 0}); owner.append(cid)
                for e in ev:
                    if e["op"] in ("find_valid", "validate_checksums") or (e["op"] == "validate_data" and (rf.h.flags & 4)):
                        trace.append({"op": "scan", "call": e["op"], "ret": e["ret"], "vec": e.get("valid", []), "es": 0}); owner.append(cid)
                    elif e["op"] == "validate_data":
                        trace.append({"op": "valdata", "ret": e["ret"], "es": 0}); owner.append(cid)
                    elif e["op"] in ("Crash", "Hang"):
                        trace.append({"op": e["op"]}); owner.append(cid)
                sb[cid] = (scr, name, [dp, p]); ck.case(name)
    validate_segments(ck, "C09", trace, owner, wd, scripts_by=sb, start_ops=("begin",))
    ck.extra["scans_on_a_context_reused_after_a_detached_header"] = k


def run(tier):
    ck = Check("C09", tier)
    rnd = random.Random(common.seed())
    common.build("plain")
    wd = common.workdir("c09")
    cases = []
    for (fname, buf) in base_files(rnd):
        for (sname, b) in disk_states(rnd, fname, buf, tier):
            orders = ORDERS if tier == "thorough" else rnd.sample(ORDERS[:8], 2) + rnd.sample(ORDERS[8:12], 1) + rnd.sample(ORDERS[12:], 1)
            for order in orders:
                cases.append((fname + "/" + sname, b, order))
    # every intact file with one short read (not at the end of the file) on the 2nd / 3rd read of a whole-data validation
    for (fname, buf) in base_files(random.Random(common.seed())):
        for j in (2, 3):
            for order in (("validate_data",), ("validate_checksums", "validate_data"), ("validate_data", "find_valid")):
                cases.append((fname + "/intact#short%d" % j, buf, order))
    scripts = []; meta = []
    for i, (name, b, order) in enumerate(cases):
        cid = "s%d" % i
        path = os.path.join(wd, cid + ".zck"); open(path, "wb").write(b)
        rf = ref.RefFile(b)
        total = len(rf.content) if rf.content is not None else 0
        sizes = readtrace.read_sizes(rnd, min(total, 300000), rnd.choice(["mix", "blk", "big"]))
        if total > 3000:
            sizes = [n for n in sizes if n >= 1000] or [32768] * 12
        sinkA = os.path.join(wd, cid + ".a"); sinkB = os.path.join(wd, cid + ".b")
        detached = rf.h.ok and rf.h.detached
        lines = ["case %s 60" % cid, "ctx 0", "open 0 %s r" % path, "sink 0 %s" % sinkA, "init_read 0 0"]
        if not detached:
            lines += ["read 0 %d" % n for n in sizes] + ["close 0"]
        lines += ["free 0", "echo second", "ctx 0"]
        if i % 4 == 1:
            # the process has no standard descriptors and the target, opened for reading and writing (as a download target is),
            # is given descriptor 0, 1 or 2; the library runs with its built-in logging defaults: nothing may reach the file
            k = (i // 4) % 3
            lines += ["closelow 3"] + ["open %d /dev/null r" % (13 + j) for j in range(k)] + ["open 0 %s rw" % path]
        else:
            lines += ["open 0 %s r" % path]
        lines += ["sink 0 %s" % sinkB, "init_read 0 0"]
        rfirst = order[0] == "R"; pfirst = order[0] == "P"
        if rfirst and not detached:
            lines += ["read 0 %d" % n for n in sizes]
        if pfirst and not detached:
            psz = [max(1, min(sizes[0], total // 3))] if sizes else []
            sizes = psz + sizes
            lines += ["read 0 %d" % n for n in sizes[:1]]; sizes = sizes[1:]
        capped = ((i % 6 == 5) or "#short" in name) and not rfirst and not pfirst and not detached
        if capped:
            # while the validations run, read(2) delivers the file in short pieces (a pipe, a network file system, a signal);
            # their verdicts are then not judged, but the read that follows - with the kernel behaving again - must still return
            # the same content and verdict as a read without them
            if "#short" in name:
                lines.append("shim_fault_next r 0 -7 %s" % name.split("#short")[1])
            elif (i // 6) % 2:
                lines.append("shim_cap 0 %d" % (7, 1000, 20000)[(i // 12) % 3])
            else:
                lines.append("shim_fault_next r 0 -7 %d" % (2 + (i // 12) % 3))      # only the 2nd / 3rd / 4th read from here on is short
        lines += ["%s 0" % o for o in order if o not in ("R", "P")]
        if capped:
            lines.append("shim_cap 0 0")
        if not detached and not rfirst:
            lines += ["read 0 %d" % n for n in sizes] + ["close 0"]
        lines += ["end"]
        scripts.append("\n".join(lines) + "\n")
        meta.append((cid, name + (" (validations under short reads)" if capped else ""), path, sinkA, sinkB, rf, order, sha(path)))
    nproc = 12
    parts = ["".join(scripts[i::nproc]) for i in range(nproc)]
    evs = [e for part in common.run_driver_parallel(parts, "plain", timeout=2400) for e in part]
    bycase = common.by_case(evs)
    trace = []; owner = []
    for (cid, name, path, sinkA, sinkB, rf, order, digest_before) in meta:
        ce = bycase.get(cid, [])
        cut = [j for j, e in enumerate(ce) if e["op"] == "echo"]
        A = ce[:cut[0]] if cut else ce; B = ce[cut[0]:] if cut else []
        ff = readtrace.facts(rf)
        if rf.h.ok and rf.h.entries and rf.h.entries[0]["clen"] == 0 and rf.h.entries[0]["ulen"] == 0 and ff["cok"]:
            ff["cok"][0] = True          # an empty dictionary entry is always marked valid
        trace.append({"op": "begin", "case": name}); owner.append(cid)
        tA = readtrace.enrich(A, sinkA, rf, ff)
        for x in tA:
            trace.append(x); owner.append(cid)
        trace.append({"op": "setbaseline"}); owner.append(cid)
        # second execution: validations, then the same reads
        prev_err = 0
        tB = [x for x in readtrace.enrich(B, sinkB, rf, ff) if x["op"] != "open"]      # reads/closes in call order
        for e in B:
            if e["op"] in ("read", "close", "Crash", "Hang") and tB:
                trace.append(tB.pop(0)); owner.append(cid); prev_err = e.get("err", prev_err); continue
            es = prev_err
            prev_err = e.get("err", prev_err)
            if e["op"] == "init_read":
                trace.append({"op": "open", "f": ff, "ret": e["ret"]}); owner.append(cid)
                opened = e["ret"] == 1
            elif "under short reads" in name and e["op"] in ("validate_checksums", "find_valid", "validate_data"):
                pass
            elif e["op"] in ("validate_checksums", "find_valid"):
                if opened:
                    trace.append({"op": "scan", "call": e["op"], "ret": e["ret"], "vec": e.get("valid", []), "es": es}); owner.append(cid)
            elif e["op"] == "validate_data":
                if opened:
                    if rf.h.ok and (rf.h.flags & 4):
                        trace.append({"op": "scan", "call": e["op"], "ret": e["ret"], "vec": e.get("valid", []), "es": es}); owner.append(cid)
                    else:
                        trace.append({"op": "valdata", "ret": e["ret"], "es": es}); owner.append(cid)
        for x in tB:
            trace.append(x); owner.append(cid)
        if not (rf.h.ok and rf.h.detached) and any(x["op"] == "close" for x in tA) and order[0] not in ("R", "P"):
            trace.append({"op": "samebaseline"}); owner.append(cid)
        trace.append({"op": "unmodified", "same": sha(path) == digest_before}); owner.append(cid)
        if any(e["op"] in ("Crash", "Hang") for e in ce) and not any(x["op"] in ("Crash", "Hang") for x in trace[-40:]):
            trace.append({"op": "Crash"}); owner.append(cid)
        ck.case((name, order))
    ck.sample({"case": meta[3][1], "order": meta[3][6], "trace": [t for t, o in zip(trace, owner) if o == meta[3][0]][:14]})
    ck.sample({"case": meta[-1][1], "order": meta[-1][6], "trace": [t for t, o in zip(trace, owner) if o == meta[-1][0]][:10]})
    validate_segments(ck, "C09", trace, owner, wd, scripts_by={m[0]: (scripts[i], "%s after %s" % (m[1], ",".join(m[6])), m[2]) for i, m in enumerate(meta)}, start_ops=("begin",))
    if not ck.violations:
        neg = [{"op": "begin"}, {"op": "open", "f": {"valid": False, "total": 3, "unit": False, "cok": [True, True, False], "dataok": False, "detached": False}, "ret": 1},
               {"op": "scan", "call": "find_valid", "ret": -1, "vec": [1, 1, 1], "es": 0}]
        p = os.path.join(wd, "neg.ndjson"); common.write_ndjson(p, neg)
        ok, res = common.validate_trace("Trace_Reader", "Trace_Reader.cfg", p)
        if ok:
            raise Broken("negative control: a wrong classification was accepted")
    # a context that has looked at a detached header's lead before (zck_validate_lead on a candidate, as a client probing its
    # cache does) and is then opened, through the advanced calls, for a full file: the scan classifies every chunk of THAT file
    reuse_family(ck, rnd, wd)
    # every history of reads, validations, chunk requests and clear_error on one context (MC_Session): the validations judged
    from .. import session
    session.run_session(ck, "C09", "scan", tier, wd, rnd)
    # the implementation-shaped model of the scan (ScanImpl): its invariants, its documented counterexamples, and real scans
    # of members of its own family (cells of 16 KiB, blocks of 32 KiB) replayed on it by TLC (Trace_Scan)
    from .. import scanimpl
    scanimpl.run(ck, "C09", tier, rnd)
    ck.extra["rule"] = "one case = (on-disk state of a target, order of validation calls); region-state combinations, truncation points, over-long, wrong whole-data checksum, detached headers"
    ck.assumptions = ["per-chunk verdicts recomputed by the reference codec over the bytes actually present (absent bytes never match)"]
    shutil.rmtree(wd, ignore_errors=True)
    return ck.finish()


def replay(path):
    for e in common.run_driver(open(path).read(), "plain"):
        print(json.dumps(e)[:1000])
    return 0
