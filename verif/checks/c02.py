"""C02 no silent corruption: raw and structure-aware (re-sealed) mutants of valid files are read to
the end with seeded buffer sizes through the library and through unzck; TLC validates the traces
against the Reader contract: all calls succeeded => the reference decoder finds the file valid and
exactly its content was delivered."""
import os, json, random, subprocess, shutil
from concurrent.futures import ThreadPoolExecutor
from .. import common, ref, corpus, readtrace
from ..common import Check, Broken


def mutants_of(rnd, name, buf, nraw):
    out = [(name + "-orig", buf)]
    for (mname, mb) in corpus.struct_mutants(rnd, buf):
        out.append((name + "-" + mname, mb))
    h = ref.parse_header(buf)
    body0 = h.hdr_total
    for (mname, mb) in corpus.raw_mutants(rnd, buf, nraw // 3):
        out.append((name + "-raw-" + mname, mb))
    # body-targeted raw mutations (the header checksum does not protect these)
    L = len(buf)
    for _ in range(nraw - nraw // 3):
        if L <= body0:
            break
        b = bytearray(buf); p = rnd.randrange(body0, L)
        k = rnd.choice(["flip", "flip", "sub", "del", "ins", "trunc", "zero"])
        if k == "flip": b[p] ^= 1 << rnd.randrange(8)
        elif k == "sub": b[p] = rnd.getrandbits(8)
        elif k == "del": del b[p:p + rnd.choice([1, 3, 16])]
        elif k == "ins": b[p:p] = bytes(rnd.getrandbits(8) for _ in range(rnd.choice([1, 3, 16])))
        elif k == "trunc": del b[p:]
        elif k == "zero": b[p:p + 8] = bytes(min(8, L - p))
        out.append((name + "-body-%s@%d" % (k, p), bytes(b)))
    return out


def run(tier):
    ck = Check("C02", tier)
    rnd = random.Random(common.seed())
    bd = common.build("plain")
    wd = common.workdir("c02")
    # R1: comp_read on files that may end before their index does (truncated, or an index promising more than is there);
    # the variant in which a short read still meant "end of the data" must exhibit the silent truncation
    for cfgname, expect in (("MC_ReaderStream_trunc.cfg", True), ("MC_ReaderUnit_trunc.cfg", True), ("MC_ReaderUnit_eofok.cfg", False), ("MC_ReaderStream_eofok.cfg", False)):
        r = common.tlc("ReaderImpl", cfgname, workers=8, timeout=1500)
        if r.ok != expect:
            raise Broken("ReaderImpl/%s: expected %s, got %s" % (cfgname, "no violation" if expect else "the documented counterexample (NoSilentTruncation)", r.violation))
        ck.add_tlc("ReaderImpl/" + cfgname + (" (SequentialPrefix, NoSilentTruncation, NoReleaseBeforeVerify, EveryCallReturns)" if expect else " (silent truncation exhibited, as documented)"), r,
                   "3 chunks x 3 cells, file lengths {9,7,4,0}, reads 1..4, chunk requests, 4 calls")
    seeds = corpus.seed_files(rnd, big=True) + corpus.special_files(rnd)
    if tier == "quick":
        allseeds = seeds
        seeds = rnd.sample(seeds, 10) + corpus.special_files(rnd)[:2]
        # files without a whole-data checksum to fall back on (uncompressed-source flag), streamed (no compression): always in
        for sd in allseeds:
            hh0 = ref.parse_header(sd[1])
            if hh0.ok and hh0.comp_type == 0 and (hh0.flags & 4) and all(sd[0] != x[0] for x in seeds):
                seeds.append(sd)
    cases = []
    for (sname, buf, chunks) in seeds:
        # (memory: the mutants and their reference decodings are held until the trace is built; large files get fewer)
        for (mname, mb) in mutants_of(rnd, sname, buf, 150 if (tier == "quick" or len(buf) > 20000) else 800):
            cases.append((mname, mb))
        for call in ("validate_checksums", "find_valid", "validate_data"):
            cases.append((sname + "-orig+mid:" + call, buf))
        # the unmodified file read while the kernel delivers it in short pieces (every read(2) returns at most cap bytes)
        for cap in (7, 1000, 20000):
            cases.append((sname + "-orig+cap:%d" % cap, buf))
        # damage in the LAST chunk, read by a reader that asks for exactly the data length and then closes (no read returns 0):
        # the close is the last chance to refuse
        hh = ref.parse_header(buf)
        if hh.ok and len(hh.entries) > 1 and hh.entries[-1]["clen"] > 0:
            a = hh.hdr_total + hh.entries[-1]["start"]; z = a + hh.entries[-1]["clen"]
            for p in sorted({a, (a + z) // 2, z - 1}):
                for st_ in ("exact", "exactblk"):
                    b = bytearray(buf); b[p] ^= 0x10
                    cases.append((sname + "-lastflip@%d+style:%s" % (p, st_), bytes(b)))
    if tier == "thorough":
        # every single-bit flip of every body byte of the two smallest files, every truncation length
        for (sname, buf, chunks) in sorted(seeds, key=lambda s_: len(s_[1]))[:2]:
            h = ref.parse_header(buf)
            for p in range(h.hdr_total, len(buf)):
                for bit in range(8):
                    b = bytearray(buf); b[p] ^= 1 << bit; cases.append(("%s-bit%d.%d" % (sname, p, bit), bytes(b)))
            for t in range(len(buf)):
                cases.append(("%s-trunc%d" % (sname, t), buf[:t]))
    styles = ["mix", "one", "big", "blk", "seven", "mix", "exact", "exactblk"]
    scripts = []; meta = []
    for i, (name, b) in enumerate(cases):
        cid = "m%d" % i
        path = os.path.join(wd, cid + ".zck"); open(path, "wb").write(b)
        rf = ref.RefFile(b)
        total = len(rf.content) if rf.content is not None else (sum(e["ulen"] for e in rf.h.entries[1:]) if rf.h.ok else 0)
        total = min(total, 400000)
        st = styles[i % len(styles)]
        if st in ("one", "seven") and total > 3000:
            st = "mix"
        if "+cap:" in name or "+mid:" in name:
            st = st if not st.startswith("exact") else "mix"
        if "+style:" in name:
            st = name.split("+style:")[1]
        sizes = readtrace.read_sizes(rnd, total, st)
        sink = os.path.join(wd, cid + ".out")
        scr = readtrace.read_script(cid, path, sink, sizes)
        if "+mid:" in name and total > 1:
            sizes = [max(1, total // 3)] + sizes           # the first read stops inside the data
        if (i % 3 == 1 or "+mid:" in name) and len(sizes) > 1 and rf.content is not None and rf.valid_strict:
            # a validation call between the first read and the rest, on the same context: what the later reads deliver must
            # still be the content, in order and once (state carried across public calls).  Only on VALID files: their content is
            # defined: the attribution of delivered bytes to chunks by position presumes an undisturbed sequential read
            L = scr.split("\n"); k = [j for j, l in enumerate(L) if l.startswith("read ")][0]
            L.insert(k + 1, "%s 0" % (name.split("+mid:")[1] if "+mid:" in name else ("validate_checksums", "find_valid", "validate_data")[(i // 3) % 3])); scr = "\n".join(L)
            name = name + ("+midvalidate" if "+mid:" not in name else "")
        if "+cap:" in name:
            scr = scr.replace("init_read 0 0\n", "init_read 0 0\nshim_cap 0 %s\n" % name.split("+cap:")[1], 1)
        elif i % 7 == 4 and "validate" not in name:
            # from the open on, every read(2) on the input returns at most a few bytes (a pipe, a network file system, a signal):
            # whatever the reader then reports, success still means the file's exact content
            scr = scr.replace("init_read 0 0\n", "init_read 0 0\nshim_cap 0 %d\n" % (7, 100, 1000, 20000, 33000)[(i // 7) % 5], 1)
            name = name + "+cappedreads"
        scripts.append(scr)
        meta.append((cid, name, path, sink, rf))
    nproc = 12
    parts = ["".join(scripts[i::nproc]) for i in range(nproc)]
    evs = [e for part in common.run_driver_parallel(parts, "plain", timeout=2400) for e in part]
    bycase = common.by_case(evs)
    trace = []; owner = []
    nsucc = 0
    for (cid, name, path, sink, rf) in meta:
        t = readtrace.enrich(bycase.get(cid, []), sink, rf)
        if not t:
            t = [{"op": "Crash", "why": "no events"}]
        if any(x["op"] == "close" and x["ret"] == 1 for x in t):
            nsucc += 1
        for x in t:
            trace.append(x); owner.append(cid)
        ck.case(name, nontrivial=True)
    # unzck end to end on a sample
    tool = os.path.join(bd, "unzck")
    sel = list(range(len(meta)))
    if tier == "quick":
        sel = rnd.sample(sel, min(len(sel), 250))
    def run_unzck(i):
        cid, name, path, sink, rf = meta[i]
        try:
            p = subprocess.run([tool, "-c", path], stdout=subprocess.PIPE, stderr=subprocess.DEVNULL, timeout=60)
            out = p.stdout
            # unzck prints the output name on the first line of stdout before the data when -c is used
            return p.returncode, out
        except subprocess.TimeoutExpired:
            return 124, b""
    with ThreadPoolExecutor(max_workers=common.NCPU) as ex:
        tres = list(ex.map(run_unzck, sel))
    for i, (rc, out) in zip(sel, tres):
        cid, name, path, sink, rf = meta[i]
        # unzck prints the derived output name with stdio (flushed at exit) and the data with write(2)
        # with -c everything on standard output is the content: nothing else may be mixed into it (the tool's name line stays
        # in a stdio buffer whose descriptor is closed before exit; an earlier version of this check stripped such a line and so
        # hid a seeded change that makes it appear)
        payload = out
        oeq = rf.content is not None and payload == rf.content
        if rc < 0 or rc in (134, 139, 124):
            trace.append({"op": "Crash", "tool": "unzck", "rc": rc}); owner.append(cid)
        else:
            trace.append({"op": "open", "f": readtrace.facts(rf), "ret": 1}); owner.append(cid)
            trace.append({"op": "tool", "status": rc, "outEq": bool(oeq), "name": name}); owner.append(cid)
        ck.case(("unzck", name))
    ck.extra["mutants"] = len(meta); ck.extra["read_to_end_successes"] = nsucc; ck.extra["unzck_runs"] = len(sel)
    ck.sample({"mutant": meta[1][1], "trace": [t for t, o in zip(trace, owner) if o == meta[1][0]][:8]})
    ck.sample({"mutant": meta[-1][1], "trace": [t for t, o in zip(trace, owner) if o == meta[-1][0]][:8]})
    validate_segments(ck, "C02", trace, owner, wd, scripts_by={m[0]: (scripts[i], m[1], m[2]) for i, m in enumerate(meta)})
    if not ck.violations:
        neg = [{"op": "open", "f": {"valid": False, "total": 3, "unit": False, "cok": [True, False], "dataok": False, "detached": False}, "ret": 1},
               {"op": "read", "n": 10, "ret": 3, "eq": False, "bad": True}, {"op": "read", "n": 10, "ret": 0, "eq": False, "bad": False}, {"op": "close", "ret": 1}]
        p = os.path.join(wd, "neg.ndjson"); common.write_ndjson(p, neg)
        ok, res = common.validate_trace("Trace_Reader", "Trace_Reader.cfg", p)
        if ok:
            raise Broken("negative control: a silent corruption trace was accepted by Trace_Reader")
    # ReaderImpl with an environment that may refuse allocations: the repaired loop never ends a stream early with success;
    # the code before the repair (a refused scratch buffer returned 0 = end of the stream) exhibits it
    for cfgname, expect in (("MC_ReaderStream_oom.cfg", True), ("MC_ReaderUnit_oom.cfg", True), ("MC_ReaderStream_oom0.cfg", False)):
        r = common.tlc("ReaderImpl", cfgname, workers=8, timeout=1500)
        if r.ok != expect:
            raise Broken("ReaderImpl/%s: expected %s, got %s" % (cfgname, "no violation" if expect else "the documented counterexample (NoSilentTruncation)", r.violation))
        ck.add_tlc("ReaderImpl/" + cfgname + (" (allocations may be refused: SequentialPrefix, NoSilentTruncation, NoReleaseBeforeVerify)" if expect else " (early end of the stream with success exhibited, as documented)"), r)
    # the real reader with every allocation of zchunk's own code refused in turn (once / from there on), judged by RClose
    from .. import allocfault
    atrace, aowner, ascripts = allocfault.reader_family(ck, tier, wd, rnd)
    validate_segments(ck, "C02", atrace, aowner, wd, scripts_by=ascripts)
    # every history of reads, validations, chunk requests and clear_error on one context (MC_Session): the reads judged
    from .. import session
    session.run_session(ck, "C02", "read", tier, wd, rnd)
    ck.extra["rule"] = "one case = one mutant (raw, body-targeted or structure-aware re-sealed) of a valid file read to the end with one buffer-size sequence, or one unzck run"
    ck.assumptions = ["reference decoder (verif/ref.py + libzstd + hashlib) defines validity and content", "digests are treated as collision free"]
    shutil.rmtree(wd, ignore_errors=True)
    return ck.finish()


def validate_segments(ck, prop, trace, owner, wd, scripts_by, module="Trace_Reader", cfg="Trace_Reader.cfg", maxrep=12, start_ops=("open",)):
    """validate a long trace made of executions starting with an `open` event; report each rejected
    execution once (by case), continuing after it"""
    segs = []; cur = []
    for t, o in zip(trace, owner):
        if t["op"] in start_ops and cur:
            segs.append(cur); cur = []
        cur.append((t, o))
    if cur:
        segs.append(cur)
    # spread over processes
    nproc = 8
    chunks = [segs[i::nproc] for i in range(nproc)]
    def work(j):
        remaining = chunks[j]; found = []
        p = os.path.join(wd, "t%d.ndjson" % j)
        rounds = 0; states = 0
        while remaining and rounds < maxrep:
            rounds += 1
            common.write_ndjson(p, [t for s in remaining for (t, o) in s])
            ok, res = common.validate_trace(module, cfg, p)
            states += res.distinct
            if ok:
                break
            m = [x for x in res.out.splitlines() if "MATCHED" in x]
            k = int(m[-1].split(",")[1]) if m else 0
            pos = 0; bad_i = None
            for i, s in enumerate(remaining):
                if pos + len(s) > k:
                    bad_i = i; break
                pos += len(s)
            if bad_i is None:
                break
            s = remaining[bad_i]
            found.append((s[min(k - pos, len(s) - 1)][0], s[0][1], [t for t, o in s]))
            remaining = remaining[bad_i + 1:]
        return found, states, rounds
    with ThreadPoolExecutor(max_workers=nproc) as ex:
        results = list(ex.map(work, range(nproc)))
    for found, states, rounds in results:
        ck.states += states; ck.transitions += states; ck.traces += rounds
        for ev, cid, seg in found:
            scr, name, path = scripts_by.get(cid, ("", cid, None))
            if isinstance(path, (list, tuple)):
                for j, item in enumerate(path):        # several files: paths to copy, or (path, initial bytes)
                    src, data = (item if isinstance(item, tuple) else (item, None))
                    keep = os.path.join(common.REPLAY, "%s-%s-%d%s" % (prop, cid, j, os.path.splitext(src)[1]))
                    if data is not None:
                        open(keep, "wb").write(data)
                    elif os.path.exists(src):
                        shutil.copy(src, keep)
                    scr = scr.replace(src, keep)
            elif path and os.path.exists(path):
                keep = os.path.join(common.REPLAY, "%s-%s.zck" % (prop, cid)); shutil.copy(path, keep); scr = scr.replace(path, keep)
            ck.violation("%s: event %s not explained by the contract; execution: %s" % (name, json.dumps(ev), json.dumps(seg)[:700]), scr, {"event": ev})
    ck.models.append({"model": module + " (trace validation)", "executions": len(segs)})


def replay(path):
    for e in common.run_driver(open(path).read(), "plain"):
        print(json.dumps(e)[:1000])
    return 0
