#ifndef _GNU_SOURCE
#define _GNU_SOURCE
#endif
#include <stdio.h>
#include <stdlib.h>
#include <string.h>
#include <errno.h>
#include <fcntl.h>
#include <stdarg.h>
#include <unistd.h>
#include "shim.h"

#define MAXFD 1024
#define MAXRULE 32
#define MAXROLE 8

struct shim_logent shim_logv[SHIM_MAXLOG];
int shim_nlog, shim_ntotal, shim_log_enabled, shim_out_fd = 1, shim_static_bufs;
int shim_fired, shim_fired_err;       /* fault rules that fired so far / those that made the call fail with an errno */
int shim_disabled;      /* set before any thread starts (TSan runs): wrappers pass straight through */

static long long cap[MAXFD];
static long long wbytes[MAXFD];
static int calls[4][MAXFD];
static int anycalls[4];
static int temp_fd = -1;
static int role_of[MAXFD];               /* role id+1, 0 = none */
static char role_path[MAXROLE][512]; static char role_name[MAXROLE][32]; static int nroles;
struct rule { char kind; int fd; int nth; long long action; int used; };
static struct rule rules[MAXRULE]; static int nrules;
static int kill_fd = -100, kill_nth, kill_seen; static long long kill_bytes;
static int env_done;
static int trace_fd = -1;

extern char __data_start, _end;

static int kidx(char k) { return k == 'r' ? 0 : k == 'w' ? 1 : k == 's' ? 2 : 3; }

static char addr_class(const void *p) {
    char probe;
    if((const char *)p >= &__data_start && (const char *)p < &_end) return 'S';
    long long d = (const char *)p - &probe; if(d < 0) d = -d;
    if(d < (8LL << 20)) return 'K';
    return 'H';
}

static int match_fd(int sel, int fd) {
    if(sel == -1) return 1;
    if(sel == -2) return fd == temp_fd && temp_fd >= 0;
    if(sel <= -1000) return fd >= 0 && fd < MAXFD && role_of[fd] == (-1000 - sel) + 1;
    return sel == fd;
}

static void shim_env(void);

/* returns 1 and sets *action if a fault rule fires for this call */
static int fault_for(char kind, int fd, long long *action) {
    if(!env_done) shim_env();
    int k = kidx(kind);
    if(fd >= 0 && fd < MAXFD) calls[k][fd]++;
    anycalls[k]++;
    for(int i = 0; i < nrules; i++) {
        struct rule *r = &rules[i];
        if(r->kind != kind || r->used || !match_fd(r->fd, fd)) continue;
        int count;
        if(r->fd == -1) count = anycalls[k]; else count = (fd >= 0 && fd < MAXFD) ? calls[k][fd] : 0;
        if(count == r->nth) { r->used = 1; *action = r->action; shim_fired++; if(r->action > 0) shim_fired_err++; return 1; }
    }
    return 0;
}

static void logcall(char kind, int fd, long long n, long long ret, const void *buf) {
    char cls = buf ? addr_class(buf) : '-';
    int slot = shim_slot_of_fd(fd);
    if(fd == temp_fd && temp_fd >= 0) slot = 100;
    if(fd >= 0 && fd < MAXFD && role_of[fd]) slot = 200 + role_of[fd] - 1;
    if(cls == 'S' && (slot >= 0)) shim_static_bufs++;
    if(trace_fd >= 0 && slot >= 0) {
        char tmp[200]; int l = snprintf(tmp, sizeof tmp, "{\"k\":\"%c\",\"role\":\"%s\",\"fd\":%d,\"n\":%lld,\"ret\":%lld,\"cls\":\"%c\"}\n", kind,
                                        slot >= 200 ? role_name[slot - 200] : (slot == 100 ? "temp" : "slot"), fd, n, ret, cls);
        ssize_t w = __real_write(trace_fd, tmp, l); (void)w;
    }
    if(!shim_log_enabled || slot < 0) return;
    shim_ntotal++;
    if(shim_nlog < SHIM_MAXLOG) { struct shim_logent *e = &shim_logv[shim_nlog++]; e->kind = kind; e->slot = slot; e->fd = fd; e->n = n; e->ret = ret; e->cls = cls; }
}

/* ThreadSanitizer builds: the sanitizer's own read/write interceptors treat every regular file as one
 * synchronisation object (a write "releases", a later read by any thread "acquires"), which orders the threads'
 * library calls for the race detector whenever they do not overlap in time and makes its verdict depend on the
 * schedule.  The wrappers therefore enter the kernel directly and tell the detector only what memory the call
 * touches: with that, two threads using the same library-owned memory are reported whatever the timing. */
#if defined(__has_feature)
#if __has_feature(thread_sanitizer)
#define ZV_TSAN 1
#endif
#endif
#ifdef ZV_TSAN
#include <sys/syscall.h>
void __tsan_write_range(void *addr, unsigned long size);
void __tsan_read_range(void *addr, unsigned long size);
static ssize_t raw_read(int fd, void *buf, size_t n) { ssize_t r = syscall(SYS_read, fd, buf, n); if(r > 0) __tsan_write_range(buf, (unsigned long)r); return r; }
static ssize_t raw_write(int fd, const void *buf, size_t n) { if(n) __tsan_read_range((void *)buf, (unsigned long)n); return syscall(SYS_write, fd, buf, n); }
#endif

ssize_t __wrap_read(int fd, void *buf, size_t n) {
#ifdef ZV_TSAN
    if(shim_disabled) return raw_read(fd, buf, n);
#endif
    if(shim_disabled) return __real_read(fd, buf, n);
    long long act; size_t want = n;
    if(fault_for('r', fd, &act)) {
        if(act > 0) { errno = (int)act; logcall('r', fd, n, -1, buf); return -1; }
        if(act == 0) { logcall('r', fd, n, 0, buf); return 0; }
        if((size_t)(-act) < want) want = (size_t)(-act);
    }
    if(fd >= 0 && fd < MAXFD && cap[fd] > 0 && want > (size_t)cap[fd]) want = (size_t)cap[fd];
    ssize_t r = __real_read(fd, buf, want);
    logcall('r', fd, n, r, buf);
    return r;
}

ssize_t __wrap_write(int fd, const void *buf, size_t n) {
#ifdef ZV_TSAN
    if(shim_disabled) return raw_write(fd, buf, n);
#endif
    if(shim_disabled) return __real_write(fd, buf, n);
    long long act; size_t want = n;
    if(!env_done) shim_env();
    if(match_fd(kill_fd, fd) && kill_fd != -100) {
        kill_seen++;
        if(kill_seen == kill_nth) {
            size_t k = kill_bytes == -2 ? n / 2 : (kill_bytes < 0 || (size_t)kill_bytes > n ? n : (size_t)kill_bytes);
            if(k) { ssize_t w = __real_write(fd, buf, k); (void)w; }
            _exit(99);
        }
    }
    if(fault_for('w', fd, &act)) {
        if(act > 0) { errno = (int)act; logcall('w', fd, n, -1, buf); return -1; }
        if(act == 0) { logcall('w', fd, n, 0, buf); return 0; }
        if((size_t)(-act) < want) want = (size_t)(-act);
    }
    ssize_t r = __real_write(fd, buf, want);
    if(r > 0 && fd >= 0 && fd < MAXFD) wbytes[fd] += r;
    logcall('w', fd, n, r, buf);
    return r;
}

off_t __wrap_lseek(int fd, off_t off, int whence) {
    if(shim_disabled) return __real_lseek(fd, off, whence);
    long long act;
    if(fault_for('s', fd, &act) && act > 0) { errno = (int)act; logcall('s', fd, off, -1, NULL); return (off_t)-1; }
    off_t r = __real_lseek(fd, off, whence);
    logcall('s', fd, off, r, NULL);
    return r;
}

int __wrap_ftruncate(int fd, off_t len) {
    if(shim_disabled) return __real_ftruncate(fd, len);
    long long act;
    if(fault_for('t', fd, &act) && act > 0) { errno = (int)act; logcall('t', fd, len, -1, NULL); return -1; }
    int r = __real_ftruncate(fd, len);
    logcall('t', fd, len, r, NULL);
    return r;
}

/* descriptor ownership: the library may close only descriptors it created itself (mkstemp, dup).  The driver's own
 * closes bypass the wrapper (zckdrive.c maps close to __real_close), so every call seen here in zckdrive comes from
 * the library; a close of a number it does not own - already closed, or meanwhile given to someone else - is
 * interference through the process-wide descriptor table (C19). */
static char lib_owned[MAXFD];
int shim_foreign_closes;
int __real_close(int fd);
int __real_dup(int fd);
int __wrap_close(int fd) {
    if(shim_disabled) return __real_close(fd);
    if(fd >= 0 && fd < MAXFD) { if(!lib_owned[fd]) shim_foreign_closes++; lib_owned[fd] = 0; }
    else shim_foreign_closes++;
    return __real_close(fd);
}
int __wrap_dup(int fd) {
    int r = __real_dup(fd);
    if(!shim_disabled && r >= 0 && r < MAXFD) lib_owned[r] = 1;
    return r;
}

/* the file mode creation mask is process-wide: calls that change it are counted, and the mask in force while the library
 * is inside mkstemp is recorded (a file another thread creates at that moment is created under it) */
mode_t __real_umask(mode_t m);
int shim_umask_calls, shim_mkstemp_calls; int shim_umask_in_mkstemp = -1;
mode_t __wrap_umask(mode_t m) { __atomic_add_fetch(&shim_umask_calls, 1, __ATOMIC_RELAXED); return __real_umask(m); }
int __wrap_mkstemp(char *t) {
    __atomic_add_fetch(&shim_mkstemp_calls, 1, __ATOMIC_RELAXED);
    if(shim_disabled) return __real_mkstemp(t);
    { mode_t cur = __real_umask(0); __real_umask(cur); shim_umask_in_mkstemp = (int)cur; }
    int fd = __real_mkstemp(t);
    temp_fd = fd;
    if(fd >= 0 && fd < MAXFD) lib_owned[fd] = 1;
    if(fd >= 0 && fd < MAXFD) { wbytes[fd] = 0; for(int k = 0; k < 4; k++) calls[k][fd] = 0; }
    return fd;
}

int __real_open(const char *path, int flags, ...);
int __wrap_open(const char *path, int flags, ...) {
    mode_t mode = 0;
    if(flags & (O_CREAT | O_TMPFILE)) { va_list ap; va_start(ap, flags); mode = va_arg(ap, mode_t); va_end(ap); }
    if(shim_disabled) return __real_open(path, flags, mode);
    if(!env_done) shim_env();
    int fd = __real_open(path, flags, mode);
    if(fd >= 0 && fd < MAXFD) {
        role_of[fd] = 0; wbytes[fd] = 0; cap[fd] = 0; for(int k = 0; k < 4; k++) calls[k][fd] = 0;
        for(int i = 0; i < nroles; i++) {
            size_t lp = strlen(path), lr = strlen(role_path[i]);
            if(lp >= lr && strcmp(path + lp - lr, role_path[i]) == 0) {
                role_of[fd] = i + 1;
                char key[64]; snprintf(key, sizeof key, "ZV_CAP_%s", role_name[i]);
                if(getenv(key)) cap[fd] = atoll(getenv(key));
            }
        }
    }
    return fd;
}

/* Allocation failures.  The repository's objects (library and tools, not the harness) are compiled with calloc, malloc
 * and realloc renamed to zv_calloc, zv_malloc, zv_realloc (harness/Makefile), so exactly the allocations made by
 * zchunk's own code pass through here; libc, libzstd and libcrypto keep their allocator.  Counting starts at
 * shim_alloc_arm; allocations number nth .. nth+len-1 since then fail with ENOMEM. */
int shim_alloc_count, shim_alloc_nth, shim_alloc_len, shim_alloc_fired;
void shim_alloc_arm(int nth, int len) { shim_alloc_count = 0; shim_alloc_nth = nth; shim_alloc_len = len; shim_alloc_fired = 0; }
static int alloc_hit(void) {
    if(shim_disabled) return 0;
    if(!env_done) shim_env();
    shim_alloc_count++;
    if(shim_alloc_nth > 0 && shim_alloc_count >= shim_alloc_nth && shim_alloc_count < shim_alloc_nth + shim_alloc_len) { shim_alloc_fired++; errno = ENOMEM; return 1; }
    return 0;
}
void *zv_calloc(size_t a, size_t b) { return alloc_hit() ? NULL : calloc(a, b); }
void *zv_malloc(size_t a) { return alloc_hit() ? NULL : malloc(a); }
void *zv_realloc(void *p, size_t a) { return alloc_hit() ? NULL : realloc(p, a); }

void shim_set_cap(int fd, long long n) { if(fd >= 0 && fd < MAXFD) cap[fd] = n; }
void shim_add_fault(char kind, int fd, int nth, long long action) {
    if(nrules < MAXRULE) { rules[nrules].kind = kind; rules[nrules].fd = fd; rules[nrules].nth = nth; rules[nrules].action = action; rules[nrules].used = 0; nrules++; }
}
void shim_set_kill(int fd, int nth, long long bytes) { kill_fd = fd; kill_nth = nth; kill_bytes = bytes; kill_seen = 0; }
void shim_clear(void) { nrules = 0; kill_fd = -100; memset(cap, 0, sizeof cap); }
long long shim_wbytes(int fd) { if(fd == -2) fd = temp_fd; return fd >= 0 && fd < MAXFD ? wbytes[fd] : 0; }
int shim_calls(char kind, int fd) { if(fd == -2) fd = temp_fd; return fd >= 0 && fd < MAXFD ? calls[kidx(kind)][fd] : 0; }

static char *alloc_trace;
static void alloc_report(void) {      /* tools: how many allocations the run made (to choose injection points) */
    int fd = __real_open(alloc_trace, O_WRONLY | O_CREAT | O_TRUNC, 0666); if(fd < 0) return;
    char tmp[64]; int l = snprintf(tmp, sizeof tmp, "%d %d\n", shim_alloc_count, shim_alloc_fired); ssize_t w = __real_write(fd, tmp, l); (void)w; __real_close(fd);
}
static int role_id(const char *name) {
    for(int i = 0; i < nroles; i++) if(!strcmp(role_name[i], name)) return i;
    return -1;
}
/* Environment configuration (used by the statically linked tools):
 *   ZV_ROLES = name=pathsuffix;name=pathsuffix        e.g. in=/x/input;out=/x/out.zck
 *   ZV_CAP_<name> = n                                  cap every read on that role to n bytes
 *   ZV_FAULT = kind:sel:nth:action;...                 sel = role name | any | temp
 *   ZV_KILL  = sel:nth:bytes
 *   ZV_ALLOCFAIL = nth[:len]                           allocations nth.. (len of them, default 1) of zchunk's own code fail
 *   ZV_ALLOCTRACE = path                               write "<allocations> <failed>" there at exit
 *   ZV_TRACE = path                                    append one JSON line per syscall on a role/temp fd */
static void shim_env(void) {
    env_done = 1;
    const char *s;
    if((s = getenv("ZV_ROLES"))) {
        char *d = strdup(s), *sp = NULL;
        for(char *t = strtok_r(d, ";", &sp); t && nroles < MAXROLE; t = strtok_r(NULL, ";", &sp)) {
            char *eq = strchr(t, '='); if(!eq) continue; *eq = 0;
            snprintf(role_name[nroles], sizeof role_name[0], "%s", t); snprintf(role_path[nroles], sizeof role_path[0], "%s", eq + 1); nroles++;
        }
        free(d);
    }
    if((s = getenv("ZV_FAULT"))) {
        char *d = strdup(s), *sp = NULL;
        for(char *t = strtok_r(d, ";", &sp); t; t = strtok_r(NULL, ";", &sp)) {
            char kind; char sel[64]; int nth; long long act;
            if(sscanf(t, "%c:%63[^:]:%d:%lld", &kind, sel, &nth, &act) != 4) continue;
            int fd = !strcmp(sel, "any") ? -1 : !strcmp(sel, "temp") ? -2 : (role_id(sel) >= 0 ? -1000 - role_id(sel) : atoi(sel));
            shim_add_fault(kind, fd, nth, act);
        }
        free(d);
    }
    if((s = getenv("ZV_KILL"))) {
        char sel[64]; int nth; long long b;
        if(sscanf(s, "%63[^:]:%d:%lld", sel, &nth, &b) == 3) {
            int fd = !strcmp(sel, "any") ? -1 : !strcmp(sel, "temp") ? -2 : (role_id(sel) >= 0 ? -1000 - role_id(sel) : atoi(sel));
            shim_set_kill(fd, nth, b);
        }
    }
    if((s = getenv("ZV_ALLOCFAIL"))) { int nth = 0, len = 1; if(sscanf(s, "%d:%d", &nth, &len) >= 1) { int c = shim_alloc_count; shim_alloc_arm(nth, len); shim_alloc_count = c; } }
    if((s = getenv("ZV_ALLOCTRACE"))) { alloc_trace = strdup(s); atexit(alloc_report); }
    if((s = getenv("ZV_TRACE"))) trace_fd = __real_open(s, O_WRONLY | O_CREAT | O_APPEND, 0666);
}
