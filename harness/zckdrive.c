/* zckdrive - script-in / trace-out driver for libzck.
 *
 * Reads a script on stdin (one command per line, space separated tokens),
 * executes it against the library sources it was linked with and prints one
 * JSON object per executed command on stdout (ndjson).
 *
 *   case <id> [budget_seconds]   start a case; the lines up to 'end' are run
 *   end                          in a forked child with a watchdog.
 *
 * A child that dies from a signal produces a {"op":"Crash"} event, one that
 * exceeds its budget a {"op":"Hang"} event, so a trace is never silently
 * truncated.  See the command table in run_cmd().
 */
#ifndef _GNU_SOURCE
#define _GNU_SOURCE
#endif
#include <stdio.h>
#include <stdlib.h>
#include <string.h>
#include <stdint.h>
#include <stdbool.h>
#include <unistd.h>
#include <fcntl.h>
#include <errno.h>
#include <signal.h>
#include <setjmp.h>
#include <sys/mman.h>
#include <sys/wait.h>
#include <sys/stat.h>
#include <pthread.h>
#include <zck.h>
#include "zck_private.h"
#include "shim.h"
/* the driver's own closes are not the library's: keep them out of the ownership accounting of the shim */
#define close(fd) __real_close(fd)
/* ThreadSanitizer builds: the harness's own file I/O must not synchronise the threads either (see shim.c) */
#if defined(__has_feature)
#if __has_feature(thread_sanitizer)
#include <sys/syscall.h>
#define __real_write(fd, b, n) syscall(SYS_write, (fd), (b), (n))
#define pread(fd, b, n, o) syscall(SYS_pread64, (fd), (b), (n), (o))
#define pwrite(fd, b, n, o) syscall(SYS_pwrite64, (fd), (b), (n), (o))
#endif
#endif

#define NSLOT 16
#define MAXTOK 64

static zckCtx *ctxs[NSLOT];
static int fds[NSLOT];
static zckDL *dls[NSLOT];
static zckRange *ranges[NSLOT];
static int sinks[NSLOT];          /* fd receiving bytes returned by read-like calls */
static const char *case_id = "";
static __thread int ev_i = 0;
static __thread const char *thr_tag = "";

/* ---------------------------------------------------------------- events */
static __thread char evbuf[1 << 22];
static __thread size_t evlen;
static void ev_raw(const char *s) {
    size_t l = strlen(s);
    if(evlen + l < sizeof(evbuf)) { memcpy(evbuf + evlen, s, l); evlen += l; }
}
static void ev_begin(const char *op) {
    evlen = 0;
    char tmp[256];
    snprintf(tmp, sizeof tmp, "{\"case\":\"%s%s\",\"i\":%d,\"op\":\"%s\"", case_id, thr_tag, ev_i++, op);
    ev_raw(tmp);
}
static void ev_int(const char *k, long long v) {
    char tmp[128]; snprintf(tmp, sizeof tmp, ",\"%s\":%lld", k, v); ev_raw(tmp);
}
static void ev_u64(const char *k, unsigned long long v) {
    /* as a decimal string: JSON consumers may not hold 64 bits */
    char tmp[128]; snprintf(tmp, sizeof tmp, ",\"%s\":\"%llu\"", k, v); ev_raw(tmp);
}
static void ev_str(const char *k, const char *v) {
    char tmp[64]; snprintf(tmp, sizeof tmp, ",\"%s\":\"", k); ev_raw(tmp);
    for(const unsigned char *p = (const unsigned char *)(v ? v : ""); *p; p++) {
        char c[8];
        if(*p == '"' || *p == '\\') { c[0] = '\\'; c[1] = *p; c[2] = 0; }
        else if(*p < 32 || *p > 126) snprintf(c, sizeof c, "\\u%04x", *p);
        else { c[0] = *p; c[1] = 0; }
        ev_raw(c);
    }
    ev_raw("\"");
}
static void ev_hex(const char *k, const unsigned char *d, size_t n) {
    char tmp[64]; snprintf(tmp, sizeof tmp, ",\"%s\":\"", k); ev_raw(tmp);
    for(size_t i = 0; i < n; i++) { char c[3]; snprintf(c, 3, "%02x", d[i]); ev_raw(c); }
    ev_raw("\"");
}
static void ev_sys(void) {
    /* syscalls observed by the shim since the previous event */
    if(!shim_log_enabled) return;
    ev_raw(",\"sys\":[");
    for(int i = 0; i < shim_nlog; i++) {
        char tmp[160];
        snprintf(tmp, sizeof tmp, "%s{\"k\":\"%c\",\"fd\":%d,\"n\":%lld,\"ret\":%lld,\"cls\":\"%c\"}", i ? "," : "",
                 shim_logv[i].kind, shim_logv[i].slot, shim_logv[i].n, shim_logv[i].ret, shim_logv[i].cls);
        ev_raw(tmp);
    }
    ev_raw("]");
    ev_int("sysn", shim_ntotal);
    shim_nlog = 0; shim_ntotal = 0;
}
static void ev_end(void) {
    ev_sys();
    ev_raw("}\n");
    ssize_t r = __real_write(shim_out_fd, evbuf, evlen); (void)r;
}
static void ev_ctx(int c) {
    zckCtx *z = ctxs[c];
    ev_int("c", c);
    if(shim_alloc_fired) ev_int("afired", shim_alloc_fired);
    if(z) {
        ev_int("err", zck_is_error(z));
        ev_int("fired", shim_fired); ev_int("firederr", shim_fired_err);
        if(z->fd >= 0) ev_int("off", (long long)__real_lseek(z->fd, 0, SEEK_CUR));
    }
}

/* ---------------------------------------------------------------- helpers */
static int slot_of_fd(int fd) {
    for(int i = 0; i < NSLOT; i++) if(fds[i] == fd && fd >= 0) return i;
    return -1;
}
int shim_slot_of_fd(int fd) { return slot_of_fd(fd); }

static int hexval(int c) {
    if(c >= '0' && c <= '9') return c - '0';
    if(c >= 'a' && c <= 'f') return c - 'a' + 10;
    if(c >= 'A' && c <= 'F') return c - 'A' + 10;
    return -1;
}
/* data reference: hex:<hex> | file:<path>:<off>:<len> | zero:<len> | rep:<hexbyte>:<len>
 * returns malloc'd buffer (at least 1 byte) and length */
static char *get_data(const char *ref, size_t *len) {
    if(strncmp(ref, "hex:", 4) == 0) {
        const char *h = ref + 4; size_t n = strlen(h) / 2;
        char *b = malloc(n + 1);
        for(size_t i = 0; i < n; i++) b[i] = (char)(hexval(h[2*i]) * 16 + hexval(h[2*i+1]));
        *len = n; return b;
    } else if(strncmp(ref, "file:", 5) == 0) {
        char path[4096]; long long off = 0, l = -1;
        const char *p = ref + 5; const char *q = strchr(p, ':');
        if(q) { memcpy(path, p, q - p); path[q - p] = 0; sscanf(q + 1, "%lld:%lld", &off, &l); }
        else { strncpy(path, p, sizeof path - 1); path[sizeof path - 1] = 0; }
        int fd = open(path, O_RDONLY);
        if(fd < 0) { *len = 0; return calloc(1, 1); }
        if(l < 0) { struct stat st; fstat(fd, &st); l = st.st_size - off; }
        char *b = malloc(l + 1); ssize_t r = pread(fd, b, l, off); close(fd);
        *len = r < 0 ? 0 : (size_t)r; return b;
    } else if(strncmp(ref, "zero:", 5) == 0) {
        size_t n = strtoull(ref + 5, NULL, 10); *len = n; return calloc(n + 1, 1);
    } else if(strncmp(ref, "rep:", 4) == 0) {
        int byte = hexval(ref[4]) * 16 + hexval(ref[5]);
        size_t n = strtoull(ref + 7, NULL, 10); char *b = malloc(n + 1); memset(b, byte, n);
        *len = n; return b;
    }
    *len = 0; return calloc(1, 1);
}

static zckChunk *nth_chunk(zckCtx *z, long n) {
    if(!z) return NULL;
    zckChunk *c = z->index.first;
    for(long i = 0; c && i < n; i++) c = c->next;
    return c;
}

static void sink_write(int c, const char *b, ssize_t n) {
    if(c >= 0 && c < NSLOT && sinks[c] >= 0 && n > 0) { ssize_t r = __real_write(sinks[c], b, n); (void)r; }
}

/* guard-page buffer: returns pointer p such that p[0..n) is accessible and p[n] faults */
static size_t guard_maplen; static char *guard_map;
static char *guard_buf(size_t n) {
    long pg = sysconf(_SC_PAGESIZE);
    size_t need = ((n + pg - 1) / pg + 1) * pg;
    if(guard_map) munmap(guard_map, guard_maplen);
    guard_map = mmap(NULL, need + pg, PROT_READ | PROT_WRITE, MAP_PRIVATE | MAP_ANONYMOUS, -1, 0);
    guard_maplen = need + pg;
    mprotect(guard_map + need, pg, PROT_NONE);
    return guard_map + need - n;
}

static sigjmp_buf segv_jmp; static volatile int segv_armed;
static void segv_handler(int sig) {
    if(segv_armed) { segv_armed = 0; siglongjmp(segv_jmp, sig); }
    signal(sig, SIG_DFL); raise(sig);
}

static void dump_chunks(zckCtx *z) {
    ev_raw(",\"chunks\":[");
    int first = 1; long guard = 0;
    for(zckChunk *ch = zck_get_first_chunk(z); ch && guard < 100000; ch = zck_get_next_chunk(ch), guard++) {
        char *d = zck_get_chunk_digest(ch);
        char *du = zck_get_chunk_digest_uncompressed(ch);
        char tmp[256];
        snprintf(tmp, sizeof tmp, "%s{\"num\":\"%lld\",\"start\":\"%lld\",\"clen\":\"%lld\",\"ulen\":\"%lld\",\"valid\":%d,\"digest\":\"",
                 first ? "" : ",", (long long)zck_get_chunk_number(ch), (long long)zck_get_chunk_start(ch),
                 (long long)zck_get_chunk_comp_size(ch), (long long)zck_get_chunk_size(ch), zck_get_chunk_valid(ch));
        ev_raw(tmp); ev_raw(d ? d : ""); ev_raw("\",\"udigest\":\""); ev_raw(du ? du : ""); ev_raw("\"}");
        free(d); free(du); first = 0;
    }
    ev_raw("]");
}

/* by-number lookups in an order that repeats, descends, overshoots and comes back (a lookup must not depend on the one
 * before it): pairs [asked, number of the chunk returned or -1] */
static void dump_bynum(zckCtx *z) {
    ev_raw(",\"bynum\":[");
    int was = zck_is_error(z);
    if(was) { ev_raw("]"); return; }            /* a context in error refuses lookups: nothing to compare */
    long n = (long)zck_get_chunk_count(z); if(n < 0) n = 0; if(n > 40) n = 40;
    long seq[400]; int m = 0;
    for(long k = 0; k < n && m < 390; k++) { seq[m++] = k; seq[m++] = k; }                 /* ascending, each twice */
    for(long k = n - 1; k >= 0 && m < 390; k--) seq[m++] = k;                               /* descending */
    seq[m++] = n; seq[m++] = 0; seq[m++] = n + 5; seq[m++] = n - 1; seq[m++] = n - 1; seq[m++] = 0; seq[m++] = 0;    /* past the end and back */
    for(long k = 0; k < n && m < 398; k += 2) { seq[m++] = k; if(k + 1 < n) seq[m++] = k + 1; seq[m++] = k; }
    for(int i = 0; i < m; i++) {
        if(seq[i] < 0) continue;
        zckChunk *ch = zck_get_chunk(z, (size_t)seq[i]);
        char tmp[64]; snprintf(tmp, sizeof tmp, "%s[%ld,%lld]", i ? "," : "", seq[i], ch ? (long long)zck_get_chunk_number(ch) : -1LL);
        ev_raw(tmp);
    }
    ev_raw("]");
    (void)zck_clear_error(z);       /* a lookup past the end sets a (non-fatal) error */
}

static void ev_valid(zckCtx *z) {
    ev_raw(",\"valid\":[");
    int first = 1;
    if(z) for(zckChunk *ch = z->index.first; ch; ch = ch->next) {
        char tmp[16]; snprintf(tmp, sizeof tmp, "%s%d", first ? "" : ",", ch->valid); ev_raw(tmp); first = 0;
    }
    ev_raw("]");
}

static void dump_range(zckRange *r) {
    ev_int("count", r ? (long long)r->count : -1);
    ev_raw(",\"items\":[");
    int first = 1;
    if(r) for(zckRangeItem *it = r->first; it; it = it->next) {
        char tmp[96]; snprintf(tmp, sizeof tmp, "%s[\"%llu\",\"%llu\"]", first ? "" : ",",
                               (unsigned long long)it->start, (unsigned long long)it->end);
        ev_raw(tmp); first = 0;
    }
    ev_raw("],\"ridx\":[");
    first = 1;
    if(r) for(zckChunk *ch = r->index.first; ch; ch = ch->next) {
        char tmp[160]; snprintf(tmp, sizeof tmp, "%s{\"start\":\"%llu\",\"clen\":\"%llu\",\"src\":%lld}", first ? "" : ",",
                                (unsigned long long)ch->start, (unsigned long long)ch->comp_length,
                                ch->src ? (long long)ch->src->number : -1LL);
        ev_raw(tmp); first = 0;
    }
    ev_raw("]");
}

/* -------- thread support (C19): run a sub-script file in a thread */
struct thr { pthread_t t; char path[512]; int id; };
static void run_lines(FILE *f);
static __thread int in_thread;
static void *thr_main(void *a) { struct thr *t = a; static __thread char tag[16]; snprintf(tag, sizeof tag, "/t%d", t->id); thr_tag = tag;
    if(getenv("ZV_STAGGER_MS")) usleep(1000 * atoi(getenv("ZV_STAGGER_MS")) * t->id);     /* threads one after the other: the race verdict must not change */
    FILE *f = fopen(t->path, "r"); in_thread = 1; if(f) { run_lines(f); fclose(f); } return NULL; }

/* ---------------------------------------------------------------- commands */
#define A(i) (i < ntok ? tok[i] : "")
#define AI(i) (i < ntok ? strtoll(tok[i], NULL, 0) : 0)
#define C(i) ((int)(AI(i) & (NSLOT - 1)))

static pthread_mutex_t evmu = PTHREAD_MUTEX_INITIALIZER;
static int at_eos[NSLOT];

static size_t user_cb(void *p, size_t l, size_t c, void *data) { (void)p; *(long *)data += (long)(l * c); return l * c; }
static void run_cmd(int ntok, char **tok) {
    const char *op = tok[0];
    if(!strcmp(op, "ctx")) { int c = C(1); at_eos[c] = 0; ctxs[c] = zck_create(); ev_begin("ctx"); ev_int("c", c); ev_int("ret", ctxs[c] != NULL); ev_end(); }
    else if(!strcmp(op, "free")) { int c = C(1); zck_free(&ctxs[c]); ev_begin("free"); ev_int("c", c); ev_end(); }
    else if(!strcmp(op, "open")) {
        int f = C(1); const char *mode = A(3); int fl = O_RDONLY;
        if(!strcmp(mode, "rw")) fl = O_RDWR | O_CREAT;
        else if(!strcmp(mode, "w")) fl = O_WRONLY | O_CREAT | O_TRUNC;
        else if(!strcmp(mode, "rwt")) fl = O_RDWR | O_CREAT | O_TRUNC;
        fds[f] = open(A(2), fl, 0666);
        ev_begin("open"); ev_int("f", f); ev_int("ret", fds[f] >= 0); ev_end();
    }
    else if(!strcmp(op, "closefd")) { int f = C(1); int r = close(fds[f]); fds[f] = -1; ev_begin("closefd"); ev_int("f", f); ev_int("ret", r); ev_end(); }
    else if(!strcmp(op, "closelow")) {
        /* close descriptors 0..n-1 so that the next open/mkstemp returns them */
        int n = (int)AI(1); for(int i = 0; i < n; i++) close(i);
        ev_begin("closelow"); ev_int("n", n); ev_end();
    }
    else if(!strcmp(op, "sink")) { int c = C(1); sinks[c] = open(A(2), O_WRONLY | O_CREAT | O_TRUNC, 0666); }
    else if(!strcmp(op, "loglevel")) { zck_set_log_level((zck_log_type)AI(1)); }
    else if(!strcmp(op, "init_read") || !strcmp(op, "init_adv_read") || !strcmp(op, "init_write")) {
        int c = C(1), f = C(2); bool r;
        if(!strcmp(op, "init_read")) r = zck_init_read(ctxs[c], fds[f]);
        else if(!strcmp(op, "init_adv_read")) r = zck_init_adv_read(ctxs[c], fds[f]);
        else r = zck_init_write(ctxs[c], fds[f]);
        ev_begin(op); ev_int("f", f); ev_int("ret", r); ev_ctx(c);
        if(!strcmp(op, "init_write") && ctxs[c]) ev_int("temp_fd", ctxs[c]->temp_fd);
        if(!strcmp(op, "init_read") && ctxs[c]) { zckCtx *z = ctxs[c];
            ev_u64("lead_size", z->lead_size); ev_u64("header_length", z->header_length);
            ev_u64("preface_size", z->preface_size); ev_u64("index_size", z->index_size);
            ev_u64("sig_size", z->sig_size); ev_u64("header_size", z->header_size); }
        ev_end();
    }
    else if(!strcmp(op, "read_lead") || !strcmp(op, "validate_lead") || !strcmp(op, "read_header")) {
        int c = C(1); bool r;
        if(!strcmp(op, "read_lead")) r = zck_read_lead(ctxs[c]);
        else if(!strcmp(op, "validate_lead")) r = zck_validate_lead(ctxs[c]);
        else r = zck_read_header(ctxs[c]);
        ev_begin(op); ev_int("ret", r); ev_ctx(c);
        if(ctxs[c]) { zckCtx *z = ctxs[c];
            ev_u64("lead_size", z->lead_size); ev_u64("header_length", z->header_length);
            ev_u64("preface_size", z->preface_size); ev_u64("index_size", z->index_size);
            ev_u64("sig_size", z->sig_size); ev_u64("header_size", z->header_size); }
        ev_end();
    }
    else if(!strcmp(op, "ioption")) {
        int c = C(1); bool r = zck_set_ioption(ctxs[c], (zck_ioption)AI(2), (ssize_t)AI(3));
        ev_begin("ioption"); ev_int("opt", AI(2)); ev_int("val", AI(3)); ev_int("ret", r); ev_ctx(c); ev_end();
    }
    else if(!strcmp(op, "soption")) {
        int c = C(1); size_t n; char *d = get_data(A(3), &n);
        bool r = zck_set_soption(ctxs[c], (zck_soption)AI(2), d, n);
        ev_begin("soption"); ev_int("opt", AI(2)); ev_int("len", (long long)n); ev_int("ret", r); ev_ctx(c); ev_end();
        free(d);
    }
    else if(!strcmp(op, "clear_error")) { int c = C(1); bool r = zck_clear_error(ctxs[c]); ev_begin("clear_error"); ev_int("ret", r); ev_ctx(c); ev_end(); }
    else if(!strcmp(op, "write")) {
        int c = C(1); size_t n; char *d = get_data(A(2), &n);
        ssize_t r = zck_write(ctxs[c], d, n);
        ev_begin("write"); ev_int("n", (long long)n); ev_int("ret", (long long)r); ev_ctx(c); ev_end();
        free(d);
    }
    else if(!strcmp(op, "writeseg")) {
        /* writeseg <c> <dataref> <piece>: deliver the data through zck_write calls of <piece> bytes each */
        int c = C(1); size_t n; char *d = get_data(A(2), &n); size_t piece = (size_t)AI(3); if(piece == 0) piece = 1;
        size_t done_ = 0; ssize_t r = 0; long calls = 0;
        while(done_ < n) { size_t k = n - done_ < piece ? n - done_ : piece; r = zck_write(ctxs[c], d + done_, k); calls++; if(r != (ssize_t)k) break; done_ += k; }
        ev_begin("write"); ev_int("n", (long long)n); ev_int("ret", r < 0 ? (long long)r : (long long)done_); ev_int("piece", (long long)piece); ev_int("calls", calls); ev_ctx(c); ev_end();
        free(d);
    }
    else if(!strcmp(op, "dump_header")) {
        /* dump_header <c> <path>: the header the context holds in memory (what a ZCK_NO_WRITE run computes) */
        int c = C(1); zckCtx *z = ctxs[c]; int o = open(A(2), O_WRONLY | O_CREAT | O_TRUNC, 0666); long long n = -1;
        if(z && z->header && o >= 0) { n = (long long)z->header_size; ssize_t w = __real_write(o, z->header, z->header_size); (void)w; }
        if(o >= 0) close(o);
        ev_begin("dump_header"); ev_int("size", n); ev_end();
    }
    else if(!strcmp(op, "wparams")) {
        /* the chunker's parameters as initialised by the first write: the average the rolling hash aims at and the limits */
        int c = C(1); zckCtx *z = ctxs[c];
        ev_begin("wparams");
        if(z) { ev_int("avg", (long long)z->buzhash_bitmask + 1); ev_int("auto_min", (long long)z->chunk_auto_min); ev_int("auto_max", (long long)z->chunk_auto_max);
                ev_int("min", (long long)z->chunk_min_size); ev_int("max", (long long)z->chunk_max_size); ev_int("manual", z->manual_chunk); }
        ev_end();
    }
    else if(!strcmp(op, "end_chunk")) { int c = C(1); ssize_t r = zck_end_chunk(ctxs[c]); ev_begin("end_chunk"); ev_int("ret", (long long)r); ev_ctx(c); ev_end(); }
    else if(!strcmp(op, "close")) { int c = C(1); bool r = zck_close(ctxs[c]); ev_begin("close"); ev_int("ret", r); ev_ctx(c); ev_end(); }
    else if(!strcmp(op, "read") || !strcmp(op, "readx")) {
        /* read: a consumer reads until the stream reports its end (0) and then stops: later `read` lines of a fixed
         * script are skipped, so that "open, every read to the end of the stream, close" is what was really executed.
         * readx: read regardless (histories that read on after the end) */
        int c = C(1); size_t n = (size_t)AI(2);
        if(!strcmp(op, "read") && at_eos[c]) return;
        char *b = malloc(n + 1);
        ssize_t r = zck_read(ctxs[c], b, n);
        sink_write(c, b, r);
        if(r == 0 && n > 0) at_eos[c] = 1;
        ev_begin("read"); ev_int("n", (long long)n); ev_int("ret", (long long)r); ev_ctx(c);
        if(r > 0 && r <= 64) ev_hex("bytes", (unsigned char *)b, r);
        ev_end(); free(b);
    }
    else if(!strcmp(op, "chunk_data") || !strcmp(op, "chunk_comp_data")) {
        int c = C(1); long k = (long)AI(2); long long n = AI(3);
        /* the handle comes from the public lookups, alternately by number and by iteration (a consumer does not cache it) */
        static __thread unsigned lookups;
        zckChunk *ch = NULL;
        if(ctxs[c] && ctxs[c]->index.first && k >= 0) {
            if(lookups++ % 2 == 0) ch = zck_get_chunk(ctxs[c], (size_t)k);
            else { ch = zck_get_first_chunk(ctxs[c]); for(long i_ = 0; ch && i_ < k; i_++) ch = zck_get_next_chunk(ch); }
        }
        /* n = -1: a buffer of exactly the declared size; n = -(1+e): e bytes more than that (a caller with a larger buffer) */
        if(n < 0 && ch) n = (!strcmp(op, "chunk_data") ? (long long)ch->length : (long long)ch->comp_length) + (-n - 1);
        if(n < 0) n = 0;
        if(n > (1LL << 27)) n = 1LL << 27;     /* the buffer the caller is willing to supply */
        char *b = malloc(n + 1);
        ssize_t r = !strcmp(op, "chunk_data") ? zck_get_chunk_data(ch, b, n) : zck_get_chunk_comp_data(ch, b, n);
        sink_write(c, b, r);
        ev_begin(op); ev_int("k", k); ev_int("n", n); ev_int("ret", (long long)r); ev_int("cvalid", ch ? ch->valid : -9); ev_ctx(c);
        if(r > 0 && r <= 64) ev_hex("bytes", (unsigned char *)b, r);
        ev_end(); free(b);
    }
    else if(!strcmp(op, "validate_checksums") || !strcmp(op, "validate_data") || !strcmp(op, "find_valid")) {
        int c = C(1); int r;
        if(!strcmp(op, "validate_checksums")) r = zck_validate_checksums(ctxs[c]);
        else if(!strcmp(op, "validate_data")) r = zck_validate_data_checksum(ctxs[c]);
        else r = zck_find_valid_chunks(ctxs[c]);
        ev_begin(op); ev_int("ret", r); ev_ctx(c); ev_valid(ctxs[c]); ev_end();
    }
    else if(!strcmp(op, "valid")) { int c = C(1); ev_begin("valid"); ev_ctx(c); ev_valid(ctxs[c]);
        ev_int("missing", ctxs[c] ? zck_missing_chunks(ctxs[c]) : -1); ev_int("failed", ctxs[c] ? zck_failed_chunks(ctxs[c]) : -1); ev_end(); }
    else if(!strcmp(op, "setvalid")) {
        /* poke a validity vector like "1,0,-1" through the private struct */
        int c = C(1); char *s = strdup(A(2)); char *sp = NULL; zckChunk *ch = ctxs[c] ? ctxs[c]->index.first : NULL;
        for(char *t = strtok_r(s, ",", &sp); t && ch; t = strtok_r(NULL, ",", &sp), ch = ch->next) ch->valid = atoi(t);
        free(s); ev_begin("setvalid"); ev_ctx(c); ev_valid(ctxs[c]); ev_end();
    }
    else if(!strcmp(op, "reset_failed")) { int c = C(1); zck_reset_failed_chunks(ctxs[c]); ev_begin("reset_failed"); ev_ctx(c); ev_valid(ctxs[c]); ev_end(); }
    else if(!strcmp(op, "dump")) {
        int c = C(1); zckCtx *z = ctxs[c];
        ev_begin("dump"); ev_ctx(c);
        ev_int("flags", (long long)zck_get_flags(z));
        ev_int("full_hash_type", zck_get_full_hash_type(z)); ev_int("chunk_hash_type", zck_get_chunk_hash_type(z));
        ev_int("full_digest_size", (long long)zck_get_full_digest_size(z)); ev_int("chunk_digest_size", (long long)zck_get_chunk_digest_size(z));
        ev_u64("lead_length", (unsigned long long)zck_get_lead_length(z)); ev_u64("header_length", (unsigned long long)zck_get_header_length(z));
        if(z && z->index.first) { ev_u64("data_length", (unsigned long long)zck_get_data_length(z)); ev_u64("length", (unsigned long long)zck_get_length(z)); }
        ev_int("have_index", z && z->index.first != NULL);
        char *hd = zck_get_header_digest(z), *dd = zck_get_data_digest(z);
        ev_str("header_digest", hd); ev_str("data_digest", dd); free(hd); free(dd);
        ev_u64("chunk_count", (unsigned long long)zck_get_chunk_count(z));
        ev_int("detached", zck_is_detached_header(z));
        ev_int("comp_type", z ? z->comp.type : -1);
        dump_chunks(z);
        dump_bynum(z);
        ev_end();
    }
    else if(!strcmp(op, "copy_chunks") || !strcmp(op, "find_matching")) {
        int s = C(1), t = C(2); bool r = !strcmp(op, "copy_chunks") ? zck_copy_chunks(ctxs[s], ctxs[t]) : zck_find_matching_chunks(ctxs[s], ctxs[t]);
        ev_begin(op); ev_int("src", s); ev_int("ret", r); ev_ctx(t); ev_valid(ctxs[t]); ev_end();
    }
    else if(!strcmp(op, "missing_range")) {
        int r = C(1), c = C(2); int max = (int)AI(3);
        ranges[r] = zck_get_missing_range(ctxs[c], max);
        ev_begin("missing_range"); ev_int("r", r); ev_int("max", max); ev_int("ret", ranges[r] != NULL); ev_ctx(c);
        if(ranges[r]) { dump_range(ranges[r]); ev_int("rcount", zck_get_range_count(ranges[r])); }
        ev_end();
    }
    else if(!strcmp(op, "range_char")) {
        int c = C(1), r = C(2); char *s = ranges[r] ? zck_get_range_char(ctxs[c], ranges[r]) : NULL;
        ev_begin("range_char"); ev_int("r", r); ev_int("ret", s != NULL);
        if(s) { if(A(3)[0]) { int fd = open(A(3), O_WRONLY | O_CREAT | O_TRUNC, 0666); ssize_t w = __real_write(fd, s, strlen(s)); (void)w; close(fd); ev_int("slen", (long long)strlen(s)); }
                else ev_str("s", s); }
        ev_end(); free(s);
    }
    else if(!strcmp(op, "get_range")) {
        char *s = zck_get_range((size_t)strtoull(A(1), NULL, 10), (size_t)strtoull(A(2), NULL, 10));
        ev_begin("get_range"); ev_str("s", s); ev_end(); free(s);
    }
    else if(!strcmp(op, "range_free")) { int r = C(1); if(ranges[r]) zck_range_free(&ranges[r]); ev_begin("range_free"); ev_int("r", r); ev_end(); }
    else if(!strcmp(op, "dl_init")) { int d = C(1), c = C(2); dls[d] = zck_dl_init(ctxs[c]); ev_begin("dl_init"); ev_int("d", d); ev_int("ret", dls[d] != NULL); ev_end(); }
    else if(!strcmp(op, "dl_reset")) { int d = C(1); zck_dl_reset(dls[d]); ev_begin("dl_reset"); ev_int("d", d); ev_end(); }
    else if(!strcmp(op, "dl_free")) { int d = C(1); if(dls[d]) zck_dl_free(&dls[d]); ev_begin("dl_free"); ev_int("d", d); ev_end(); }
    else if(!strcmp(op, "dl_set_range")) { int d = C(1); int r = (int)AI(2); bool x = zck_dl_set_range(dls[d], r < 0 ? NULL : ranges[r & (NSLOT-1)]); ev_begin("dl_set_range"); ev_int("d", d); ev_int("ret", x); ev_end(); }
    else if(!strcmp(op, "header_cb") || !strcmp(op, "write_chunk_cb") || !strcmp(op, "write_zck_header_cb")) {
        int d = C(1); size_t n; char *b = get_data(A(2), &n);
        /* copy to an exactly sized heap block so that ASan sees over-reads; callbacks may write a NUL into the buffer.  A header
         * line is placed flush against an inaccessible page instead: the C library's own formatting code (a log statement
         * printing the line with %s) is not instrumented, only a fault shows that it read on */
        int isg = !strcmp(op, "header_cb") && n > 0 && n < 65536;
        char *x = isg ? guard_buf(n) : malloc(n ? n : 1); memcpy(x, b, n);
        size_t r;
        if(!strcmp(op, "header_cb")) r = zck_header_cb(x, 1, n, dls[d]);
        else if(!strcmp(op, "write_chunk_cb")) r = zck_write_chunk_cb(x, 1, n, dls[d]);
        else r = zck_write_zck_header_cb(x, 1, n, dls[d]);
        zckCtx *z = dls[d] ? dls[d]->zck : NULL;
        ev_begin(op); ev_int("d", d); ev_int("n", (long long)n); ev_int("ret", (long long)r);
        if(z) { ev_int("err", zck_is_error(z)); ev_valid(z); }
        if(dls[d]) { ev_int("has_boundary", dls[d]->boundary != NULL); if(dls[d]->boundary && strlen(dls[d]->boundary) < 200) ev_str("boundary", dls[d]->boundary); }
        ev_end(); if(!isg) free(x); free(b);
    }
    else if(!strcmp(op, "fetch")) {
        /* usercb=1: the application's own header / write callbacks are registered on the handle (after the reset, which clears
         * them); the library's callbacks do their work and then hand the same bytes on; the application's return value is returned */
        /* fetch <d> <c> <Bpath> <limit> <frag> [k=v ...]
         * One round of the documented update loop against an in-process "server" holding B:
         *   zck_dl_reset; range = zck_get_missing_range(ctx, limit); zck_dl_set_range;
         *   the response for exactly those ranges is built (plain body for one range, multipart/byteranges
         *   otherwise), its header lines go to zck_header_cb and its body to zck_write_chunk_cb in fragments.
         * options: boundary=STR quoted=1 extra=1 (extra part headers) fold=1 (Content-Type folded over two header lines) leadcrlf=0 forcemulti=1 lower=1
         *          corrupt=N (flip bit 0 of payload byte N of the response, counted over payload bytes only)
         *          cuts=a,b,c (explicit fragment boundaries in the body stream; overrides frag)
         *          hdrfrag=1 (each header line in its own call - always the case) stop=N (deliver only N body bytes)
         *          partend=1 (fragments end exactly on the last payload byte of every part, as a server that flushes per
         *          part delivers them) */
        int d = C(1), c = C(2); const char *bpath = A(3); int limit = (int)AI(4); long frag = (long)AI(5);
        const char *boundary = "zckBOUNDARYzck"; int quoted = 0, extra = 0, leadcrlf = 1, forcemulti = 0, lower = 0, partend = 0, fold = 0; long corrupt = -1, stop = -1;
        char cutsbuf[4096] = ""; int usercb = 0;
        for(int k = 6; k < ntok; k++) {
            if(!strncmp(tok[k], "boundary=", 9)) boundary = tok[k] + 9;
            else if(!strncmp(tok[k], "quoted=", 7)) quoted = atoi(tok[k] + 7);
            else if(!strncmp(tok[k], "extra=", 6)) extra = atoi(tok[k] + 6);
            else if(!strncmp(tok[k], "fold=", 5)) fold = atoi(tok[k] + 5);
            else if(!strncmp(tok[k], "leadcrlf=", 9)) leadcrlf = atoi(tok[k] + 9);
            else if(!strncmp(tok[k], "forcemulti=", 11)) forcemulti = atoi(tok[k] + 11);
            else if(!strncmp(tok[k], "lower=", 6)) lower = atoi(tok[k] + 6);
            else if(!strcmp(tok[k], "corrupt=last")) corrupt = -2;            /* the last payload byte of the response */
            else if(!strncmp(tok[k], "corrupt=", 8)) corrupt = atol(tok[k] + 8);
            else if(!strcmp(tok[k], "stop=mid")) stop = -2;                   /* inside the payload of the last part */
            else if(!strcmp(tok[k], "stop=end")) stop = -3;                   /* exactly after the payload of the first part */
            else if(!strncmp(tok[k], "stop=", 5)) stop = atol(tok[k] + 5);
            else if(!strncmp(tok[k], "partend=", 8)) partend = atoi(tok[k] + 8);
            else if(!strncmp(tok[k], "usercb=", 7)) usercb = atoi(tok[k] + 7);
            else if(!strncmp(tok[k], "cuts=", 5)) snprintf(cutsbuf, sizeof cutsbuf, "%s", tok[k] + 5);
        }
        zckDL *dl = dls[d]; zckCtx *z = ctxs[c]; int fe0 = shim_fired_err;
        zck_dl_reset(dl);
        long ucb_bytes[2] = {0, 0};
        if(usercb) { zck_dl_set_header_cb(dl, user_cb); zck_dl_set_header_data(dl, &ucb_bytes[0]); zck_dl_set_write_cb(dl, user_cb); zck_dl_set_write_data(dl, &ucb_bytes[1]); }
        zckRange *r = zck_get_missing_range(z, limit);      /* local: fetch may run in several threads at once (C19) */
        ev_begin("fetch"); ev_int("limit", limit);
        if(!r) { ev_int("ret", 0); ev_end(); }
        else {
            (void)zck_dl_set_range(dl, r);
            dump_range(r);
            int bfd = open(bpath, O_RDONLY); struct stat st; fstat(bfd, &st);
            int nr = 0; for(zckRangeItem *it = r->first; it; it = it->next) nr++;
            if(nr == 0) { close(bfd); ev_int("ret", 1); ev_int("nranges", 0); ev_int("calls", 0); ev_int("okcalls", 0); ev_int("firstfail", -1);
                          ev_int("err", zck_is_error(z)); ev_valid(z); ev_int("missing", zck_missing_chunks(z)); ev_int("failed", zck_failed_chunks(z)); ev_end();
                          (void)zck_dl_set_range(dl, NULL); zck_range_free(&r); return; }
            /* build the response */
            size_t cap = 4096; for(zckRangeItem *it = r->first; it; it = it->next) cap += (it->end - it->start + 1) + 512 + strlen(boundary);
            char *body = malloc(cap); size_t bl = 0; long payload_seen = 0;
            if(corrupt == -2) { long tot_ = 0; for(zckRangeItem *it = r->first; it; it = it->next) tot_ += (long)(it->end - it->start + 1); corrupt = tot_ - 1; }
            size_t first_end = 0, last_start = 0, last_len = 0;
            size_t fr_s[65], fr_e[65]; int nfr = 0;      /* where the multipart framing (delimiter lines + part headers) lies in the body */
            char hdr[1024];
            int multi = nr > 1 || forcemulti;
            for(zckRangeItem *it = r->first; it; it = it->next) {
                size_t len = it->end - it->start + 1;
                if(multi) {
                    if(nfr < 64) fr_s[nfr] = bl;
                    bl += snprintf(body + bl, cap - bl, "%s--%s\r\n%s%s: bytes %llu-%llu/%lld\r\n\r\n", (it == r->first && !leadcrlf) ? "" : "\r\n", boundary,
                                   extra ? "Content-Type: application/octet-stream\r\nX-Extra: 1\r\n" : "Content-Type: application/octet-stream\r\n",
                                   lower ? "content-range" : "Content-Range", (unsigned long long)it->start, (unsigned long long)it->end, (long long)st.st_size);
                    if(nfr < 64) fr_e[nfr++] = bl;
                }
                ssize_t got = pread(bfd, body + bl, len, it->start);
                if(got < (ssize_t)len) memset(body + bl + (got < 0 ? 0 : got), 0, len - (got < 0 ? 0 : got));
                if(corrupt >= payload_seen && corrupt < payload_seen + (long)len) body[bl + (corrupt - payload_seen)] ^= 1;
                last_start = bl; last_len = len;
                payload_seen += len; bl += len;
                if(it == r->first) first_end = bl;
                if(partend && strlen(cutsbuf) < sizeof cutsbuf - 32) { char t_[32]; snprintf(t_, sizeof t_, "%s%zu", cutsbuf[0] ? "," : "", bl); strcat(cutsbuf, t_); }
            }
            if(multi) { fr_s[nfr] = bl; bl += snprintf(body + bl, cap - bl, "\r\n--%s--\r\n", boundary); fr_e[nfr++] = bl; }
            close(bfd);
            /* header lines */
            long hret = 0; int hcalls = 0;
            const char *l1 = "HTTP/1.1 206 Partial Content\r\n";
            char *x = strdup(l1); hret += zck_header_cb(x, 1, strlen(l1), dl) == strlen(l1); hcalls++; free(x);
            if(multi) snprintf(hdr, sizeof hdr, quoted ? "Content-Type: multipart/byteranges; boundary=\"%s\"\r\n" : "Content-Type: multipart/byteranges; boundary=%s\r\n", boundary);
            else snprintf(hdr, sizeof hdr, "Content-Range: bytes %llu-%llu/%lld\r\n", (unsigned long long)r->first->start, (unsigned long long)r->first->end, (long long)st.st_size);
            if(multi && fold) {
                /* the Content-Type header folded over two lines (obs-fold): the parameter arrives in a header callback of its own */
                const char *f1 = "Content-Type: multipart/byteranges;\r\n";
                x = strdup(f1); hret += zck_header_cb(x, 1, strlen(f1), dl) == strlen(f1); hcalls++; free(x);
                snprintf(hdr, sizeof hdr, quoted ? "\tboundary=\"%s\"\r\n" : "\tboundary=%s\r\n", boundary);
            }
            x = strdup(hdr); hret += zck_header_cb(x, 1, strlen(hdr), dl) == strlen(hdr); hcalls++; free(x);
            x = strdup("\r\n"); hret += zck_header_cb(x, 1, 2, dl) == 2; hcalls++; free(x);
            /* body fragments */
            if(stop == -2) stop = (long)(last_start + last_len / 2);
            if(stop == -3) stop = (long)first_end;
            size_t total = (stop >= 0 && (size_t)stop < bl) ? (size_t)stop : bl;
            size_t pos = 0; long calls = 0, okcalls = 0; long firstfail = -1; size_t failpos = 0;
            char *cp = cutsbuf; 
            while(pos < total) {
                size_t n;
                if(cutsbuf[0]) { size_t next = total; while(*cp) { char *e; size_t v = strtoull(cp, &e, 10); cp = (*e == ',') ? e + 1 : e; if(v > pos) { next = v < total ? v : total; break; } } n = next - pos; if(n == 0) n = total - pos; }
                else n = (frag > 0 && (size_t)frag < total - pos) ? (size_t)frag : total - pos;
                char *fr = malloc(n); memcpy(fr, body + pos, n);
                size_t rr = zck_write_chunk_cb(fr, 1, n, dl);
                free(fr); calls++;
                if(rr == n) okcalls++; else { if(firstfail < 0) { firstfail = calls; failpos = pos; } break; }   /* a transport aborts on a short return */
                pos += n;
            }
            ev_int("ret", 1); ev_int("nranges", nr); ev_int("multi", multi); ev_int("bodylen", (long long)bl); ev_int("hdrok", hret == hcalls);
            ev_raw(",\"framing\":["); for(int q = 0; q < nfr; q++) { char t_[64]; snprintf(t_, sizeof t_, "%s[%zu,%zu]", q ? "," : "", fr_s[q], fr_e[q]); ev_raw(t_); } ev_raw("]");
            ev_int("calls", calls); ev_int("okcalls", okcalls); ev_int("firstfail", firstfail); ev_int("failpos", (long long)failpos); ev_int("delivered", (long long)pos);
            ev_int("err", zck_is_error(z)); ev_valid(z);
            if(usercb) { ev_int("ucb_hdr", ucb_bytes[0]); ev_int("ucb_body", ucb_bytes[1]); ev_int("ucb_same_range", zck_dl_get_range(dl) == r); }
            ev_int("missing", zck_missing_chunks(z)); ev_int("failed", zck_failed_chunks(z)); ev_int("firederr", shim_fired_err - fe0);
            ev_end();
            free(body);
            (void)zck_dl_set_range(dl, NULL);
            zck_range_free(&r);
        }
    }
    else if(!strcmp(op, "snapshot")) {
        /* snapshot <f> <path>: copy the current contents of the file behind descriptor slot f */
        int f = C(1); int o = open(A(2), O_WRONLY | O_CREAT | O_TRUNC, 0666); char b[65536]; off_t off = 0; ssize_t r;
        while((r = pread(fds[f], b, sizeof b, off)) > 0) { ssize_t w = __real_write(o, b, r); (void)w; off += r; }
        close(o); ev_begin("snapshot"); ev_int("f", f); ev_int("size", (long long)off); ev_str("path", A(2)); ev_end();
    }
    else if(!strcmp(op, "ftruncate")) { int f = C(1); int r = ftruncate(fds[f], (off_t)AI(2)); ev_begin("ftruncate"); ev_int("f", f); ev_int("ret", r); ev_end(); }
    else if(!strcmp(op, "truncate_to_length")) { int f = C(1), c = C(2); ssize_t L = zck_get_length(ctxs[c]); int r = ftruncate(fds[f], L); ev_begin("truncate_to_length"); ev_int("len", (long long)L); ev_int("ret", r); ev_end(); }
    else if(!strcmp(op, "seek")) { int f = C(1); off_t r = __real_lseek(fds[f], (off_t)AI(2), SEEK_SET); ev_begin("seek"); ev_int("f", f); ev_int("ret", (long long)r); ev_end(); }
    else if(!strcmp(op, "tell")) { int f = C(1); off_t r = __real_lseek(fds[f], 0, SEEK_CUR); ev_begin("tell"); ev_int("f", f); ev_int("ret", (long long)r); ev_end(); }
    else if(!strcmp(op, "pwrite")) { int f = C(1); size_t n; char *b = get_data(A(3), &n); ssize_t r = pwrite(fds[f], b, n, (off_t)AI(2)); ev_begin("pwrite"); ev_int("ret", (long long)r); ev_end(); free(b); }
    else if(!strcmp(op, "set_fd")) { int c = C(1), f = C(2); bool r = zck_set_fd(ctxs[c], fds[f]); ev_begin("set_fd"); ev_int("ret", r); ev_end(); }
    /* ---- shim control */
    else if(!strcmp(op, "shim_log")) { shim_log_enabled = (int)AI(1); shim_nlog = 0; shim_ntotal = 0; }
    else if(!strcmp(op, "shim_cap")) { shim_set_cap(fds[C(1)], (long long)AI(2)); }
    else if(!strcmp(op, "shim_fault")) {
        /* shim_fault <r|w|s|t> <fdslot|-1=any|-2=temp> <nth> <errno|-n for short count n> */
        int fs = (int)AI(2); shim_add_fault(A(1)[0], fs == -1 ? -1 : (fs == -2 ? -2 : fds[fs & (NSLOT-1)]), (int)AI(3), (long long)AI(4));
    }
    else if(!strcmp(op, "shim_fault_next")) {
        /* shim_fault_next <r|w|s|t> <fdslot|-2=temp> <errno|-n> [j]: the NEXT (or j-th next) call of that kind on that descriptor */
        int fs = (int)AI(2); int fd = fs == -2 ? -2 : fds[fs & (NSLOT-1)];
        shim_add_fault(A(1)[0], fd, shim_calls(A(1)[0], fd) + (ntok > 4 ? (int)AI(4) : 1), (long long)AI(3));
    }
    else if(!strcmp(op, "shim_kill")) { int fs = (int)AI(1); shim_set_kill(fs < 0 ? fs : fds[fs & (NSLOT-1)], (int)AI(2), (long long)AI(3)); }
    else if(!strcmp(op, "shim_clear")) { shim_clear(); }
    /* alloc_arm <nth> [len]: from now on count the allocations made by zchunk's own code; numbers nth..nth+len-1 fail (nth 0: count only) */
    else if(!strcmp(op, "alloc_arm")) { shim_alloc_arm((int)AI(1), ntok > 2 ? (int)AI(2) : 1); }
    else if(!strcmp(op, "alloc_stats")) { ev_begin("alloc_stats"); ev_int("count", shim_alloc_count); ev_int("fired", shim_alloc_fired); ev_end(); }
    else if(!strcmp(op, "shim_stats")) {
        ev_begin("shim_stats");
        ev_raw(",\"fdstats\":[");
        int first = 1;
        for(int i = 0; i < NSLOT; i++) if(fds[i] >= 0) {
            char tmp[200]; snprintf(tmp, sizeof tmp, "%s{\"f\":%d,\"wbytes\":%lld,\"wcalls\":%d,\"rcalls\":%d,\"scalls\":%d}", first ? "" : ",", i,
                                    shim_wbytes(fds[i]), shim_calls('w', fds[i]), shim_calls('r', fds[i]), shim_calls('s', fds[i]));
            ev_raw(tmp); first = 0;
        }
        ev_raw("]"); ev_int("temp_wbytes", shim_wbytes(-2)); ev_int("temp_wcalls", shim_calls('w', -2)); ev_int("temp_rcalls", shim_calls('r', -2)); ev_int("temp_scalls", shim_calls('s', -2));
        ev_int("static_bufs", shim_static_bufs);
        ev_end();
    }
    /* ---- direct entry points on guard-page buffers */
    else if(!strcmp(op, "compint_dec")) {
        /* compint_dec <size|int> <hexbytes> <offset> <max_length>: the bytes are placed flush against an
         * inaccessible page; decoding starts at buffer+offset with the cursor (*length) equal to offset */
        size_t n; char *d = get_data(A(2), &n); size_t off = (size_t)strtoull(A(3), NULL, 10); size_t maxl = (size_t)strtoull(A(4), NULL, 10);
        char *g = guard_buf(n); memcpy(g, d, n); free(d);
        zckCtx *z = zck_create();
        size_t val = 0, len = off; int ival = 0; int r = 0; volatile int crashed = 0;
        segv_armed = 1;
        int sig = sigsetjmp(segv_jmp, 1);
        if(sig == 0) {
            if(!strcmp(A(1), "size")) r = compint_to_size(z, &val, g + off, &len, maxl);
            else { r = compint_to_int(z, &ival, g + off, &len, maxl); val = (size_t)(long long)ival; }
        } else crashed = sig;
        segv_armed = 0;
        ev_begin("compint_dec"); ev_str("kind", A(1)); ev_str("hex", A(2) + 4); ev_int("off", (long long)off); ev_int("max", (long long)maxl);
        if(crashed) ev_int("crash", crashed);
        else { ev_int("ret", r); ev_u64("val", val); ev_int("ival", ival); ev_int("len", (long long)len); ev_int("err", zck_is_error(z)); }
        ev_end();
        if(!crashed) zck_free(&z);
    }
    else if(!strcmp(op, "compint_enc")) {
        /* compint_enc <size|int> <decimal>: encode into a guard buffer of MAX_COMP_SIZE bytes */
        char *g = guard_buf(MAX_COMP_SIZE); memset(g, 0xEE, MAX_COMP_SIZE);
        size_t len = 0; int r = 1; zckCtx *z = zck_create();
        if(!strcmp(A(1), "size")) compint_from_size(g, (size_t)strtoull(A(2), NULL, 10), &len);
        else r = compint_from_int(z, g, (int)strtoll(A(2), NULL, 10), &len);
        ev_begin("compint_enc"); ev_str("kind", A(1)); ev_str("val", A(2)); ev_int("ret", r); ev_int("len", (long long)len);
        ev_hex("hex", (unsigned char *)g, len <= MAX_COMP_SIZE ? len : MAX_COMP_SIZE);
        /* decode it back */
        size_t v2 = 0, l2 = 0; int r2 = compint_to_size(z, &v2, g, &l2, MAX_COMP_SIZE);
        ev_int("dret", r2); ev_u64("dval", v2); ev_int("dlen", (long long)l2);
        ev_end(); zck_free(&z);
    }
    else if(!strcmp(op, "hash")) {
        /* hash <type> <dataref> <cut1,cut2,...>: digest of data fed in the given segmentation */
        size_t n; char *d = get_data(A(2), &n);
        zckCtx *z = zck_create(); zckHashType ht = {0}; zckHash h = {0};
        bool ok = hash_setup(z, &ht, (int)AI(1)) && hash_init(z, &h, &ht);
        size_t pos = 0; char *cuts = strdup(A(3)); char *sp = NULL; int nseg = 0;
        for(char *t = strtok_r(cuts, ",", &sp); ok && t; t = strtok_r(NULL, ",", &sp)) {
            size_t c = strtoull(t, NULL, 10); if(c > n) c = n; if(c <= pos) continue;
            ok = hash_update(z, &h, d + pos, c - pos); pos = c; nseg++;
        }
        if(ok && pos < n) { ok = hash_update(z, &h, d + pos, n - pos); nseg++; }
        char *dig = ok ? hash_finalize(z, &h) : NULL;
        ev_begin("hash"); ev_int("type", AI(1)); ev_int("n", (long long)n); ev_str("cuts", A(3)); ev_int("nseg", nseg); ev_int("ret", dig != NULL);
        ev_int("dsize", ht.digest_size);
        if(dig) ev_hex("digest", (unsigned char *)dig, ht.digest_size);
        ev_end(); free(dig); free(cuts); free(d); hash_close(&h); zck_free(&z);
    }
    else if(!strcmp(op, "hdrscan")) {
        /* hdrscan <path> <from> <to> [pin <hashtype> <digest_loc> <digest_size>]: for every position p in
         * [from,to) and every substitute byte value, try to open a private copy; report the accepted
         * (position,value) pairs only.  With "pin" the open goes through zck_init_adv_read with the header
         * checksum type and the (mutated file's own) stored header checksum pinned, then read_lead+read_header. */
        size_t n; char *d = get_data(A(1), &n); long from = (long)AI(2), to = (long)AI(3);
        int pinorig = !strcmp(A(4), "pinorig");   /* the pinned digest is the ORIGINAL file's (what the caller authenticated), not the candidate's own */
        int pin = !strcmp(A(4), "pin") || pinorig; int pht = (int)AI(5); long dloc = (long)AI(6), dsz = (long)AI(7);
        int preopt = !strcmp(A(4), "preopt"); int po_opt = (int)AI(5); long po_val = (long)AI(6);   /* an integer option set on the fresh context first (its result ignored, the error cleared) */
        int relead = !strcmp(A(4), "relead");   /* the context has read the lead of the ORIGINAL bytes before they change (state carried between calls) */
        int retry = !strcmp(A(4), "retry");     /* advanced open; a refused zck_read_header is followed by zck_clear_error and a second zck_read_header on the same context */
        if(to > (long)n) to = (long)n;
        int mfd = memfd_create("hdrscan", 0);
        ssize_t w = __real_write(mfd, d, n); (void)w;
        zck_set_log_level(ZCK_LOG_NONE);
        long tried = 0, acc = 0;
        ev_begin("hdrscan"); ev_int("from", from); ev_int("to", to); ev_int("pin", pin); ev_raw(",\"accepted\":[");
        for(long p = from; p < to; p++) {
            unsigned char orig = (unsigned char)d[p];
            for(int v = 0; v < 256; v++) {
                if(v == orig) continue;
                unsigned char b = (unsigned char)v;
                zckCtx *z = zck_create();
                bool ok;
                if(relead) {
                    __real_lseek(mfd, 0, SEEK_SET);
                    ok = zck_init_adv_read(z, mfd) && zck_read_lead(z);
                    if(!ok) { zck_free(&z); break; }       /* the unmodified lead is not accepted: reported by the plain cases */
                }
                if(pwrite(mfd, &b, 1, p) != 1) { zck_free(&z); continue; }
                __real_lseek(mfd, 0, SEEK_SET);
                if(relead) ok = zck_read_lead(z) && zck_read_header(z);
                else if(preopt) { if(!zck_set_ioption(z, (zck_ioption)po_opt, po_val)) zck_clear_error(z); ok = zck_init_read(z, mfd); }
                else if(retry) {
                    ok = zck_init_adv_read(z, mfd) && zck_read_lead(z);
                    if(ok) { ok = zck_read_header(z); if(!ok && zck_clear_error(z)) ok = zck_read_header(z); }
                }
                else if(!pin) ok = zck_init_read(z, mfd);
                else {
                    char hex[200]; unsigned char cur[64];
                    if(dsz > 64) dsz = 64;
                    if(pinorig && (size_t)(dloc + dsz) <= n) memcpy(cur, d + dloc, dsz);
                    else if(pread(mfd, cur, dsz, dloc) != dsz) memset(cur, 0, sizeof cur);
                    for(long k = 0; k < dsz; k++) snprintf(hex + 2 * k, 3, "%02x", cur[k]);
                    ok = zck_init_adv_read(z, mfd) && zck_set_ioption(z, ZCK_VAL_HEADER_HASH_TYPE, pht)
                         && zck_set_soption(z, ZCK_VAL_HEADER_DIGEST, hex, 2 * dsz)
                         && zck_read_lead(z) && zck_read_header(z);
                }
                tried++;
                if(ok) { char tmp[48]; snprintf(tmp, sizeof tmp, "%s[%ld,%d]", acc ? "," : "", p, v); ev_raw(tmp); acc++; }
                zck_free(&z);
                if(relead && pwrite(mfd, &orig, 1, p) != 1) break;
            }
            if(pwrite(mfd, &orig, 1, p) != 1) break;
        }
        ev_raw("]"); ev_int("tried", tried); ev_end(); close(mfd); free(d);
    }
    else if(!strcmp(op, "threads")) {
        /* threads <script1> <script2> ...: run each sub-script in its own thread, concurrently */
        struct thr T[NSLOT]; int n = ntok - 1; if(n > NSLOT) n = NSLOT;
        for(int i = 0; i < n; i++) { snprintf(T[i].path, sizeof T[i].path, "%s", tok[i + 1]); T[i].id = i; pthread_create(&T[i].t, NULL, thr_main, &T[i]); }
        for(int i = 0; i < n; i++) pthread_join(T[i].t, NULL);
        ev_begin("threads"); ev_int("n", n); ev_end();
    }
    else if(!strcmp(op, "gsnap") || !strcmp(op, "gdiff")) {
        /* gsnap <file>: remember the contents of the writable globals of the library objects; the file lists
         * "name hexaddr size" per line (from nm on a -no-pie link).  gdiff: report the ones that changed. */
        static char *gcopy[4096]; static char *gaddr[4096]; static size_t gsize[4096]; static char gname[4096][64]; static int gn;
        if(!strcmp(op, "gsnap")) {
            FILE *f = fopen(A(1), "r"); gn = 0; char nm[64]; unsigned long long ad, sz;
            while(f && gn < 4096 && fscanf(f, "%63s %llx %llu", nm, &ad, &sz) == 3) {
                if(sz == 0 || sz > (1 << 22)) continue;
                snprintf(gname[gn], 64, "%s", nm); gaddr[gn] = (char *)(uintptr_t)ad; gsize[gn] = sz; free(gcopy[gn]); gcopy[gn] = malloc(sz); memcpy(gcopy[gn], gaddr[gn], sz); gn++;
            }
            if(f) fclose(f);
            ev_begin("gsnap"); ev_int("n", gn); ev_end();
        } else {
            ev_begin("gdiff"); ev_raw(",\"changed\":["); int first = 1;
            for(int i = 0; i < gn; i++) if(memcmp(gcopy[i], gaddr[i], gsize[i])) { char tmp[96]; snprintf(tmp, sizeof tmp, "%s\"%s\"", first ? "" : ",", gname[i]); ev_raw(tmp); first = 0; memcpy(gcopy[i], gaddr[i], gsize[i]); }
            ev_raw("]"); ev_int("static_bufs", shim_static_bufs); ev_int("foreign_closes", shim_foreign_closes); ev_int("umask_calls", shim_umask_calls); ev_int("mkstemp_calls", shim_mkstemp_calls); ev_int("umask_in_mkstemp", shim_umask_in_mkstemp); ev_end();
        }
    }
    else if(!strcmp(op, "echo")) { ev_begin("echo"); ev_str("s", A(1)); ev_end(); }
    else { ev_begin("unknown"); ev_str("cmd", op); ev_end(); }
}

static void run_line(char *line) {
    char *tok[MAXTOK]; int ntok = 0; char *sp = NULL;
    for(char *t = strtok_r(line, " \t\r\n", &sp); t && ntok < MAXTOK; t = strtok_r(NULL, " \t\r\n", &sp)) tok[ntok++] = t;
    if(ntok == 0 || tok[0][0] == '#') return;
    /* Threads never synchronise with each other in the harness (events go to thread-local buffers): a lock here
     * would order the commands of different threads for the race detector and hide races between commands that
     * do not happen to overlap in time.  VERIF_SERIALIZE=1 runs the commands one at a time (debugging only). */
    int ser = in_thread && getenv("VERIF_SERIALIZE");
    if(ser) pthread_mutex_lock(&evmu);
    run_cmd(ntok, tok);
    if(ser) pthread_mutex_unlock(&evmu);
}

static void run_lines(FILE *f) {
    char *line = NULL; size_t cap = 0;
    while(getline(&line, &cap, f) > 0) run_line(line);
    free(line);
}

int main(int argc, char **argv) {
    for(int i = 0; i < NSLOT; i++) { fds[i] = -1; sinks[i] = -1; }
    /* the library keeps its built-in logging defaults (level, descriptor) unless a script says `loglevel` */
    shim_disabled = getenv("ZV_SHIM_OFF") != NULL;
    signal(SIGPIPE, SIG_IGN);
    struct sigaction sa = {0}; sa.sa_handler = segv_handler; sigemptyset(&sa.sa_mask); sa.sa_flags = SA_NODEFER;
    if(!getenv("VERIF_NO_SEGV_HANDLER")) { sigaction(SIGSEGV, &sa, NULL); sigaction(SIGBUS, &sa, NULL); }
    int keep_low = 100 + 0; (void)keep_low;
    /* make sure our own stdin/stdout survive a 'closelow' : move them up */
    int in = fcntl(0, F_DUPFD, 200), out = fcntl(1, F_DUPFD, 201);
    FILE *fin = fdopen(in, "r");
    shim_out_fd = out;
    (void)argc; (void)argv;

    char *line = NULL; size_t cap = 0;
    char **lines = NULL; size_t nl = 0, capl = 0;
    char cid[256] = ""; int budget = 20; int incase = 0;
    while(getline(&line, &cap, fin) > 0) {
        if(!incase) {
            if(strncmp(line, "case ", 5) == 0) {
                budget = 20; cid[0] = 0;
                sscanf(line + 5, "%255s %d", cid, &budget);
                incase = 1; nl = 0;
            }
            continue;
        }
        if(strncmp(line, "end", 3) == 0 && (line[3] == '\n' || line[3] == 0 || line[3] == '\r')) {
            incase = 0;
            fflush(stdout);
            pid_t pid = fork();
            if(pid == 0) {
                case_id = cid; ev_i = 0;
                alarm(budget);
                ev_begin("begin"); ev_end();
                for(size_t i = 0; i < nl; i++) run_line(lines[i]);
                ev_begin("done"); ev_end();
#ifdef VERIF_COV
                { extern void __gcov_dump(void); __gcov_dump(); }
#endif
                _exit(0);
            }
            int st = 0; waitpid(pid, &st, 0);
            case_id = cid; ev_i = 1000000;
            if(WIFSIGNALED(st)) {
                int sg = WTERMSIG(st);
                ev_begin(sg == SIGALRM ? "Hang" : "Crash"); ev_int("sig", sg); shim_log_enabled = 0; ev_end();
            } else if(WIFEXITED(st) && WEXITSTATUS(st) == 99) {
                ev_begin("Killed"); shim_log_enabled = 0; ev_end();
            } else if(WIFEXITED(st) && WEXITSTATUS(st) != 0) {
                ev_begin("Crash"); ev_int("exit", WEXITSTATUS(st)); shim_log_enabled = 0; ev_end();
            }
            for(size_t i = 0; i < nl; i++) free(lines[i]);
            nl = 0;
            continue;
        }
        if(nl == capl) { capl = capl ? capl * 2 : 64; lines = realloc(lines, capl * sizeof *lines); }
        lines[nl++] = strdup(line);
    }
    return 0;
}
