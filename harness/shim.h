/* ioshim - link-time (--wrap) observation and perturbation of the system-call boundary */
#ifndef ZV_SHIM_H
#define ZV_SHIM_H
#include <sys/types.h>
struct shim_logent { char kind; int slot; int fd; long long n, ret; char cls; };
#define SHIM_MAXLOG 256
extern struct shim_logent shim_logv[SHIM_MAXLOG];
extern int shim_nlog, shim_ntotal, shim_log_enabled, shim_out_fd, shim_static_bufs, shim_disabled;
ssize_t __real_read(int fd, void *buf, size_t n);
ssize_t __real_write(int fd, const void *buf, size_t n);
off_t __real_lseek(int fd, off_t off, int whence);
int __real_ftruncate(int fd, off_t len);
int __real_mkstemp(char *t);
int __real_close(int fd);
extern int shim_foreign_closes, shim_fired, shim_fired_err;
void shim_set_cap(int fd, long long n);
/* kind: r w s t ; fd: >=0 exact, -1 any, -2 temp file, <=-1000 role id ; nth counted from 1 ;
 * action: >0 errno to fail with, <0 short count -action, 0 = return 0 (EOF / nothing written) */
void shim_add_fault(char kind, int fd, int nth, long long action);
void shim_set_kill(int fd, int nth_write, long long bytes);
void shim_clear(void);
long long shim_wbytes(int fd);
int shim_calls(char kind, int fd);
int shim_slot_of_fd(int fd);   /* provided by the program: fd -> small role number for logs, or -1 */
extern int shim_umask_calls, shim_mkstemp_calls, shim_umask_in_mkstemp;
extern int shim_alloc_count, shim_alloc_nth, shim_alloc_len, shim_alloc_fired;
void shim_alloc_arm(int nth, int len);   /* nth = 0: count only */
#endif
