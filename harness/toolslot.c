/* tools have no slot table: every fd with a role is logged through role_of[] in shim.c */
int shim_slot_of_fd(int fd) { (void)fd; return -1; }
